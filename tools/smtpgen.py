"""Generators of `client` cases: envelopes, contents, server scripts with faults."""
from tools.lv import hexs, hexlist

ASCII_ADDRS = ["a@b.c", "user@example.com", "first.last@example.org", "\"a b\"@example.com", "\"<x>\"@e.org", "-x@o.c", "u@[127.0.0.1]", "a+b@x.y"]
UTF8_ADDRS = ["用户@例え.jp", "üser@example.com", "a@bücher.de"]
MSGS = [b"hello\r\n", b".leading dot\r\n.\r\n..\r\n", b"", b"Subject: x\r\n\r\nbody\r\n", b"caf\xc3\xa9\r\n", b"\xff\xfe binary\r\n",
        b"line\r\n.\r\nMAIL FROM:<evil@x>\r\n", b"bare\nlf\rcr", b"x" * 3000 + b"\r\n"]
FEATURES = ["8BITMIME", "SMTPUTF8", "STARTTLS", "AUTH PLAIN LOGIN", "AUTH XOAUTH2", "SIZE 1000", "PIPELINING", "auth plain", "AUTH=PLAIN",
            # a keyword is the first word of its line: these lines advertise nothing
            "X-NOTE 8BITMIME SMTPUTF8 are not offered here", "HELP 8BITMIME", "X-INFO STARTTLS AUTH PLAIN LOGIN"]

NEG = {
    "greeting": [b"554 no service\r\n", b"421 busy\r\n", b"421-busy\r\n421 later\r\n"],
    "ehlo": [b"550 no\r\n", b"502 not implemented\r\n", b"421 closing\r\n", b"504-a\r\n504 b\r\n"],
    "mail": [b"552 too big\r\n", b"451 try later\r\n", b"452-a\r\n452-b\r\n452 c\r\n", b"550 5.1.0 rejected\r\n", b"553 bad\r\n", b"503 seq\r\n", b"455 x\r\n", b"555 y\r\n"],
    "rcpt": [b"550 no such user\r\n", b"551 not local\r\n", b"552 x\r\n", b"553 x\r\n", b"450 busy\r\n", b"451 x\r\n", b"452 x\r\n", b"503 x\r\n", b"455 x\r\n", b"555 x\r\n",
             b"550-5.1.1 multi\r\n550 line\r\n"],
    "data": [b"503 no rcpt\r\n", b"554 no\r\n", b"451 x\r\n", b"450 mailbox busy\r\n", b"550 x\r\n"],
    "eod": [b"552 too much\r\n", b"554 failed\r\n", b"451 err\r\n", b"452 x\r\n", b"450 x\r\n", b"550 spam\r\n", b"554-a\r\n554-b\r\n554 c\r\n"],
    "quit": [b"500 what\r\n"],
    "noop": [b"421 timeout\r\n", b"500 x\r\n"],
    "auth": [b"535 bad credentials\r\n", b"454 tmp\r\n", b"534 x\r\n", b"500 x\r\n", b"538 enc needed\r\n", b"504 unrecognized\r\n"],
}
MALFORMED = [b"garbage\r\n", b"25 short\r\n", b"250x\r\n", b"250-a\r\n251 b\r\n", b"999 bad code\r\n", b"26a oops\r\n", b"\r\n", b"2\xc3\xa9 x\r\n"]
POS_MULTI = {"mail": b"250-2.1.0\r\n250 ok\r\n", "rcpt": b"250-a\r\n250-b\r\n250 c\r\n", "data": b"354-go\r\n354 ahead\r\n", "eod": b"250-queued\r\n250 as 123\r\n"}


def step(reply, close=False):
    return (reply, close)


def script_field(steps):
    if not steps:
        return "-"
    return ",".join(f"{r.hex() if r else '_'}:{'c' if c else 'k'}" for r, c in steps)


def ehlo_reply(rng, feats):
    lines = ["srv.example"] + feats
    out = b""
    for i, l in enumerate(lines):
        out += b"250" + (b" " if i == len(lines) - 1 else b"-") + l.encode() + b"\r\n"
    return out


def fault(rng, pos):
    """a faulty reaction for dialogue position `pos`: list of (reply, close)"""
    k = rng.randint(0, 5)
    good = {"greeting": b"220 hi\r\n", "ehlo": b"250 ok\r\n", "mail": b"250 ok\r\n", "rcpt": b"250 ok\r\n", "data": b"354 go\r\n",
            "eod": b"250 queued\r\n", "quit": b"221 bye\r\n", "noop": b"250 ok\r\n", "auth": b"235 ok\r\n"}[pos]
    if k == 0:
        return step(rng.choice(NEG[pos]))
    if k == 1:
        return step(rng.choice(NEG[pos]), True)
    if k == 2:
        return step(rng.choice(MALFORMED))
    if k == 3:
        r = rng.choice(NEG[pos] + [good])
        return step(r[:rng.randint(0, len(r) - 1)], True)       # partial line then close
    if k == 4:
        return step(b"", True)                                   # immediate close
    return step(good, True)                                      # close after a good reply


def happy(rng, feats, nrcpt, multi=False):
    """list of (position name, step) for connect + one send + quit"""
    # sometimes a multi-line acceptance, sometimes the bare code (RFC 5321 4.2: the text is optional)
    m = (lambda p, d: POS_MULTI[p] if multi and rng.random() < 0.5 else (d[:3] + b"\r\n" if rng.random() < 0.08 else d))
    s = [("greeting", step(b"220 srv ESMTP\r\n")), ("ehlo", step(ehlo_reply(rng, feats))), ("mail", step(m("mail", b"250 ok\r\n")))]
    for _ in range(nrcpt):
        s.append(("rcpt", step(m("rcpt", b"250 ok\r\n"))))
    s.append(("data", step(m("data", b"354 go\r\n"))))
    s.append(("eod", step(m("eod", b"250 2.0.0 queued\r\n"))))
    s.append(("quit", step(b"221 bye\r\n")))
    return s


def envelope(rng):
    utf8 = rng.random() < 0.25
    pool = ASCII_ADDRS + (UTF8_ADDRS if utf8 else [])
    n = rng.choice([1, 1, 2, 3])
    to = [rng.choice(pool) for _ in range(n)]
    f = rng.choice(pool + ["-"])
    return f, to


def client_case(mode, hello, prog, f, to, msg, mechs, user, pass_, steps):
    return "\t".join(["client", mode, hexs(hello), prog, hexs(f) if f != "-" else "-", hexlist([t.encode() for t in to]), hexs(msg),
                      mechs or "-", hexs(user), hexs(pass_), script_field(steps)])


def send_cases(rng, n, single_faults=True):
    cases = []
    # every dialogue position x every fault kind, for 1..3 recipients (single faults)
    if single_faults:
        for nr in (1, 2, 3):
            base_positions = happy(rng, ["8BITMIME", "SMTPUTF8"], nr)
            for i, (pos, _) in enumerate(base_positions):
                for k in range(8):
                    h = happy(rng, ["8BITMIME", "SMTPUTF8"], nr, multi=(k % 2 == 1))
                    steps = [s for _, s in h]
                    fs = fault(rng, pos)
                    steps = steps[:i] + [fs] + ([step(b"221 bye\r\n")] if not fs[1] else [])
                    to = [rng.choice(ASCII_ADDRS) for _ in range(nr)]
                    f = rng.choice(ASCII_ADDRS + ["-"])
                    mode = "sa"[(i + k) % 2]
                    cases.append(client_case(mode, "client.example", "SQ", f, to, rng.choice(MSGS[:4]), "", "", "", steps))
    # long multi-line acceptances (each line short, 700-1400 octets in all) at every position: a reply is as long as the server
    # makes it, only a single line is limited to 512 octets
    for nr in (1, 2):
        base = happy(rng, ["8BITMIME"], nr)
        for i, (pos, (reply, _)) in enumerate(base):
            for nlines in (12, 24, 70, 130):       # 70 / 130: beyond any 'reasonable' bound a client might put on the number of lines (round 7: C04/m20)
                code = reply[:3]
                long = b"".join(code + (b" " if k == nlines - 1 else b"-") + (b"line %02d of a long but perfectly legal reply text" % k) + b"\r\n" for k in range(nlines))
                steps = [s for _, s in base]
                steps[i] = step(long)
                for mode in "sa":
                    cases.append(client_case(mode, "client.example", "SQ", "a@b.c", ["x@y.z", "p@q.r"][:nr], b"hello\r\n", "", "", "", steps))
    for i in range(n):
        feats = [x for x in FEATURES if rng.random() < 0.45]
        rng.shuffle(feats)
        f, to = envelope(rng)
        msg = rng.choice(MSGS)
        h = happy(rng, feats, len(to), multi=rng.random() < 0.3)
        steps = [s for _, s in h]
        r = rng.random()
        if r < 0.35:
            pass
        elif r < 0.8:
            i0 = rng.randrange(len(h))
            fs = fault(rng, h[i0][0])
            steps = steps[:i0] + [fs] + ([step(b"221 bye\r\n")] if not fs[1] and rng.random() < 0.8 else [])
        else:
            # several faults / random junk tail
            for _ in range(rng.randint(2, 3)):
                i0 = rng.randrange(len(steps))
                steps[i0] = fault(rng, h[min(i0, len(h) - 1)][0])
            cut = next((k for k, s in enumerate(steps) if s[1]), None)
            if cut is not None:
                steps = steps[:cut + 1]
        prog = rng.choice(["S", "S", "SQ", "SQ", "SS", "NS", "SN", "SX"])
        if prog == "SS":
            steps = steps[:-1] + [s for _, s in happy(rng, feats, len(to))[2:]]
        if prog == "NS":
            steps = steps[:2] + [step(b"250 ok\r\n")] + steps[2:]
        if prog == "SN":
            steps = steps[:-1] + [step(b"250 ok\r\n")]
        hello = rng.choice(["client.example", "localhost", "[127.0.0.1]", "x"])
        cases.append(client_case("sa"[i % 2], hello, prog, f, to, msg, "", "", "", steps))
    return cases


import base64 as _b64

USERS = ["user", "", "u\x00ser", "üser", "a b", "x" * 1024, "user@example.com", "u\r\nQUIT", " user ", "user\n", "\tuser"]
PASSES = ["secret", "", "p\x00w", "pässwörd", "x" * 1024, "pa ss\r\nMAIL FROM:<x@y>", " secret", "secret ", "secret\r\n"]
PROMPTS = [b"Username:", b"username:", b"USERNAME", b"User Name", b"user name", b"User Name\x00", b"Password:", b"PASSWORD", b"password",
           b"Password\x00", b"Passcode", b"", b"Username: ", b"user", b"\xff\xfe", b"Pa\xc3\x9fword:"]


def b64(b):
    return _b64.b64encode(b)


def auth_lines(rng):
    """EHLO AUTH advertisement: subsets of mechanisms in any order/case on one or several lines"""
    mechs = ["PLAIN", "LOGIN", "XOAUTH2", "CRAM-MD5", "GSSAPI"]
    lines = []
    for _ in range(rng.choice([0, 1, 1, 1, 2])):
        k = rng.randint(0, 4)
        ms = rng.sample(mechs, k)
        if rng.random() < 0.15:
            ms = [m.lower() for m in ms]
        kw = rng.choice(["AUTH", "AUTH", "AUTH", "auth", "AUTH=PLAIN", "Auth"])
        sep = rng.choice([" ", " ", "  ", "\t"])
        lines.append(kw + (sep + sep.join(ms) if ms else ""))
    return lines


def challenge(rng):
    r = rng.random()
    if r < 0.7:
        return b"334 " + b64(rng.choice(PROMPTS)) + b"\r\n"
    if r < 0.8:
        return b"334 !!!notbase64\r\n"
    if r < 0.85:
        return b"334 " + b64(rng.choice(PROMPTS))[:-1] + b"\r\n"
    if r < 0.9:
        return b"334\r\n"
    if r < 0.95:
        return b"334 \r\n"
    return b"334-" + b64(b"Username:") + b"\r\n334 " + b64(b"Password:") + b"\r\n"


def auth_cases(rng, n):
    cases = []
    prefs_all = ["P", "L", "X", "PL", "LP", "PLX", "XLP", "LX", "XP", "", "PP", "LL"]
    for i in range(n):
        feats = auth_lines(rng) + [x for x in ["8BITMIME", "STARTTLS"] if rng.random() < 0.3]
        rng.shuffle(feats)
        steps = [step(b"220 srv\r\n"), step(ehlo_reply(rng, feats))]
        prefs = rng.choice(prefs_all)
        user, pw = rng.choice(USERS), rng.choice(PASSES)
        r = rng.random()
        if r < 0.3:
            # straightforward: whatever the mechanism, accept
            steps += [step(b"334 " + b64(b"Username:") + b"\r\n"), step(b"334 " + b64(b"Password:") + b"\r\n"), step(b"235 2.7.0 ok\r\n")]
        elif r < 0.45:
            steps += [step(b"235 ok\r\n")]
        elif r < 0.6:
            steps += [step(rng.choice(NEG["auth"]), rng.random() < 0.3)]
        elif r < 0.7:
            steps += [challenge(rng) and step(challenge(rng)) for _ in range(rng.randint(9, 13))] + [step(b"235 ok\r\n")]
        else:
            for _ in range(rng.randint(1, 4)):
                k = rng.random()
                if k < 0.6:
                    steps.append(step(challenge(rng)))
                elif k < 0.75:
                    steps.append(fault(rng, "auth"))
                else:
                    steps.append(step(b"235 ok\r\n"))
        cut = next((k for k, s in enumerate(steps) if s[1]), None)
        if cut is not None:
            steps = steps[:cut + 1]
        prog = rng.choice(["A", "A", "AQ", "AS"])
        if prog == "AS":
            steps += [s for _, s in happy(rng, [], 1)[2:]]
        else:
            steps += [step(b"221 bye\r\n")]
        cases.append(client_case("sa"[i % 2], "client.example", prog, "a@b.c", ["x@y.z"], b"hello\r\n", prefs, user, pw, steps))
    # a server that keeps challenging: 8 .. 14 well-formed LOGIN challenges in a row, then success, a further challenge, or a refusal;
    # the exchange is bounded (10 rounds) and an exchange that does not end in success must not count as authenticated
    for k in range(8, 15):
        for last in (b"235 2.7.0 ok\r\n", b"334 " + b64(b"Username:") + b"\r\n", b"535 5.7.8 no\r\n"):
            for client in "sa":
                for prog in ("A", "AS"):
                    steps = [step(b"220 srv\r\n"), step(b"250-srv\r\n250 AUTH LOGIN\r\n")]
                    steps += [step(b"334 " + b64([b"Username:", b"Password:"][j % 2]) + b"\r\n") for j in range(k)]
                    steps += [step(last)]
                    if prog == "AS":
                        steps += [s for _, s in happy(rng, [], 1)[2:]]
                    else:
                        steps += [step(b"221 bye\r\n")]
                    cases.append(client_case(client, "client.example", prog, "a@b.c", ["x@y.z"], b"hello\r\n", "L", "user", "secret", steps))
    return cases
