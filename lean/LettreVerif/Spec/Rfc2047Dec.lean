import LettreVerif.Model.Base64
import LettreVerif.Spec.HeaderReader
/-!
# S: an RFC 2047 reader of an unstructured field body

After unfolding, tokens are separated by linear white space; a token of the shape
`=?utf-8?b?…?=` with at most 75 characters and complete base64 is an encoded-word; white
space between two adjacent encoded-words is dropped (§6.2); everything else is literal.
-/
namespace LV.Rfc2047Dec
open LV

def lower (b : Byte) : Byte := if 65 ≤ b.toNat ∧ b.toNat ≤ 90 then b + 32 else b

def prefixLc : Bytes := [61, 63, 117, 116, 102, 45, 56, 63, 98, 63]

/-- an encoded-word of at most 75 characters: its decoded octets -/
def encWord? (t : Bytes) : Option Bytes :=
  if t.length ≤ 75 && t.length ≥ 12 && (t.take 10).map lower == prefixLc && t.drop (t.length - 2) == [63, 61] then
    Base64.dec ((t.drop 10).take (t.length - 12))
  else none

inductive Tok | ws (b : Bytes) | word (b : Bytes) deriving Repr, DecidableEq

def isWs (b : Byte) : Bool := b == 32 || b == 9

/-- maximal runs of white space / of other octets -/
def tokens : Bytes → Bytes → Bool → List Tok
  | [], acc, inWs => if acc.isEmpty then [] else [if inWs then .ws acc.reverse else .word acc.reverse]
  | b :: r, acc, inWs =>
    if isWs b == inWs || acc.isEmpty then tokens r (b :: acc) (isWs b)
    else (if inWs then Tok.ws acc.reverse else Tok.word acc.reverse) :: tokens r [b] (isWs b)

def decToks : List Tok → Bool → Bytes
  | [], _ => []
  | .word w :: r, _ =>
    match encWord? w with
    | some d => d ++ decToks r true
    | none => w ++ decToks r false
  | .ws s :: (.word w :: r), prevEnc =>
    if prevEnc && (encWord? w).isSome then decToks (.word w :: r) prevEnc else s ++ decToks (.word w :: r) false
  | .ws s :: r, _ => s ++ decToks r false

/-- what a reader shows for the encoded field body `v` -/
def decode (v : Bytes) : Bytes := decToks (tokens (HeaderReader.unfold v) [] false) false

end LV.Rfc2047Dec
