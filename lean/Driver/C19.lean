import Driver.Util
import LettreVerif.Spec.Cost
namespace LV.Driver.C19
open LV LV.Driver

/-- `np entry input | out` / `npdbg entry input | out` -/
def npOp (build : String) : List String → String
  | [entry, _input, out] =>
    if out.startsWith "PANIC" then
      let msg := match ofHex (out.drop 6).toString with
        | some b => String.fromUTF8! (ByteArray.mk b.toArray) |>.map (fun c => if c.isAlphanum then c else '-')
        | none => ""
      propfail s!"panic:{build}:{entry}:{(msg.take 48).toString}"
    else if out.startsWith "CRASH" then propfail s!"crash:{build}:{entry}:{out}"
    else if out == "HANG" then propfail s!"no-result-after-8s:{build}:{entry}"
    else if out == "ok" || out == "err" || out == "skip" then "ok"
    else "BADLINE"
  | l => if l.getLast? == some "PANIC" || l.getLast? == some "CRASH" then propfail "crash-of-the-harness-process" else "BADLINE"

/-- `scale entry unit n0 max | n:res:µs,…` -/
def scaleOp : List String → String
  | [entry, _unit, _n0, _max, series] =>
    let pts := (series.splitOn ",").filterMap fun p =>
      match p.splitOn ":" with
      | [n, r, t] => match n.toNat?, t.toNat? with
        | some n, some t => some (n, r, t)
        | _, _ => none
      | _ => none
    match pts.find? (fun p => p.2.1 == "PANIC") with
    | some p => propfail s!"panic:opt:{entry}:at-size-{p.1}"
    | none =>
      if Cost.superLinear (pts.map fun p => (p.1, p.2.2)) then
        propfail s!"super-linear-time:{entry}:{series}"
      else "ok"
  | l => if l.getLast? == some "PANIC" || l.getLast? == some "CRASH" then propfail "crash-of-the-harness-process" else "BADLINE"

end LV.Driver.C19
