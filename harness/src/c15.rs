use crate::util::*;
use lettre::transport::smtp::extension::{Extension, ServerInfo};
use lettre::transport::smtp::authentication::Mechanism;
use lettre::transport::smtp::response::{Category, Code, Detail, Response, Severity};
use std::io::Write;
use std::net::TcpListener;

pub fn code_str(c: Code) -> String {
    format!("{}", c)
}

pub fn lines_hex(r: &Response) -> String {
    let v: Vec<Vec<u8>> = r.message().map(|l| l.as_bytes().to_vec()).collect();
    hex_list(&v)
}

/// `parse <s>` → outcome, code, lines, unconsumed rest; plus what `from_str` says
pub fn parse(args: &[&str]) -> Option<Vec<String>> {
    let s = unhex_str(args.first()?)?;
    let (kind, ok) = lettre::verif_hooks::parse_response_outcome(&s);
    let fs = match s.parse::<Response>() {
        Ok(_) => "ok",
        Err(e) if e.is_response() => "err",
        Err(_) => "otherkind",
    };
    Some(match ok {
        Some((r, rest)) => vec![
            kind.to_string(),
            code_str(r.code()),
            lines_hex(&r),
            hex(&s.as_bytes()[s.len() - rest..]),
            fs.to_string(),
        ],
        None => vec![kind.to_string(), "-".into(), "-".into(), "-".into(), fs.to_string()],
    })
}

fn describe(r: &Result<Response, lettre::transport::smtp::Error>) -> String {
    match r {
        Ok(r) => format!("R+:{}:{}", code_str(r.code()), lines_hex(r)),
        Err(e) => {
            if let Some(c) = e.status() {
                let k = if e.is_transient() {
                    "R4"
                } else if e.is_permanent() {
                    "R5"
                } else {
                    "R?"
                };
                // the error's source is the concatenated message lines
                let txt = std::error::Error::source(e)
                    .map(|s| s.to_string())
                    .unwrap_or_default();
                format!("{}:{}:{}", k, code_str(c), hex(txt.as_bytes()))
            } else {
                "B".to_string()
            }
        }
    }
}

/// `rr <mode s|a> <stream> <cuts>`: a loopback peer sends greeting + EHLO reply, then `stream`
/// cut at the given offsets (one write per piece, flushed, TCP_NODELAY), then closes. The client
/// connects and calls `read_response` until the first malformed/missing reply.
pub fn rr(args: &[&str]) -> Option<Vec<String>> {
    let mode = *args.first()?;
    let stream = unhex(args.get(1)?)?;
    let cuts: Vec<usize> = if *args.get(2)? == "-" {
        vec![]
    } else {
        args[2].split(',').map(|x| x.parse().unwrap()).collect()
    };
    // `h`: the peer keeps the connection open for 400 ms after the last piece (a malformed reply must be
    // reported at once, not when the peer finally closes)
    let hold = args.get(3).copied() == Some("h");
    let listener = TcpListener::bind((crate::util::lo(), 0)).ok()?;
    let port = listener.local_addr().ok()?.port();
    let stream2 = stream.clone();
    let server = std::thread::spawn(move || {
        let (mut s, _) = listener.accept().unwrap();
        s.set_nodelay(true).ok();
        s.write_all(b"220 g\r\n250 e\r\n").unwrap();
        // wait for the EHLO line so that the pieces arrive after the handshake
        let mut got = Vec::new();
        let mut byte = [0u8; 1];
        use std::io::Read;
        while !got.ends_with(b"\r\n") {
            if s.read(&mut byte).unwrap_or(0) == 0 {
                return;
            }
            got.push(byte[0]);
        }
        let mut prev = 0;
        for c in cuts.iter().copied().chain(std::iter::once(stream2.len())) {
            let c = c.min(stream2.len());
            if c > prev {
                if s.write_all(&stream2[prev..c]).is_err() {
                    return;
                }
                s.flush().ok();
                if cuts.len() < 40 {
                    std::thread::sleep(std::time::Duration::from_micros(300));
                }
                prev = c;
            }
        }
        if hold {
            std::thread::sleep(std::time::Duration::from_millis(400));
        }
        // close
    });
    let hello = lettre::transport::smtp::extension::ClientId::Domain("h".into());
    let mut results = Vec::new();
    let max = 64;
    let mut last_ms = 0u128;
    match mode {
        "s" => {
            let mut c = lettre::transport::smtp::client::SmtpConnection::connect(
                (crate::util::lo(), port),
                Some(std::time::Duration::from_secs(5)),
                &hello,
                None,
                None,
            )
            .ok()?;
            for _ in 0..max {
                let t0 = std::time::Instant::now();
                let r = c.read_response();
                last_ms = t0.elapsed().as_millis();
                let d = describe(&r);
                let stop = d == "B";
                results.push(d);
                if stop {
                    break;
                }
            }
        }
        "a" => {
            let rt = tokio::runtime::Builder::new_current_thread()
                .enable_all()
                .build()
                .ok()?;
            rt.block_on(async {
                let mut c =
                    lettre::transport::smtp::client::AsyncSmtpConnection::connect_tokio1(
                        (crate::util::lo(), port),
                        Some(std::time::Duration::from_secs(5)),
                        &hello,
                        None,
                        None,
                    )
                    .await
                    .ok()?;
                for _ in 0..max {
                    let t0 = std::time::Instant::now();
                    let r = match tokio::time::timeout(std::time::Duration::from_secs(3), c.read_response()).await {
                        Ok(r) => r,
                        Err(_) => {
                            results.push("HANG".into());
                            break;
                        }
                    };
                    last_ms = t0.elapsed().as_millis();
                    let d = describe(&r);
                    let stop = d == "B";
                    results.push(d);
                    if stop {
                        break;
                    }
                }
                Some(())
            })?;
        }
        _ => return None,
    }
    server.join().ok()?;
    if hold {
        return Some(vec![results.join(";"), format!("late={}", (last_ms >= 250) as u8)]);
    }
    Some(vec![results.join(";")])
}

/// `sinfo <lines>` → `ServerInfo::from_response` on a 250 reply with these lines
pub fn sinfo(args: &[&str]) -> Option<Vec<String>> {
    let lines = unhex_list(args.first()?)?;
    let lines: Option<Vec<String>> = lines.into_iter().map(|l| String::from_utf8(l).ok()).collect();
    let r = Response::new(
        Code::new(Severity::PositiveCompletion, Category::MailSystem, Detail::Zero),
        lines?,
    );
    Some(match ServerInfo::from_response(&r) {
        Err(_) => vec!["noname".into()],
        Ok(i) => {
            let bits: String = [
                i.supports_feature(Extension::EightBitMime),
                i.supports_feature(Extension::SmtpUtfEight),
                i.supports_feature(Extension::StartTls),
                i.supports_auth_mechanism(Mechanism::Plain),
                i.supports_auth_mechanism(Mechanism::Login),
                i.supports_auth_mechanism(Mechanism::Xoauth2),
            ]
            .iter()
            .map(|b| if *b { '1' } else { '0' })
            .collect();
            // `get_auth_mechanism` for six preference lists
            let prefs: [&[Mechanism]; 6] = [
                &[Mechanism::Plain, Mechanism::Login, Mechanism::Xoauth2],
                &[Mechanism::Login, Mechanism::Plain, Mechanism::Xoauth2],
                &[Mechanism::Xoauth2, Mechanism::Login, Mechanism::Plain],
                &[Mechanism::Xoauth2],
                &[Mechanism::Login],
                &[],
            ];
            let picks: String = prefs
                .iter()
                .map(|p| match i.get_auth_mechanism(p) {
                    Some(Mechanism::Plain) => 'P',
                    Some(Mechanism::Login) => 'L',
                    Some(Mechanism::Xoauth2) => 'X',
                    None => '-',
                })
                .collect();
            vec![format!("ok:{}:{}:{}", hex(i.name().as_bytes()), bits, picks)]
        }
    })
}


/// `racc <s>`: the accessors of a parsed reply: is_positive, has_code(own code), has_code(another code), the code as a
/// number, first_word, first_line
pub fn racc(args: &[&str]) -> Option<Vec<String>> {
    let s = unhex_str(args.first()?)?;
    Some(match s.parse::<Response>() {
        Err(_) => vec!["err".into()],
        Ok(r) => {
            let n: u16 = r.code().into();
            let other = if n == 250 { 251 } else { 250 };
            vec![format!(
                "ok:{}:{}{}{}:{}:{}:{}",
                code_str(r.code()),
                r.is_positive() as u8,
                r.has_code(n) as u8,
                r.has_code(other) as u8,
                n,
                r.first_word().map(|w| hex(w.as_bytes())).unwrap_or("none".into()),
                r.first_line().map(|w| hex(w.as_bytes())).unwrap_or("none".into()),
            )]
        }
    })
}
