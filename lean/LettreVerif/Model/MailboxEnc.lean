import LettreVerif.Model.HeaderEnc
/-!
# M: mailbox headers on the wire (`Mailbox::encode`, `Mailboxes::encode` in src/message/mailbox/types.rs,
`mailbox_header!` / `mailboxes_header!` display in src/message/header/mailbox.rs, and
email-encoding 0.4.0 `quoted_string::encode`, `utils::write_escaped`)

Strings are the UTF-8 octets of Rust `str`s.  The writer is `HeaderEnc.W`.
-/
namespace LV.MailboxEnc
open LV LV.HeaderEnc

def isAlnum (b : Byte) : Bool :=
  (48 ≤ b.toNat && b.toNat ≤ 57) || (65 ≤ b.toNat && b.toNat ≤ 90) || (97 ≤ b.toNat && b.toNat ≤ 122)

/-- `-`, `_`, `.` -/
def isPlus (b : Byte) : Bool := b == 45 || b == 95 || b == 46

inductive Strategy | plain | quoted | quotedEscaped | rfc2047 deriving Repr, DecidableEq

/-- the three scanning loops of `quoted_string::encode`, which continue where the previous one stopped: the strategy is
    the smallest class that contains every octet -/
def strategy (v : Bytes) : Strategy :=
  let r1 := v.dropWhile fun b => isAlnum b || isPlus b
  if r1.isEmpty then .plain else
  let r2 := r1.dropWhile fun b => isAlnum b || b == 32 || isPlus b
  if r2.isEmpty then .quoted else
  let r3 := r2.dropWhile fun b => isAlnum b || b == 92 || b == 34 || b == 32 || isPlus b
  if r3.isEmpty then .quotedEscaped else .rfc2047

/-- `EmailWriter::write_char` for a character that is not a space -/
def writeChar (w : W) (c : Byte) : W := w.writeStr [c]

/-- `utils::write_escaped` into the folding writer: one call per octet -/
def writeEscaped (w : W) : Bytes → W
  | [] => w
  | b :: bs =>
    let w := if b == 92 then foldWrite w [92, 92] else if b == 34 then foldWrite w [92, 34] else foldWrite w [b]
    writeEscaped w bs

/-- `quoted_string::encode` -/
def quotedStringEncode (w : W) (v : Bytes) : W :=
  match strategy v with
  | .plain => w.writeStr v
  | .quoted => writeChar (foldWrite (writeChar w 34) v) 34
  | .quotedEscaped => writeChar (writeEscaped (writeChar w 34) v) 34
  | .rfc2047 => rfc2047 (2 * v.length + 4) w v false

/-- `write_unbreakable` (`fix:` commit 4d26e13): the word moves to a new line when it does not
    fit, a space precedes it, and the line is not empty -/
def writeUnbreakable (w : W) (word : Bytes) : W :=
  let w := if w.spaces > 0 && w.lineLen > 0 && w.lineLen + w.spaces + word.length > maxLineLen then w.newLine else w
  w.writeStr word

/-- `Mailbox::encode` -/
def mailboxEncode (w : W) (name : Option Bytes) (email : Bytes) : W :=
  match name with
  | some n => writeUnbreakable (quotedStringEncode w n).space ([60] ++ email ++ [62])
  | none => writeUnbreakable w email

/-- `Mailboxes::encode` -/
def mailboxesEncode (w : W) : List (Option Bytes × Bytes) → Bool → W
  | [], _ => w
  | (n, e) :: ms, first =>
    let w := if first then w else (writeChar w 44).space
    mailboxesEncode (mailboxEncode w n e) ms false

/-- the encoded value of a mailbox header with this name length: `display().encoded_value` -/
def headerValue (nameLen : Nat) (ms : List (Option Bytes × Bytes)) : Bytes :=
  (mailboxesEncode ⟨[], nameLen + 2, 0, false⟩ ms true).flushSpaces.bytes

end LV.MailboxEnc
