//! tokio variant of `sched` (see sched.rs): senders, shutdown callers, the maintenance worker and
//! the spawned recycle tasks are tokio tasks; a task waiting for its grant parks its worker
//! thread through `block_in_place`, so the other tasks keep running.
use crate::sched::*;
use lettre::address::Envelope;
use lettre::transport::smtp::PoolConfig;
use lettre::{AsyncSmtpTransport, AsyncTransport, Tokio1Executor};
use std::collections::HashMap;
use std::sync::{Arc, Mutex};
use std::time::Duration;

pub fn run_async(ctl: &Arc<Controller>, plan: &PlanTuple, port: u16, active: &std::sync::atomic::AtomicUsize) -> Option<(String, String, usize, bool)> {
    let (max_size, min_idle, idle_ms, senders, sends, schedule, timeout_ms) = plan.clone();
    let nshut = schedule.iter().filter(|t| t.starts_with('x')).map(|t| t[1..].parse::<usize>().unwrap_or(0) + 1).max().unwrap_or(0);
    let rt = tokio::runtime::Builder::new_multi_thread().worker_threads(senders + nshut + 4).enable_all().build().ok()?;
    ctl_register(ctl, "m");
    let results: Arc<Mutex<HashMap<String, Vec<String>>>> = Arc::new(Mutex::new(HashMap::new()));
    let t: AsyncSmtpTransport<Tokio1Executor> = {
        let _g = rt.enter();
        AsyncSmtpTransport::<Tokio1Executor>::builder_dangerous(crate::util::lo())
            .port(port)
            .timeout(Some(Duration::from_millis(timeout_ms)))
            .pool_config(PoolConfig::new().max_size(max_size).min_idle(min_idle).idle_timeout(Duration::from_millis(idle_ms)))
            .build()
    };
    let mut hs = vec![];
    for i in 0..senders {
        let name = format!("s{i}");
        ctl_register(ctl, &name);
        let (t, ctl, results) = (t.clone(), ctl.clone(), results.clone());
        hs.push(rt.spawn(async move {
            ctl_register_task(&ctl, &name);
            for k in 0..sends {
                let env = Envelope::new(Some(format!("s{i}@example.org").parse().unwrap()), vec!["to@example.org".parse().unwrap()]).unwrap();
                let r = t.send_raw(&env, format!(".s{i}.{k}\r\r\n{}", crate::sched::message_tail()).as_bytes()).await;
                results.lock().unwrap().entry(name.clone()).or_default().push(describe_pub(&r));
            }
            drop(t);
            ctl_done(&ctl, &name);
        }));
    }
    for j in 0..nshut {
        let name = format!("x{j}");
        ctl_register(ctl, &name);
        let (t, ctl) = (t.clone(), ctl.clone());
        hs.push(rt.spawn(async move {
            ctl_register_task(&ctl, &name);
            t.shutdown().await;
            drop(t);
            ctl_done(&ctl, &name);
        }));
    }
    let complete = drive_tuple(ctl, plan);
    if complete {
        rt.block_on(async {
            for h in hs {
                let _ = tokio::time::timeout(Duration::from_secs(5), h).await;
            }
        });
    }
    let idle = idle_of_pub(&format!("{t:?}"));
    ctl_close(ctl);
    {
        let _g = rt.enter();
        drop(t);
    }
    // Pool::drop closes the parked connections in a spawned task
    let t0 = std::time::Instant::now();
    std::thread::sleep(Duration::from_millis(5));
    while complete && active.load(std::sync::atomic::Ordering::SeqCst) > 0 && t0.elapsed() < Duration::from_millis(8000) {
        std::thread::sleep(Duration::from_millis(2));
    }
    rt.shutdown_timeout(Duration::from_millis(300));
    let res = results.lock().unwrap();
    let mut names: Vec<&String> = res.keys().collect();
    names.sort();
    let results = names.iter().map(|n| format!("{n}:{}", res[*n].join("."))).collect::<Vec<_>>().join(";");
    Some((if results.is_empty() { "-".into() } else { results }, idle, 0, complete))
}
