import LettreVerif.Proofs.PoolLts
/-!
# C07 — Concurrent sends through one pooled transport stay isolated and exactly-once

Model: `Model/PoolLts.lean`, the sync and tokio pools as one transition system over their
critical sections, any number of senders, any peer behaviour, any order of transitions
(`run s es` for an arbitrary list of events).  The correspondence check forces such orders on
the real pools and replays them through `step`.

Proved for every schedule: a connection is in at most one place at any time (parked, held by
one sender, waiting in one recycle task, or held by the maintenance worker) — which is what
makes one transition of the model (lock + the lock-free work after it) atomic; the number of
messages the peer commits equals the number of successful sends; every connection id a thread
or the pool holds denotes an existing connection.  That transactions are whole and carry one
sender's identity from MAIL to the committed content is the peer-side oracle on every replayed
schedule (in the model a transaction is one atomic step of `transact`).
-/
namespace LV.C07
open LV.PoolLts

/-- **Exactly once, in numbers.** Under every interleaving of check-outs, returns, maintenance
    passes and shutdowns, for any number of senders, any pool configuration and any peer
    behaviour: the messages committed at the peer are as many as the sends that reported
    success. -/
theorem commits_equal_successes (isAsync : Bool) (maxSize minIdle sends nSenders : Nat)
    (plans : List Plan) (es : List Ev) (s : St)
    (hr : run (init isAsync maxSize minIdle sends nSenders plans) es = some s) :
    totalCommits s = totalOk s :=
  (valid_count_run es _ s (valid_init ..) (count_init ..) hr).2

/-- **One user at a time.** Under every interleaving, every connection is in at most one place:
    parked in the idle set, held by exactly one sender, waiting in exactly one (tokio) recycle
    task, or held by the maintenance worker — never two of these, never twice in one. -/
theorem one_place_at_a_time (isAsync : Bool) (maxSize minIdle sends nSenders : Nat)
    (plans : List Plan) (es : List Ev) (s : St)
    (hr : run (init isAsync maxSize minIdle sends nSenders plans) es = some s) (c : Nat) :
    occ s c ≤ 1 :=
  (valid_excl_run es _ s (valid_init ..) (excl_init isAsync maxSize minIdle sends nSenders plans) hr).2 c

/-- One transition: a transaction adds exactly one commit to the connection it runs on iff it
    reports success (and leaves every other connection alone). -/
theorem transaction_commits_iff_ok (k : Conn) (i m : Nat) :
    commitsOn (transact k i m).1 = commitsOn k + (if (transact k i m).2 = .ok then 1 else 0) :=
  commitsOn_transact k i m

/-- Every connection id held anywhere (parked, in use, being returned, held by the worker) is the
    id of a connection that was opened: no transition invents or loses track of a connection. -/
theorem ids_valid (isAsync : Bool) (maxSize minIdle sends nSenders : Nat)
    (plans : List Plan) (es : List Ev) (s : St)
    (hr : run (init isAsync maxSize minIdle sends nSenders plans) es = some s) : Valid s :=
  (valid_count_run es _ s (valid_init ..) (count_init ..) hr).1

/-! Non-vacuity: two senders interleave on a pool of size 1 (check-out, check-out, return, return). -/
example : (run (init false 1 0 1 2 []) [.maintScan, .connectionLock 0, .connectionLock 1, .recycleLock 0, .recycleLock 1]).isSome = true := by
  decide

end LV.C07
