import LettreVerif.Props.C05
#print axioms LV.C05.send_outcomes
#print axioms LV.C05.ok_is_final_positive_reply
#print axioms LV.C05.failed_send_shuts
#print axioms LV.C05.error_carries_code_and_text
