"""C09 — Shutdown closes every connection and is final, under any interleaving."""
from tools import schedgen as sg
from tools.props import c07

LEVEL = "proof"
JOBS = 16
RETRY_TIMING = True
CORRESPONDENCE = c07.CORRESPONDENCE
RULE = ("sched: one or two shutdown calls (threads / tasks x0, x1) inserted at every position of every order of the critical sections of "
        "1..2 senders x 1..2 sends and of 3 senders x 1 send (sampled), with 0..3 connections parked beforehand, maintenance passes before, "
        "between and after, peer faults; shutdown of a pool some of whose parked connections the peer has closed (every subset of 2 and 3); drop of the last handle with parked connections and a sleeping maintenance worker. Checked on the "
        "observations: after a shutdown the Debug output says SHUT DOWN, every connection ever opened ends closed (QUIT + close for the "
        "ones parked or in use, the peer's own close otherwise), no thread named lettre-connection-pool and no open socket is left after "
        "the drop, the schedule runs to completion (nothing blocks); against the model: a send whose check-out comes after the shutdown "
        "fails with the shut-down error and opens no connection, a connection in use at that moment is closed when its send finishes. "
        "Non-trivial = the shutdown falls between a check-out and the matching return; distinct = distinct case lines.")
TRUSTED_BASE = c07.TRUSTED_BASE + ["thread census through /proc/self/task/*/comm; socket census = the peer's handler threads having seen the close"]
ASSUMPTIONS = c07.ASSUMPTIONS
EXHAUSTIVE_PARTS = ["one shutdown at every position of every order of 2x1 sends (sync and tokio), pools with 0 and 2 parked connections"]


def insert_all(seq, tok):
    return [seq[:i] + (tok,) + seq[i:] for i in range(len(seq) + 1)]


def gen(tier, rng):
    cases = []
    for kind in "sa":
        for (senders, sends) in [(1, 1), (1, 2), (2, 1)]:
            perms = sg.multiset_perms(sg.sender_tokens(kind, senders, sends))
            for pre, mx in [(0, 1), (2, 2)]:
                for p in perms:
                    for q in insert_all(tuple(p), "x0"):
                        cases.append(sg.line(kind, mx, pre, 60000, senders, sends, [], sg.prefill(pre) + list(q)))
    n = {"quick": 500, "search": 2500, "thorough": 10000}[tier]
    for _ in range(n):
        kind = rng.choice("sa")
        senders, sends = rng.choice([(2, 2), (3, 1), (2, 1), (3, 2), (1, 3)])
        mx = rng.choice([1, 2, 3])
        pre = rng.choice([0, 1, 2, 3])
        extra = ["x0"] + (["x1"] if rng.random() < 0.4 else []) + ["m"] * rng.choice([0, 1, 2, 3])
        faults = sg.random_faults(rng, 8, 0.3, kind) if rng.random() < 0.3 else []
        sched = sg.random_schedule(rng, kind, senders, sends, extra)
        if rng.random() < 0.6:
            sched = sg.prefill(pre) + sched
        cases.append(sg.line(kind, mx, pre, 60000, senders, sends, faults, sched))
    # drop with idle connections and a sleeping worker, no shutdown at all
    for kind in "sa":
        for pre in range(4):
            ret = ["s0"] if kind == "s" else ["r0"]
            cases.append(sg.line(kind, 3, pre, 60000, 1, 1, [], sg.prefill(pre) + ["m", "s0"] + ret))
            cases.append(sg.line(kind, 3, pre, 60000, 0, 0, [], sg.prefill(pre)))
    # some of the parked connections were closed by the peer in the meantime: each of the others still gets its QUIT
    import itertools
    for kind in "sa":
        for pre in (2, 3):
            for r in range(1, pre):
                for dead in itertools.combinations(range(pre), r):
                    faults = [f"{c}:d0" for c in dead]
                    cases.append(sg.line(kind, 3, pre, 60000, 1, 1, faults, sg.prefill(pre) + ["x0"]))
                    cases.append(sg.line(kind, 3, pre, 60000, 1, 1, faults, sg.prefill(pre) + ["x0", "s0"]))
    # parked connections older than the idle timeout that the maintenance worker has not reaped yet: shutdown closes them like the
    # others (QUIT and close)
    for kind in "sa":
        for pre in (1, 2, 3):
            cases.append(sg.line(kind, 3, pre, 300, 1, 1, [], sg.prefill(pre) + ["W", "x0"]))
            cases.append(sg.line(kind, 3, pre, 300, 1, 1, [], sg.prefill(pre) + ["W", "x0", "m"]))
            ret = ["s0"] if kind == "s" else ["r0"]
            cases.append(sg.line(kind, 3, pre, 300, 1, 1, [], sg.prefill(pre) + ["s0"] + ret + ["W", "x0"]))
    # the moment shutdown returns: every idle connection already has its QUIT (the peer's log is read right then; tokio on a
    # current-thread runtime), and a connection being closed towards a peer that answers QUIT 2 s late delays neither a second
    # shutdown nor a send
    for kind in "sa":
        for k in range(0, 4):
            cases.append(f"shut\tatreturn\t{kind}\t{k}")
        cases.append(f"shut\tslowquit\t{kind}")
        # ... and a connection being set up (the peer greets after 1.5 s) does not delay shutdown either
        cases.append(f"shut\tslowconnect\t{kind}")
    return cases


def timing_dependent(case):
    # real threads against a real peer: a disagreement is re-run alone before it counts
    return True


def nontrivial(case):
    if case.startswith("shut"):
        return True
    toks = case.split("\t")[8].split(",")
    if "x0" not in toks:
        return False
    i = toks.index("x0")
    before = [t for t in toks[:i] if t.startswith("s")]
    return len(before) % 2 == 1 or case.split("\t")[1] == "a"


def shrinkable(case):
    return []


def distribution(cases):
    shut = [c for c in cases if c.startswith("shut")]
    cases = [c for c in cases if not c.startswith("shut")]
    d = c07.distribution(cases)
    d["at_shutdown_return"] = len(shut)
    d["two_shutdowns"] = sum("x1" in c.split("\t")[8].split(",") for c in cases)
    d["no_shutdown_drop_only"] = sum("x0" not in c.split("\t")[8].split(",") for c in cases)
    return d


FINDING_CLASSES = {}
