import Driver.Client
import LettreVerif.Model.Transport
namespace LV.Driver.PoolOp
open LV LV.Response LV.Client LV.Transport LV.Driver LV.Driver.ClientOp

structure SendObs where
  result : String
  timeoutFlag : String
  elapsed : Nat

def parseObs (s : String) : Option SendObs :=
  match s.splitOn "@" with
  | [r, t, e] => e.toNat?.map fun n => ⟨r, t, n⟩
  | _ => none

/-- run `n` sends on the model; per send: result and number of reads that waited -/
def runSends (p : Pool) (f : Option Bytes) (to : List Bytes) (msg : Bytes) : Nat → List (String × Nat) → Pool × List (String × Nat)
  | 0, acc => (p, acc.reverse)
  | n + 1, acc =>
    let before := p.totalBlocked
    let (p', r) := p.sendRaw f to msg
    runSends p' f to msg n ((showRes r, p'.totalBlocked - before) :: acc)

def stripQuit (l : List Bytes) : List Bytes := if l.getLast? == some quitLine then l.dropLast else l

/-- `tconn <client> <script> | true|false|err <units>`: `test_connection()` = connect (greeting, EHLO), then one NOOP.
    It fails when the connection cannot be set up, answers `true` exactly when the peer answers the NOOP positively, and
    sends nothing else (a QUIT at most). Scripts of complete replies only. -/
def tconnOp : List String → String
  | [_client, scriptS, res, unitsS] =>
    if res == "PANIC" then propfail "panic" else
    match parseScript scriptS, hexList unitsS with
    | some sc, some units =>
      let pos (st : Option Step) : Bool := match st.bind stepReply with
        | some r => r.code.1 == 2 || r.code.1 == 3   -- `Response::is_positive`: a 3yz reply to NOOP is outside the claim, and counts as positive in the code
        | none => false
      let closes (st : Option Step) : Bool := (st.map (·.close)).getD true
      let greetOk := pos sc.head? && !closes sc.head?
      let ehloOk := greetOk && pos (sc.drop 1).head? && !closes (sc.drop 1).head?
      let exp := if !ehloOk then "err" else if pos (sc.drop 2).head? then "true" else "false"
      let ehlo := Client.ehloLine (str "c.example")
      let us := if units.getLast? == some Client.quitLine then units.dropLast else units
      let expUnits : List Bytes := if !greetOk then [] else if !ehloOk then [ehlo] else [ehlo, Client.noopLine]
      if res != exp then propfail s!"test_connection-says-{res}-expected-{exp}"
      else if us != expUnits && !(us.isEmpty && !greetOk) then propfail "test_connection-sent-something-else"
      else "ok"
    | _, _ => "BADLINE"
  | l => if l.contains "PANIC" then propfail "panic" else "BADLINE"

/-- `pool <client> <T> <max_size> <stall> <nsends> <from> <to> <msg> <scripts> | <results> <units>` -/
def poolOp : List String → String
  | [client, tms, maxSize, stall, nsends, from_, to, msg, scripts, results, units] =>
    if results == "PANIC" then propfail "panic" else
    match tms.toNat?, maxSize.toNat?, nsends.toNat?, hexList to, ofHex msg,
          (scripts.splitOn "|").mapM parseScript, (results.splitOn ";").mapM parseObs with
    | some t, some ms, some n, some to, some msg, some scs, some obs =>
      let f : Option Bytes := if from_ == "-" then none else ofHex from_
      let p0 : Pool := { conns := [], idle := [], scripts := scs, maxSize := ms, hello := str "c.example", stallAtEnd := stall == "1" }
      let (p, model) := runSends p0 f to msg n []
      let p := p.drop
      -- C20 oracle on the real run: a send that had to wait must fail within a small multiple
      -- of T with an error that says it is a timeout; a send that did not wait is not slowed down
      let timing : Option String := (model.zip obs).findSome? fun ((_, waits), o) =>
        if waits > 0 then
          if o.result == "HANG" then some "send-blocked-far-beyond-the-timeout"
          else if o.elapsed > (waits + 2) * t + 1500 then some "send-returned-late"
          else if !o.result.startsWith "ok" && o.timeoutFlag == "n" then
            some "timeout-error-does-not-identify-itself-as-timeout"
          else none
        else if o.result == "HANG" then some "send-blocked-without-a-silent-peer" else none
      match timing with
      | some e => propfail e
      | none =>
        let mres := model.map (·.1)
        let ires := obs.map (·.result)
        let munits := p.conns.map fun c => stripQuit c.sent.reverse
        let iunits := if units == "none" then some [] else (units.splitOn "|").mapM fun u => (hexList u).map stripQuit
        let _ := client
        if mres != ires then s!"MISMATCH results model={";".intercalate mres}"
        else if iunits != some munits then s!"MISMATCH units model={"|".intercalate (munits.map hexListStr)}"
        else "ok"
    | _, _, _, _, _, _, _ => "BADLINE"
  | l => if l.getLast? == some "PANIC" then propfail "panic" else "BADLINE"

/-- `wstall <client> <T ms> <MiB> | result@timeoutflag@elapsed`: a send blocked in a write (the peer stopped reading)
    fails with an error that says it is a timeout, within a small multiple of T -/
def wstallOp : List String → String
  | [_client, tms, _mib, res] =>
    if res == "PANIC" then propfail "panic" else
    match tms.toNat?, res.splitOn "@" with
    | some t, [r, tf, e] =>
      match e.toNat? with
      | some el =>
        if r == "setup" then propfail "connection-could-not-be-set-up"
        else if r == "HANG" then propfail "send-blocked-far-beyond-the-timeout"
        else if r.startsWith "ok" then propfail "send-succeeded-although-the-peer-never-read-the-message"
        else if el > 4 * t + 1500 then propfail "send-returned-late"
        else if tf != "t" then propfail "timeout-error-does-not-identify-itself-as-timeout"
        else "ok"
      | none => "BADLINE"
    | _, _ => "BADLINE"
  | l => if l.getLast? == some "PANIC" then propfail "panic" else "BADLINE"

/-- `cstall <client> <T ms> <-> | result@is_timeout@elapsed`: the peer never completes the TCP handshake -/
def cstallOp : List String → String
  | [_client, tms, _, res] =>
    if res == "PANIC" then propfail "panic" else
    match tms.toNat?, res.splitOn "@" with
    | some t, [r, tf, e] =>
      match e.toNat? with
      | some el =>
        if r == "setup" then "ok skipped:accept-queue-could-not-be-filled"
        else if r == "HANG" then propfail "connect-blocked-far-beyond-the-timeout"
        else if r.startsWith "ok" then propfail "send-succeeded-without-a-connection"
        else if el > 4 * t + 1500 then propfail "connect-returned-late"
        else if tf != "t" then propfail "timeout-error-does-not-identify-itself-as-timeout"
        else "ok"
      | none => "BADLINE"
    | _, _ => "BADLINE"
  | l => if l.getLast? == some "PANIC" then propfail "panic" else "BADLINE"

/-- `tstall <client s|a|c> <T ms> <mode w|r> <at> | result@is_timeout@elapsed[;…]`: the peer goes silent around the TLS
    layer (no answer to the ClientHello, to STARTTLS, or to a command inside TLS). The stalled send fails within a small
    multiple of T with an error that says it is a timeout; the next send (a new connection, served to the end) succeeds. -/
def tstallOp : List String → String
  | [client, tms, _mode, _at, res] =>
    if res == "PANIC" then propfail "panic" else
    match tms.toNat?, (res.splitOn ";").mapM parseObs with
    | some t, some (o :: rest) =>
      if o.result.startsWith "setup" then propfail s!"connection-could-not-be-set-up:{o.result}"
      else if o.result == "HANG" then propfail "send-blocked-far-beyond-the-timeout"
      else if o.result.startsWith "ok" then propfail "send-succeeded-although-the-peer-went-silent"
      else if o.elapsed > 4 * t + 1500 then propfail "send-returned-late"
      else if o.timeoutFlag != "t" then propfail "timeout-error-does-not-identify-itself-as-timeout"
      else match rest with
        | [] => if client == "c" then "ok" else propfail "no-second-send"
        | o2 :: _ =>
          if o2.result == "HANG" then propfail "send-after-a-stalled-one-blocked"
          else if !o2.result.startsWith "ok" then propfail s!"send-after-a-stalled-one-failed:{o2.result}"
          else "ok"
    | _, _ => "BADLINE"
  | l => if l.getLast? == some "PANIC" then propfail "panic" else "BADLINE"

/-- `late <T ms> | obs;obs nconn seen`: the peer answers the end of data of the first message only after 1.5 x T. The
    blocking client gives up at T; the connection is then out of step with the peer and must not carry another send:
    the second send goes to a new connection and its result is the reply to its own end of data. -/
def lateOp : List String → String
  | [tms, res, _nconn, seen] =>
    if res == "PANIC" then propfail "panic" else
    match tms.toNat?, (res.splitOn ";").mapM parseObs with
    | some t, some [o1, o2] =>
      if o1.result.startsWith "ok" then propfail "send-reported-success-although-the-reply-came-after-the-timeout"
      else if o1.elapsed > 4 * t + 1500 then propfail "send-returned-late"
      else if o1.timeoutFlag != "t" then propfail "timeout-error-does-not-identify-itself-as-timeout"
      else if !o2.result.startsWith "ok" then propfail s!"send-after-a-timed-out-one-failed:{o2.result}"
      else if o2.result != s!"ok:250:{toHexField (str "second-ok")}" then propfail "reply-to-another-command-taken-for-the-answer"
      else if seen != "-" && !(seen.splitOn ",").all (fun x => x == "QUIT" || x == "Z") then
        propfail s!"connection-used-after-its-send-timed-out:{seen}"
      else "ok"
    | _, _ => "BADLINE"
  | l => if l.getLast? == some "PANIC" then propfail "panic" else "BADLINE"

/-- `shut slowquit <client> | t1 t2 t3 r3 quitseen r0` and `shut atreturn <client> <k> | k idle quits eofs` (C09: what
    holds at the moment `shutdown` returns, and its promptness) -/
def shutOp : List String → String
  | ["slowquit", _client, res] =>
    match res.splitOn " " with
    | [t1, t2, t3, r3, seen, r0] =>
      match t1.toNat?, t2.toNat?, t3.toNat? with
      | some t1, some t2, some t3 =>
        if r0 != "ok" then propfail s!"send-in-flight-at-shutdown-did-not-complete:{r0}"
        else if seen != "1" then propfail "connection-in-use-at-shutdown-not-closed-when-its-send-finished"
        else if t1 > 700 then propfail "shutdown-not-prompt"
        else if t2 > 700 then propfail "second-shutdown-waited-for-a-connection-being-closed"
        else if r3 != "shutdown" then propfail s!"send-after-shutdown:{r3}"
        else if t3 > 700 then propfail "send-after-shutdown-waited-for-a-connection-being-closed"
        else "ok"
      | _, _, _ => "BADLINE"
    | ["setup-failed"] => propfail "setup-failed"
    | _ => if res == "PANIC" then propfail "panic" else "BADLINE"
  | ["slowconnect", _client, res] =>
    match res.splitOn " " with
    | [t1, r0] =>
      match t1.toNat? with
      | some t1 =>
        if t1 > 700 then propfail s!"shutdown-waited-for-a-connection-being-set-up:{t1}ms"
        else if r0 == "HANG" then propfail "send-in-flight-at-shutdown-never-returned"
        else "ok"
      | none => "BADLINE"
    | ["setup-failed"] => propfail "setup-failed"
    | _ => if res == "PANIC" then propfail "panic" else "BADLINE"
  | ["atreturn", _client, _k, res] =>
    match res.splitOn " " with
    | [_, idle, quits, eofs] =>
      match idle.toNat?, quits.toNat?, eofs.toNat? with
      | some idle, some quits, some eofs =>
        if quits < idle then propfail s!"shutdown-returned-before-every-idle-connection-got-QUIT:{quits}/{idle}"
        else if eofs < idle then propfail s!"idle-connection-not-closed-after-shutdown:{eofs}/{idle}"
        else "ok"
      | _, _, _ => "BADLINE"
    | _ => if res == "PANIC" then propfail "panic" else "BADLINE"
  | l => if l.getLast? == some "PANIC" then propfail "panic" else "BADLINE"

end LV.Driver.PoolOp
