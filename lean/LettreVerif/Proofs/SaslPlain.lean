import LettreVerif.Model.Bytes
/-!
# The reader's side of SASL PLAIN (RFC 4616): `[authzid] NUL authcid NUL passwd`
-/
namespace LV.SaslPlain
open LV

/-- split at every NUL; `cur` is the current piece, reversed -/
def splitNul : Bytes → Bytes → List Bytes
  | cur, [] => [cur.reverse]
  | cur, b :: bs => if b = 0 then cur.reverse :: splitNul [] bs else splitNul (b :: cur) bs

/-- an RFC 4616 server: exactly three pieces — authorization identity, authentication identity, password -/
def read (msg : Bytes) : Option (Bytes × Bytes × Bytes) :=
  match splitNul [] msg with
  | [z, c, p] => some (z, c, p)
  | _ => none

theorem splitNul_nonul (s : Bytes) (h : ∀ b ∈ s, b ≠ 0) : ∀ (cur rest : Bytes),
    splitNul cur (s ++ 0 :: rest) = (cur.reverse ++ s) :: splitNul [] rest := by
  induction s with
  | nil => intro cur rest; simp [splitNul]
  | cons b s ih =>
    intro cur rest
    have hb : b ≠ 0 := h b (by simp)
    simp only [List.cons_append, splitNul, hb, if_false]
    rw [ih (fun x hx => h x (by simp [hx]))]
    simp

theorem splitNul_last (s : Bytes) (h : ∀ b ∈ s, b ≠ 0) : ∀ (cur : Bytes), splitNul cur s = [cur.reverse ++ s] := by
  induction s with
  | nil => intro cur; simp [splitNul]
  | cons b s ih =>
    intro cur
    have hb : b ≠ 0 := h b (by simp)
    simp only [splitNul, hb, if_false]
    rw [ih (fun x hx => h x (by simp [hx]))]
    simp

/-- what the client sends for PLAIN is read by the server as: no authorization identity, this user, this password -/
theorem read_plain (u p : Bytes) (hu : ∀ b ∈ u, b ≠ 0) (hp : ∀ b ∈ p, b ≠ 0) :
    read ([0] ++ u ++ [0] ++ p) = some ([], u, p) := by
  unfold read
  have e : [0] ++ u ++ [0] ++ p = [] ++ 0 :: (u ++ 0 :: p) := by simp
  rw [e, splitNul_nonul [] (by simp) [] (u ++ 0 :: p), splitNul_nonul u hu [] p, splitNul_last p hp []]
  simp

end LV.SaslPlain

namespace LV.SaslXoauth2
open LV

/-- split at every `^A` (octet 1); `cur` is the current piece, reversed -/
def splitA : Bytes → Bytes → List Bytes
  | cur, [] => [cur.reverse]
  | cur, b :: bs => if b = 1 then cur.reverse :: splitA [] bs else splitA (b :: cur) bs

def dropPrefix (p s : Bytes) : Option Bytes := if p.isPrefixOf s then some (s.drop p.length) else none

/-- the server's reading of the XOAUTH2 initial response: `user=` user `^A` `auth=Bearer ` token `^A^A` -/
def read (msg : Bytes) : Option (Bytes × Bytes) :=
  match splitA [] msg with
  | [a, b, [], []] =>
    match dropPrefix (str "user=") a, dropPrefix (str "auth=Bearer ") b with
    | some u, some t => some (u, t)
    | _, _ => none
  | _ => none

theorem splitA_piece (s : Bytes) (h : ∀ b ∈ s, b ≠ 1) : ∀ (cur rest : Bytes),
    splitA cur (s ++ 1 :: rest) = (cur.reverse ++ s) :: splitA [] rest := by
  induction s with
  | nil => intro cur rest; simp [splitA]
  | cons b s ih =>
    intro cur rest
    have hb : b ≠ 1 := h b (by simp)
    simp only [List.cons_append, splitA, hb, if_false]
    rw [ih (fun x hx => h x (by simp [hx]))]
    simp

theorem dropPrefix_append (p s : Bytes) : dropPrefix p (p ++ s) = some s := by simp [dropPrefix]

/-- what the client sends for XOAUTH2 is read by the server as this user and this bearer token -/
theorem read_xoauth2 (u t : Bytes) (hu : ∀ b ∈ u, b ≠ 1) (ht : ∀ b ∈ t, b ≠ 1) :
    read (str "user=" ++ u ++ [1] ++ str "auth=Bearer " ++ t ++ [1, 1]) = some (u, t) := by
  unfold read
  have k1 : ∀ b ∈ str "user=", b ≠ 1 := by decide
  have k2 : ∀ b ∈ str "auth=Bearer ", b ≠ 1 := by decide
  have hp1 : ∀ b ∈ str "user=" ++ u, b ≠ 1 := by
    intro b hb
    rcases List.mem_append.mp hb with h | h
    · exact k1 b h
    · exact hu b h
  have hp2 : ∀ b ∈ str "auth=Bearer " ++ t, b ≠ 1 := by
    intro b hb
    rcases List.mem_append.mp hb with h | h
    · exact k2 b h
    · exact ht b h
  have e : str "user=" ++ u ++ [1] ++ str "auth=Bearer " ++ t ++ [1, 1] =
      (str "user=" ++ u) ++ 1 :: ((str "auth=Bearer " ++ t) ++ 1 :: ([] ++ 1 :: [])) := by simp
  rw [e, splitA_piece _ hp1, splitA_piece _ hp2, splitA_piece [] (by simp)]
  simp only [List.reverse_nil, List.nil_append, splitA, List.append_nil]
  rw [dropPrefix_append, dropPrefix_append]

end LV.SaslXoauth2
