import LettreVerif.Model.Bytes
/-!
# M: the two small typed headers with their own text form

`MimeVersion` (src/message/header/special.rs: `format!("{}.{}", major, minor)`; `parse` = `split('.')`, first two
pieces through `u8::from_str`, further pieces ignored) and `ContentTransferEncoding` (src/message/header/content.rs:
five fixed spellings, compared exactly — letter case included). Strings are the UTF-8 octets of the Rust `str`.
-/
namespace LV.TypedHdr
open LV

/-- the digit loop of `u8::from_str_radix(_, 10)`: every octet an ASCII digit, no overflow beyond 255 -/
def digitsVal : Nat → Bytes → Option Nat
  | acc, [] => some acc
  | acc, b :: bs =>
    if 48 ≤ b.toNat && b.toNat ≤ 57 then
      let v := acc * 10 + (b.toNat - 48)
      if v > 255 then none else digitsVal v bs
    else none

/-- `u8::from_str`: one optional leading `+`, then at least one digit -/
def stripPlus : Bytes → Bytes
  | 43 :: r => r
  | s => s

def parseU8 (s : Bytes) : Option Nat :=
  if (stripPlus s).isEmpty then none else digitsVal 0 (stripPlus s)

/-- the piece before the first `.` and, if there is a `.`, what follows it -/
def untilDot : Bytes → Bytes × Option Bytes
  | [] => ([], none)
  | b :: bs => if b == 46 then ([], some bs) else let (p, r) := untilDot bs; (b :: p, r)

/-- `MimeVersion::parse` -/
def mimeParse (s : Bytes) : Option (Nat × Nat) :=
  match untilDot s with
  | (_, none) => none
  | (a, some r) =>
    match parseU8 a, parseU8 (untilDot r).1 with
    | some x, some y => some (x, y)
    | _, _ => none

/-- `Display for u8` -/
def u8Digits (n : Nat) : Bytes :=
  if n < 10 then [UInt8.ofNat (48 + n)]
  else if n < 100 then [UInt8.ofNat (48 + n / 10), UInt8.ofNat (48 + n % 10)]
  else [UInt8.ofNat (48 + n / 100), UInt8.ofNat (48 + n / 10 % 10), UInt8.ofNat (48 + n % 10)]

/-- `MimeVersion::display` (the raw and the encoded value are the same text) -/
def mimeDisplay (major minor : Nat) : Bytes := u8Digits major ++ 46 :: u8Digits minor

inductive Cte
  | sevenBit | quotedPrintable | base64 | eightBit | binary
deriving Repr, DecidableEq

/-- `Display for ContentTransferEncoding` -/
def cteDisplay : Cte → Bytes
  | .sevenBit => [55, 98, 105, 116]                                                                         -- 7bit
  | .quotedPrintable => [113, 117, 111, 116, 101, 100, 45, 112, 114, 105, 110, 116, 97, 98, 108, 101]       -- quoted-printable
  | .base64 => [98, 97, 115, 101, 54, 52]                                                                   -- base64
  | .eightBit => [56, 98, 105, 116]                                                                         -- 8bit
  | .binary => [98, 105, 110, 97, 114, 121]                                                                 -- binary

def Cte.all : List Cte := [.sevenBit, .quotedPrintable, .base64, .eightBit, .binary]

/-- `FromStr for ContentTransferEncoding`: an exact match with one of the five spellings -/
def cteParse (s : Bytes) : Option Cte := Cte.all.find? fun c => cteDisplay c == s

def Cte.tag : Cte → String
  | .sevenBit => "7" | .quotedPrintable => "q" | .base64 => "b" | .eightBit => "8" | .binary => "n"

end LV.TypedHdr
