import LettreVerif.Spec.ReplyGrammar
namespace LV.C15
open LV LV.Response LV.ReplyGrammar

/-! ### streaming monotonicity: a definitive answer is not changed by more input -/

theorem run_mono_ok (bo : Bool) (st : PSt) (p e : Bytes) (r : Resp) (rest : Bytes)
    (h : run bo st p = .ok r rest) : run bo st (p ++ e) = .ok r (rest ++ e) := by
  induction p generalizing st with
  | nil => simp [run] at h
  | cons b bs ih =>
    simp only [run, List.cons_append] at h ⊢
    split at h <;> simp_all

theorem run_mono_error (bo : Bool) (st : PSt) (p e : Bytes)
    (h : run bo st p = .error) : run bo st (p ++ e) = .error := by
  induction p generalizing st with
  | nil => simp [run] at h
  | cons b bs ih =>
    simp only [run, List.cons_append] at h ⊢
    split at h <;> simp_all

theorem run_mono_failure (bo : Bool) (st : PSt) (p e : Bytes)
    (h : run bo st p = .failure) : run bo st (p ++ e) = .failure := by
  induction p generalizing st with
  | nil => simp [run] at h
  | cons b bs ih =>
    simp only [run, List.cons_append] at h ⊢
    split at h <;> simp_all

/-! ### digits -/

theorem digitByte_toNat (n : Nat) (h : n ≤ 9) : (digitByte n).toNat = 48 + n := by
  simp only [digitByte, UInt8.toNat_ofNat']
  omega

theorem digit_digitByte (lo hi n : Nat) (h1 : lo ≤ n) (h2 : n ≤ hi) (h3 : hi ≤ 9) :
    digit lo hi (digitByte n) = some n := by
  have := digitByte_toNat n (by omega)
  simp only [digit, this]
  rw [if_pos (by omega)]
  simp

theorem digit_eq (lo hi : Nat) (b : Byte) (n : Nat) (h3 : hi ≤ 9) (h : digit lo hi b = some n) :
    b = digitByte n ∧ lo ≤ n ∧ n ≤ hi := by
  simp only [digit] at h
  split at h
  · rename_i hc
    simp only [Option.some.injEq] at h
    refine ⟨?_, by omega, by omega⟩
    apply UInt8.toNat_inj.mp
    rw [digitByte_toNat n (by omega)]
    omega
  · simp at h

/-! ### running through a rendered line -/

theorem run_code (bo : Bool) (L : List (Code × Bytes)) (c : Code) (more : Bytes) (hc : codeOk c = true) :
    run bo ⟨L, .d0⟩ (renderCode c ++ more) = run bo ⟨L, .sep c⟩ more := by
  obtain ⟨a, x, y⟩ := c
  simp only [codeOk, Bool.and_eq_true, decide_eq_true_eq] at hc
  simp only [renderCode, List.cons_append, List.nil_append, run, step,
    digit_digitByte 2 5 a hc.1.1.1 hc.1.1.2 (by omega),
    digit_digitByte 0 5 x (by omega) hc.1.2 (by omega),
    digit_digitByte 0 9 y (by omega) hc.2 (by omega)]

/-- no CRLF inside `t`, and `t` does not start with the LF that would complete a CR pending
    at the end of what was read before -/
def TextOk (acc t : Bytes) : Prop := noCrlf t = true ∧ ¬ (acc.head? = some 13 ∧ t.head? = some 10)

theorem noCrlf_tail (x : Byte) (xs : Bytes) (h : noCrlf (x :: xs) = true) :
    noCrlf xs = true ∧ ¬ (x = 13 ∧ xs.head? = some 10) := by
  simp only [noCrlf, Bool.and_eq_true, Bool.not_eq_true', Bool.and_eq_false_iff, beq_eq_false_iff_ne,
    beq_iff_eq] at h
  refine ⟨h.2, ?_⟩
  rintro ⟨h1, h2⟩
  rcases h.1 with h3 | h3
  · exact h3 h1
  · exact h3 h2

theorem run_ctext (bo : Bool) (L : List (Code × Bytes)) (c : Code) (acc t more : Bytes)
    (h : TextOk acc t) :
    run bo ⟨L, .ctext c acc⟩ (t ++ [13, 10] ++ more) = run bo ⟨(c, acc.reverse ++ t) :: L, .d0⟩ more := by
  induction t generalizing acc with
  | nil =>
    simp [run, step]
  | cons x xs ih =>
    obtain ⟨h1, h2⟩ := h
    have ht := noCrlf_tail x xs h1
    simp only [List.cons_append, List.append_assoc, run, step]
    rw [if_neg (by intro hh; exact h2 ⟨hh.2, by simp [hh.1]⟩)]
    have := ih (x :: acc) ⟨ht.1, by simpa using ht.2⟩
    simp only [List.append_assoc, List.reverse_cons] at this
    simpa using this

theorem run_ltext (bo : Bool) (L : List (Code × Bytes)) (c : Code) (acc t more : Bytes)
    (h : TextOk acc t) :
    run bo ⟨L, .ltext c acc⟩ (t ++ [13, 10] ++ more) =
      (match finish L c (acc.reverse ++ t) with
       | .ok r => .ok r more | .error => .error | .failure => .failure) := by
  induction t generalizing acc with
  | nil =>
    simp only [List.nil_append, List.cons_append, run, step]
    simp
    cases finish L c acc.reverse <;> rfl
  | cons x xs ih =>
    obtain ⟨h1, h2⟩ := h
    have ht := noCrlf_tail x xs h1
    simp only [List.cons_append, List.append_assoc, run, step]
    rw [if_neg (by intro hh; exact h2 ⟨hh.2, by simp [hh.1]⟩)]
    have := ih (x :: acc) ⟨ht.1, by simpa using ht.2⟩
    simp only [List.append_assoc, List.reverse_cons] at this
    simpa using this

theorem textOk_nil (t : Bytes) (h : noCrlf t = true) : TextOk [] t := ⟨h, by simp⟩

theorem finish_same (L : List (Code × Bytes)) (c : Code) (t : Bytes) (h : ∀ l ∈ L, l.1 = c) :
    finish L c t = .ok ⟨c, L.reverse.map (·.2) ++ [t]⟩ := by
  simp only [finish]
  rw [if_pos]
  simpa using h

/-- all lines of `ts` rendered (any spelling of an empty last text) are read back -/
theorem run_lines (c : Code) (hc : codeOk c = true) (ts : List Bytes) (hne : ts ≠ [])
    (hts : ts.all noCrlf = true) (L : List (Code × Bytes)) (hL : ∀ l ∈ L, l.1 = c) (rest : Bytes) :
    run true ⟨L, .d0⟩ (renderLines c ts ++ rest) = .ok ⟨c, L.reverse.map (·.2) ++ ts⟩ rest ∧
    run true ⟨L, .d0⟩ (renderLinesBare c ts ++ rest) = .ok ⟨c, L.reverse.map (·.2) ++ ts⟩ rest := by
  induction ts generalizing L with
  | nil => exact absurd rfl hne
  | cons t ts ih =>
    simp only [List.all_cons, Bool.and_eq_true] at hts
    cases ts with
    | nil =>
      have hfull : run true ⟨L, .d0⟩ (renderLines c [t] ++ rest) =
          .ok ⟨c, L.reverse.map (·.2) ++ [t]⟩ rest := by
        simp only [renderLines, CRLF, List.append_assoc]
        rw [run_code true L c _ hc]
        simp only [List.cons_append, List.nil_append, run, step]
        have := run_ltext true L c [] t rest (textOk_nil t hts.1)
        simp only [List.append_assoc, List.cons_append, List.nil_append, List.reverse_nil] at this
        simp only [if_neg (show ¬ ((32 : Byte) = 45) by decide), if_pos]
        rw [this, finish_same L c t hL]
      refine ⟨hfull, ?_⟩
      simp only [renderLinesBare]
      split
      · rename_i he
        have : t = [] := by simpa using he
        subst this
        simp only [CRLF, List.append_assoc]
        rw [run_code true L c _ hc]
        simp only [List.cons_append, List.nil_append, run, step]
        simp [finish_same L c [] hL]
      · exact hfull
    | cons t2 ts2 =>
      have key : ∀ more, run true ⟨L, .d0⟩ (renderCode c ++ [45] ++ t ++ CRLF ++ more) =
          run true ⟨(c, t) :: L, .d0⟩ more := by
        intro more
        simp only [CRLF, List.append_assoc]
        rw [run_code true L c _ hc]
        simp only [List.cons_append, List.nil_append, run, step, if_pos]
        have := run_ctext true L c [] t more (textOk_nil t hts.1)
        simpa using this
      have hL' : ∀ l ∈ (c, t) :: L, l.1 = c := by
        intro l hl
        rcases List.mem_cons.mp hl with rfl | hl
        · rfl
        · exact hL l hl
      have := ih (by simp) hts.2 ((c, t) :: L) hL'
      simp only [renderLines, renderLinesBare, List.append_assoc] at this ⊢
      constructor
      · have k := key (renderLines c (t2 :: ts2) ++ rest)
        simp only [renderLines, List.append_assoc] at k
        rw [k, this.1]
        simp
      · have k := key (renderLinesBare c (t2 :: ts2) ++ rest)
        simp only [renderLinesBare, List.append_assoc] at k
        rw [k, this.2]
        simp

/-! ### soundness: whatever is accepted is a rendered well-formed reply -/

def renderCont (l : Code × Bytes) : Bytes := renderCode l.1 ++ [45] ++ l.2 ++ CRLF

def consumedPhase : Phase → Bytes
  | .d0 => []
  | .d1 a => [digitByte a]
  | .d2 a b => [digitByte a, digitByte b]
  | .sep c => renderCode c
  | .ctext c acc => renderCode c ++ [45] ++ acc.reverse
  | .ltext c acc => renderCode c ++ [32] ++ acc.reverse
  | .lcr c => renderCode c ++ [13]

/-- the octets that lead from `init` to `st` -/
def consumed (st : PSt) : Bytes := (st.lines.reverse.map renderCont).flatten ++ consumedPhase st.phase

def GoodPhase : Phase → Prop
  | .d0 => True
  | .d1 a => 2 ≤ a ∧ a ≤ 5
  | .d2 a b => 2 ≤ a ∧ a ≤ 5 ∧ b ≤ 5
  | .sep c => codeOk c = true
  | .ctext c acc => codeOk c = true ∧ noCrlf acc.reverse = true
  | .ltext c acc => codeOk c = true ∧ noCrlf acc.reverse = true
  | .lcr c => codeOk c = true

def Good (st : PSt) : Prop :=
  (∀ l ∈ st.lines, codeOk l.1 = true ∧ noCrlf l.2 = true) ∧ GoodPhase st.phase

theorem noCrlf_snoc (l : Bytes) (b : Byte) :
    noCrlf (l ++ [b]) = (noCrlf l && !(l.getLast? == some 13 && b == 10)) := by
  induction l with
  | nil => simp [noCrlf]
  | cons x xs ih =>
    cases xs with
    | nil => simp [noCrlf]
    | cons y ys =>
      simp only [List.cons_append, noCrlf] at ih ⊢
      simp only [List.head?_cons, List.getLast?_cons_cons]
      rw [ih]
      simp [Bool.and_assoc]

theorem noCrlf_append_left (l m : Bytes) (h : noCrlf (l ++ m) = true) : noCrlf l = true := by
  induction l with
  | nil => simp [noCrlf]
  | cons x xs ih =>
    simp only [List.cons_append, noCrlf, Bool.and_eq_true] at h ⊢
    refine ⟨?_, ih h.2⟩
    cases xs with
    | nil => simp
    | cons y ys => simpa using h.1

theorem renderLines_cons (c : Code) (t : Bytes) (us : List Bytes) (h : us ≠ []) :
    renderLines c (t :: us) = renderCode c ++ [45] ++ t ++ CRLF ++ renderLines c us := by
  cases us with
  | nil => exact absurd rfl h
  | cons u us => rfl

theorem renderLinesBare_cons (c : Code) (t : Bytes) (us : List Bytes) (h : us ≠ []) :
    renderLinesBare c (t :: us) = renderCode c ++ [45] ++ t ++ CRLF ++ renderLinesBare c us := by
  cases us with
  | nil => exact absurd rfl h
  | cons u us => rfl

theorem consumed_lines (c : Code) (M : List (Code × Bytes)) (hM : ∀ l ∈ M, l.1 = c)
    (ts : List Bytes) (hts : ts ≠ []) :
    (M.map renderCont).flatten ++ renderLines c ts = renderLines c (M.map (·.2) ++ ts) ∧
    (M.map renderCont).flatten ++ renderLinesBare c ts = renderLinesBare c (M.map (·.2) ++ ts) := by
  induction M with
  | nil => simp
  | cons l M ih =>
    have hl : l.1 = c := hM l (by simp)
    have ih' := ih (fun x hx => hM x (by simp [hx]))
    have hne : M.map (·.2) ++ ts ≠ [] := by simp [hts]
    simp only [List.map_cons, List.flatten_cons, List.cons_append, List.append_assoc]
    rw [renderLines_cons c l.2 _ hne, renderLinesBare_cons c l.2 _ hne, ← ih'.1, ← ih'.2]
    simp [renderCont, hl]

theorem finish_ok (L : List (Code × Bytes)) (c : Code) (t : Bytes) (r : Resp)
    (h : finish L c t = .ok r) : (∀ l ∈ L, l.1 = c) ∧ r = ⟨c, L.reverse.map (·.2) ++ [t]⟩ := by
  simp only [finish] at h
  split at h
  · rename_i hall
    simp only [Outcome.ok.injEq] at h
    exact ⟨by simpa using hall, h.symm⟩
  · simp at h

theorem sound_gen (st : PSt) (s : Bytes) (r : Resp) (rest : Bytes) (hg : Good st)
    (h : run true st s = .ok r rest) :
    wf r = true ∧ (consumed st ++ s = render r ++ rest ∨ consumed st ++ s = renderBare r ++ rest) := by
  induction s generalizing st with
  | nil => simp [run] at h
  | cons b bs ih =>
    obtain ⟨L, ph⟩ := st
    obtain ⟨hL, hp⟩ := hg
    simp only [run] at h
    cases ph with
    | d0 =>
      simp only [step] at h
      cases hd : digit 2 5 b with
      | none => simp [hd] at h
      | some a =>
        simp only [hd] at h
        obtain ⟨rfl, h1, h2⟩ := digit_eq 2 5 b a (by omega) hd
        have := ih ⟨L, .d1 a⟩ ⟨hL, ⟨h1, h2⟩⟩ h
        simpa [consumed, consumedPhase] using this
    | d1 a =>
      simp only [step] at h
      cases hd : digit 0 5 b with
      | none => simp [hd] at h
      | some x =>
        simp only [hd] at h
        obtain ⟨rfl, _, h2⟩ := digit_eq 0 5 b x (by omega) hd
        have := ih ⟨L, .d2 a x⟩ ⟨hL, ⟨hp.1, hp.2, h2⟩⟩ h
        simpa [consumed, consumedPhase] using this
    | d2 a x =>
      simp only [step] at h
      cases hd : digit 0 9 b with
      | none => simp [hd] at h
      | some y =>
        simp only [hd] at h
        obtain ⟨rfl, _, h2⟩ := digit_eq 0 9 b y (by omega) hd
        have hc : codeOk (a, x, y) = true := by
          simp only [GoodPhase] at hp
          simp [codeOk, hp.1, hp.2.1, hp.2.2, h2]
        have := ih ⟨L, .sep (a, x, y)⟩ ⟨hL, hc⟩ h
        simpa [consumed, consumedPhase, renderCode] using this
    | sep c =>
      simp only [step] at h
      by_cases h45 : b = 45
      · subst h45
        simp only [if_pos] at h
        have := ih ⟨L, .ctext c []⟩ ⟨hL, ⟨hp, by simp [noCrlf]⟩⟩ h
        simpa [consumed, consumedPhase] using this
      · by_cases h32 : b = 32
        · subst h32
          simp only [if_neg h45, if_pos] at h
          have := ih ⟨L, .ltext c []⟩ ⟨hL, ⟨hp, by simp [noCrlf]⟩⟩ h
          simpa [consumed, consumedPhase] using this
        · by_cases h13 : b = 13
          · subst h13
            simp only [if_neg h45, if_neg h32, Bool.true_and, decide_true, if_pos] at h
            have := ih ⟨L, .lcr c⟩ ⟨hL, hp⟩ h
            simpa [consumed, consumedPhase] using this
          · simp [if_neg h45, if_neg h32, h13] at h
    | ctext c acc =>
      simp only [step] at h
      by_cases hfin : b = 10 ∧ acc.head? = some 13
      · simp only [if_pos hfin] at h
        obtain ⟨rfl, hh⟩ := hfin
        cases acc with
        | nil => simp at hh
        | cons a0 t =>
          simp only [List.head?_cons, Option.some.injEq] at hh
          subst hh
          have hnc : noCrlf t.reverse = true := by
            have := hp.2
            simp only [List.reverse_cons] at this
            exact noCrlf_append_left _ _ this
          have hL' : ∀ l ∈ (c, t.reverse) :: L, codeOk l.1 = true ∧ noCrlf l.2 = true := by
            intro l hl
            rcases List.mem_cons.mp hl with rfl | hl
            · exact ⟨hp.1, hnc⟩
            · exact hL l hl
          have := ih ⟨(c, t.reverse) :: L, .d0⟩ ⟨hL', trivial⟩ (by simpa using h)
          simpa [consumed, consumedPhase, renderCont, CRLF] using this
      · simp only [if_neg hfin] at h
        have hnc : noCrlf (b :: acc).reverse = true := by
          simp only [List.reverse_cons, noCrlf_snoc, hp.2, Bool.true_and, Bool.not_eq_true',
            Bool.and_eq_false_iff, beq_eq_false_iff_ne, List.getLast?_reverse]
          by_cases hb : b = 10
          · left; intro hh; exact hfin ⟨hb, hh⟩
          · right; exact hb
        have := ih ⟨L, .ctext c (b :: acc)⟩ ⟨hL, ⟨hp.1, hnc⟩⟩ h
        simpa [consumed, consumedPhase] using this
    | ltext c acc =>
      simp only [step] at h
      by_cases hfin : b = 10 ∧ acc.head? = some 13
      · simp only [if_pos hfin] at h
        obtain ⟨rfl, hh⟩ := hfin
        cases acc with
        | nil => simp at hh
        | cons a0 t =>
          simp only [List.head?_cons, Option.some.injEq] at hh
          subst hh
          have hnc : noCrlf t.reverse = true := by
            have := hp.2
            simp only [List.reverse_cons] at this
            exact noCrlf_append_left _ _ this
          cases hf : finish L c t.reverse with
          | error => simp [hf] at h
          | failure => simp [hf] at h
          | ok r' =>
            simp only [hf, List.tail_cons, PR.ok.injEq] at h
            obtain ⟨rfl, rfl⟩ := h
            obtain ⟨hall, rfl⟩ := finish_ok L c t.reverse r' hf
            have hcl := (consumed_lines c L.reverse (by simpa using hall) [t.reverse] (by simp)).1
            refine ⟨?_, Or.inl ?_⟩
            · simp only [wf, hp.1, Bool.true_and, List.all_append, List.all_map, Bool.and_eq_true]
              refine ⟨by simp, ?_, by simpa using hnc⟩
              simp only [List.all_eq_true, List.mem_reverse, Function.comp]
              intro l hl; exact (hL l hl).2
            · simp only [consumed, consumedPhase, render, List.reverse_cons, List.append_assoc]
              rw [← hcl]
              simp [renderLines, CRLF]
      · simp only [if_neg hfin] at h
        have hnc : noCrlf (b :: acc).reverse = true := by
          simp only [List.reverse_cons, noCrlf_snoc, hp.2, Bool.true_and, Bool.not_eq_true',
            Bool.and_eq_false_iff, beq_eq_false_iff_ne, List.getLast?_reverse]
          by_cases hb : b = 10
          · left; intro hh; exact hfin ⟨hb, hh⟩
          · right; exact hb
        have := ih ⟨L, .ltext c (b :: acc)⟩ ⟨hL, ⟨hp.1, hnc⟩⟩ h
        simpa [consumed, consumedPhase] using this
    | lcr c =>
      simp only [step] at h
      by_cases h10 : b = 10
      · subst h10
        simp only [if_pos] at h
        cases hf : finish L c [] with
        | error => simp [hf] at h
        | failure => simp [hf] at h
        | ok r' =>
          simp only [hf, PR.ok.injEq] at h
          obtain ⟨rfl, rfl⟩ := h
          obtain ⟨hall, rfl⟩ := finish_ok L c [] r' hf
          have hcl := (consumed_lines c L.reverse (by simpa using hall) [[]] (by simp)).2
          refine ⟨?_, Or.inr ?_⟩
          · have hp' : codeOk c = true := hp
            simp only [wf, hp', Bool.true_and, List.all_append, List.all_map, Bool.and_eq_true]
            refine ⟨by simp, ?_, by simp [noCrlf]⟩
            simp only [List.all_eq_true, List.mem_reverse, Function.comp]
            intro l hl; exact (hL l hl).2
          · simp only [consumed, consumedPhase, renderBare, List.append_assoc]
            rw [← hcl]
            simp [renderLinesBare, CRLF]
      · simp [if_neg h10] at h

end LV.C15

namespace LV.C15
open LV LV.Response LV.ReplyGrammar

/-! ### prefixes, `read_response` -/

theorem complete_render (r : Resp) (rest : Bytes) (h : wf r = true) :
    run true init (render r ++ rest) = .ok r rest ∧ run true init (renderBare r ++ rest) = .ok r rest := by
  obtain ⟨c, ls⟩ := r
  simp only [wf, Bool.and_eq_true, Bool.not_eq_true'] at h
  have := run_lines c h.1.1 ls (by intro e; simp [e] at h) h.2 [] (by simp) rest
  simpa [render, renderBare, init] using this

theorem prefix_incomplete_gen (r : Resp) (h : wf r = true) (p e : Bytes) (he : e ≠ [])
    (hp : p ++ e = render r) : run true init p = .incomplete := by
  have hc := (complete_render r [] h).1
  simp only [List.append_nil] at hc
  rw [← hp] at hc
  cases hr : run true init p with
  | incomplete => rfl
  | ok r' rest' =>
    have := run_mono_ok true init p e r' rest' hr
    rw [hc] at this
    simp only [PR.ok.injEq] at this
    have : e = [] := by
      have h2 := this.2
      have := congrArg List.length h2
      simp at this
      exact List.eq_nil_of_length_eq_zero (by omega)
    exact absurd this he
  | error => have := run_mono_error true init p e hr; rw [hc] at this; cases this
  | failure => have := run_mono_failure true init p e hr; rw [hc] at this; cases this

theorem takeLine_concat (a s : Bytes) : (takeLine a s).1 ++ (takeLine a s).2 = a.reverse ++ s := by
  induction s generalizing a with
  | nil => simp [takeLine]
  | cons x xs ih =>
    simp only [takeLine]
    split
    · simp
    · rw [ih]; simp

theorem takeLine_within (u a rest : Bytes) (h : u.getLast? = some 10) :
    ∃ l u', u = l ++ u' ∧ l ≠ [] ∧ takeLine a (u ++ rest) = (a.reverse ++ l, u' ++ rest) := by
  induction u generalizing a with
  | nil => simp at h
  | cons x xs ih =>
    by_cases hx : x = 10
    · refine ⟨[x], xs, rfl, by simp, ?_⟩
      simp [takeLine, hx]
    · have hxs : xs.getLast? = some 10 := by
        cases xs with
        | nil => simp at h; exact absurd h hx
        | cons y ys => simpa [List.getLast?_cons_cons] using h
      obtain ⟨l, u', h1, h2, h3⟩ := ih (x :: a) hxs
      refine ⟨x :: l, u', by simp [h1], by simp, ?_⟩
      simp only [List.cons_append, takeLine, if_neg hx, h3]
      simp

theorem getLast?_append_ne (l m : Bytes) (h : m ≠ []) : (l ++ m).getLast? = m.getLast? := by
  rw [List.getLast?_append]
  cases hm : m.getLast? with
  | none => exact absurd (List.getLast?_eq_none_iff.mp hm) h
  | some x => rfl

theorem renderLines_last (c : Code) (ts : List Bytes) (h : ts ≠ []) :
    (renderLines c ts).getLast? = some 10 := by
  induction ts with
  | nil => exact absurd rfl h
  | cons t ts ih =>
    cases ts with
    | nil =>
      simp only [renderLines, CRLF]
      rw [getLast?_append_ne _ _ (by simp)]
      rfl
    | cons u us =>
      rw [renderLines_cons c t _ (by simp)]
      have := ih (by simp)
      rw [getLast?_append_ne _ _ (by intro e; rw [e] at this; simp at this)]
      exact this

theorem render_last (r : Resp) (h : wf r = true) : (render r).getLast? = some 10 := by
  simp only [wf, Bool.and_eq_true, Bool.not_eq_true'] at h
  exact renderLines_last r.code r.lines (by intro e; simp [e] at h)

theorem read_exact_gen (r : Resp) (h : wf r = true) (fuel : Nat) (acc u rest : Bytes)
    (hu : acc ++ u = render r) (hne : u ≠ []) (hf : u.length ≤ fuel) :
    readResponse true fuel acc (u ++ rest) = (.reply r, rest) := by
  induction fuel generalizing acc u with
  | zero =>
    have : u = [] := List.eq_nil_of_length_eq_zero (by omega)
    exact absurd this hne
  | succ f ih =>
    have hlast : u.getLast? = some 10 := by
      have := render_last r h
      rw [← hu, getLast?_append_ne _ _ hne] at this
      exact this
    obtain ⟨l, u', h1, h2, h3⟩ := takeLine_within u [] rest hlast
    have hse : (u ++ rest).isEmpty = false := by
      cases u with
      | nil => exact absurd rfl hne
      | cons x xs => rfl
    simp only [readResponse, hse, h3, List.reverse_nil, List.nil_append]
    by_cases hu' : u' = []
    · subst hu'
      simp only [List.append_nil] at h1
      subst h1
      have := (complete_render r [] h).1
      rw [List.append_nil, ← hu] at this
      simp [this]
    · have hinc := prefix_incomplete_gen r h (acc ++ l) u' hu' (by rw [← hu, h1]; simp)
      simp only [hinc]
      apply ih (acc ++ l) u' (by rw [← hu, h1]; simp) hu'
      have : 1 ≤ l.length := by
        cases l with
        | nil => exact absurd rfl h2
        | cons x xs => simp
      rw [h1] at hf
      simp at hf
      omega

theorem eof_bad_gen (r : Resp) (h : wf r = true) (fuel : Nat) (acc stream e : Bytes) (he : e ≠ [])
    (hp : acc ++ stream ++ e = render r) : (readResponse true fuel acc stream).1 = .bad := by
  induction fuel generalizing acc stream with
  | zero => simp [readResponse]
  | succ f ih =>
    simp only [readResponse]
    split
    · rfl
    · have hc := takeLine_concat [] stream
      simp only [List.reverse_nil, List.nil_append] at hc
      generalize htl : takeLine [] stream = tl at hc
      obtain ⟨line, rest1⟩ := tl
      simp only at hc ⊢
      have hinc := prefix_incomplete_gen r h (acc ++ line) (rest1 ++ e)
        (by intro hh; have := List.append_eq_nil_iff.mp hh; exact he this.2)
        (by rw [← hp, ← hc]; simp)
      simp only [hinc]
      apply ih
      rw [← hp, ← hc]; simp

end LV.C15
