use crate::util::*;
use lettre::transport::smtp::commands::{Ehlo, Mail, Rcpt};
use lettre::transport::smtp::extension::{ClientId, MailParameter, RcptParameter};

/// `mailparam <keyword> <value|->` → the MAIL and RCPT lines carrying this custom parameter
pub fn mailparam(args: &[&str]) -> Option<Vec<String>> {
    let keyword = unhex_str(args.first()?)?;
    let value = if *args.get(1)? == "-" { None } else { Some(unhex_str(args[1])?) };
    let to: lettre::Address = "x@y.z".parse().ok()?;
    let m = Mail::new(None, vec![MailParameter::Other { keyword: keyword.clone(), value: value.clone() }]).to_string();
    let r = Rcpt::new(to, vec![RcptParameter::Other { keyword, value }]).to_string();
    Some(vec![hex(m.as_bytes()), hex(r.as_bytes())])
}

/// `ehlocmd <kind d|4|6> <text>` → the EHLO line for this client id
pub fn ehlocmd(args: &[&str]) -> Option<Vec<String>> {
    let kind = *args.first()?;
    let text = unhex_str(args.get(1)?)?;
    let id = match kind {
        "d" => ClientId::Domain(text),
        "4" => ClientId::Ipv4(text.parse().ok()?),
        "6" => ClientId::Ipv6(text.parse().ok()?),
        _ => return None,
    };
    Some(vec![hex(Ehlo::new(id).to_string().as_bytes())])
}

/// `mailsize <n>` → MAIL line with SIZE and BODY parameters
pub fn mailstd(args: &[&str]) -> Option<Vec<String>> {
    use lettre::transport::smtp::extension::MailBodyParameter;
    let n: usize = args.first()?.parse().ok()?;
    let m = Mail::new(
        None,
        vec![
            MailParameter::Size(n),
            MailParameter::Body(MailBodyParameter::SevenBit),
            MailParameter::Body(MailBodyParameter::EightBitMime),
            MailParameter::SmtpUtfEight,
        ],
    )
    .to_string();
    Some(vec![hex(m.as_bytes())])
}


/// `urlcred <url> <user> <pass>`: a connection URL with credentials given to `from_url` (sync and tokio): the text of
/// the error, or the Debug text of the builder
pub fn urlcred(args: &[&str]) -> Option<Vec<String>> {
    let url = unhex_str(args.first()?)?;
    let mut out = vec![];
    out.push(match lettre::SmtpTransport::from_url(&url) {
        Ok(b) => format!("ok:{}", hex(format!("{b:?}").as_bytes())),
        Err(e) => format!("err:{}", hex(format!("{e}|{e:?}").as_bytes())),
    });
    out.push(match lettre::AsyncSmtpTransport::<lettre::Tokio1Executor>::from_url(&url) {
        Ok(b) => format!("ok:{}", hex(format!("{b:?}").as_bytes())),
        Err(e) => format!("err:{}", hex(format!("{e}|{e:?}").as_bytes())),
    });
    Some(out)
}
