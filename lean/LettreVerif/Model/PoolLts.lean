import LettreVerif.Model.Bytes
/-!
# M: the connection pools as a transition system over their critical sections

src/transport/smtp/pool/{sync_impl,async_impl}.rs.  One transition = one acquisition of the
pool's lock by one thread (or task) together with the lock-free work that thread does before it
next needs the lock: a NOOP probe, a connect, the transaction, QUIT.  That work touches only
connections the thread owns at that moment (which is the invariant `Excl` proved in
`Proofs/PoolLts.lean`), so interleaving it with other threads' work changes nothing
observable; the schedule controller of the harness forces exactly these transitions on the
real pools.

The peer is part of the state: every connection carries the peer's plan for it (`Plan`) and the
history the peer has seen on it.
-/
namespace LV.PoolLts

/-- what the peer sees on one connection -/
inductive SEv
  | ehlo | noop | mail (sender : Nat) | rcpt | rcptRej | rcptTemp | data | dataTemp | commit (sender msg : Nat)
  | quit | eof | kill
deriving DecidableEq, Repr

/-- the peer's plan for one connection: silently close after that many accepted messages (0 = right after EHLO);
    refuse the recipient of that transaction with 550 / with 450; answer that NOOP with `421` and close; answer that
    NOOP only after the client's read timeout has passed -/
structure Plan where
  dropAfter : Option Nat := none
  rejectRcpt : Option Nat := none
  tempRcpt : Option Nat := none
  /-- answer the DATA command of that transaction with 451 -/
  tempData : Option Nat := none
  noop421 : Option Nat := none
  slowNoop : Option Nat := none
deriving DecidableEq, Repr

structure Conn where
  dropAfter : Option Nat := none
  rejectRcpt : Option Nat := none
  tempRcpt : Option Nat := none
  /-- answer the DATA command of that transaction with 451 -/
  tempData : Option Nat := none
  noop421 : Option Nat := none
  slowNoop : Option Nat := none
  noops : Nat := 0
  peerAlive : Bool := true      -- the peer has not closed it
  closed : Bool := false        -- the client has closed it
  broken : Bool := false        -- `panic`: set by abort(); never parked again
  commits : Nat := 0
  txns : Nat := 0
  hist : List SEv := []         -- most recent first
deriving DecidableEq, Repr

inductive Res | ok | perm | trans | err | shutdown
deriving DecidableEq, Repr

/-- a sender: which of its sends is next, whether it holds a connection waiting to return it -/
structure Sender where
  next : Nat := 0
  holding : Option Nat := none
  results : List Res := []      -- most recent first
deriving DecidableEq, Repr

inductive MPc
  | scan                                          -- about to take the lock for the scan
  | push (c : Nat) (more : Nat) (dropped : List Nat)   -- holds fresh `c`, `more` still to create
  | asleep
  | exited
deriving DecidableEq, Repr

structure St where
  isAsync : Bool
  maxSize : Nat
  minIdle : Nat
  sends : Nat                              -- sends per sender
  idle : Option (List (Nat × Bool))        -- parked (connection, expired), most recent first; none = shut down
  conns : List Conn                        -- every connection ever opened, by order of opening
  plans : List Plan                        -- the peer's plan for the connections still to come
  senders : List Sender
  recyclers : List (Option Nat)            -- async: pending returns, in order of creation
  maint : MPc
deriving Repr

inductive Ev
  | connectionLock (s : Nat)
  | recycleLock (who : Nat)       -- sync: sender index; async: recycler index
  | maintScan
  | maintPush
  | shutdownLock
  | wait                          -- the idle timeout passes for everything parked
deriving DecidableEq, Repr

def updConn (s : St) (c : Nat) (f : Conn → Conn) : St :=
  { s with conns := s.conns.modify c f }

def getConn (s : St) (c : Nat) : Conn := s.conns.getD c {}

def updSender (s : St) (i : Nat) (f : Sender → Sender) : St :=
  { s with senders := s.senders.modify i f }

def say (k : Conn) (e : SEv) : Conn := { k with hist := e :: k.hist }

/-- `abort()`: QUIT once if not already broken (the peer sees it if it is still there), close -/
def abortConn (k : Conn) : Conn :=
  if k.closed then k else
  let k1 := if !k.broken && k.peerAlive then say k .quit else k
  let k2 := if k1.peerAlive then say k1 .eof else k1
  { k2 with broken := true, closed := true }

/-- the socket is dropped without QUIT (a connection the maintenance worker held when it found
    the pool shut down) -/
def dropConn (k : Conn) : Conn :=
  if k.closed then k else
  let k1 := if k.peerAlive then say k .eof else k
  { k1 with broken := true, closed := true }

/-- a new connection: greeting + EHLO; the peer may close right away (`dropAfter = 0`) -/
def openConn (s : St) : St × Nat :=
  let pl := s.plans.headD {}
  let k : Conn := { dropAfter := pl.dropAfter, rejectRcpt := pl.rejectRcpt, tempRcpt := pl.tempRcpt, tempData := pl.tempData, noop421 := pl.noop421,
                    slowNoop := pl.slowNoop, hist := [.ehlo] }
  let k := if pl.dropAfter == some 0 then { say k .kill with peerAlive := false } else k
  ({ s with conns := s.conns ++ [k], plans := s.plans.tail }, s.conns.length)

/-- NOOP probe: the connection and whether it answered in time with a positive reply -/
def probe (k : Conn) : Conn × Bool :=
  if !k.peerAlive then (k, false) else
  let k := { say k .noop with noops := k.noops + 1 }
  if k.noop421 == some k.noops then ({ say k .kill with peerAlive := false }, false)
  else if k.slowNoop == some k.noops then (k, false)
  else (k, true)

/-- one transaction of sender `i`, message `m` on `k`: the connection afterwards and the result -/
def transact (k : Conn) (i m : Nat) : Conn × Res :=
  if !k.peerAlive then (abortConn k, .err) else
  let k := { say k (.mail i) with txns := k.txns + 1 }
  if k.rejectRcpt == some k.txns then (abortConn (say k .rcptRej), .perm) else
  if k.tempRcpt == some k.txns then (abortConn (say k .rcptTemp), .trans) else
  if k.tempData == some k.txns then (abortConn (say (say k .rcpt) .dataTemp), .trans) else
  let k := say (say (say k .rcpt) .data) (.commit i m)
  let k := { k with commits := k.commits + 1 }
  if k.dropAfter == some k.commits then ({ say k .kill with peerAlive := false }, .ok) else (k, .ok)

/-- after `send_raw` got its result on connection `c`: the connection goes back (sync: the
    sender itself waits for the lock unless the connection is broken; async: a recycle task is
    spawned) and the sender moves to its next message -/
def finishSend (s : St) (i c : Nat) (r : Res) : St :=
  let brk := (getConn s c).broken
  if s.isAsync then
    let s := { s with recyclers := s.recyclers ++ [if brk then none else some c] }
    updSender s i fun t => { t with next := t.next + 1, results := r :: t.results }
  else if brk then
    updSender s i fun t => { t with next := t.next + 1, results := r :: t.results }
  else
    updSender s i fun t => { t with holding := some c, results := r :: t.results }

def sendOn (s : St) (i c : Nat) : St :=
  let m := (s.senders.getD i {}).next
  let (k, r) := transact (getConn s c) i m
  finishSend (updConn s c fun _ => k) i c r

/-- nothing parked: connect, then the transaction -/
def connectFresh (s : St) (i : Nat) : St := sendOn (openConn s).1 i (openConn s).2

/-- `c` was popped (the rest stays parked): probe it; the transaction if it answers, else it is
    closed and the thread is back at the top of the loop -/
def usePopped (s : St) (i c : Nat) (rest : List (Nat × Bool)) : St :=
  let s1 := { s with idle := some rest }
  if (probe (getConn s1 c)).2 then sendOn (updConn s1 c fun _ => (probe (getConn s1 c)).1) i c
  else updConn s1 c fun _ => abortConn (probe (getConn s1 c)).1

/-- `Pool::connection` from the lock to the next point where the thread needs the lock -/
def connectionLock (s : St) (i : Nat) : Option St :=
  match s.senders[i]? with
  | none => none
  | some t =>
    if t.holding.isSome || t.next ≥ s.sends then none else
    match s.idle with
    | none => some (updSender s i fun t => { t with next := t.next + 1, results := .shutdown :: t.results })
    | some [] => some (connectFresh s i)
    | some ((c, _) :: rest) => some (usePopped s i c rest)

/-- `Pool::recycle` once it has the lock -/
def recycleConn (s : St) (c : Nat) : St :=
  match s.idle with
  | none => updConn s c abortConn
  | some l =>
    if l.length ≥ s.maxSize then updConn s c abortConn
    else { s with idle := some ((c, false) :: l) }

def recycleLock (s : St) (who : Nat) : Option St :=
  if s.isAsync then
    match s.recyclers[who]? with
    | some (some c) => some (recycleConn { s with recyclers := s.recyclers.set who none } c)
    | _ => none
  else
    match s.senders[who]? with
    | none => none
    | some t =>
      match t.holding with
      | none => none
      | some c =>
        some (recycleConn (updSender s who fun t => { t with holding := none, next := t.next + 1 }) c)

/-- the maintenance worker goes on creating connections or finishes its pass -/
def maintContinue (s : St) (more : Nat) (dropped : List Nat) : St :=
  match more with
  | 0 => { dropped.foldl (fun s c => updConn s c abortConn) s with maint := .asleep }
  | more + 1 => { (openConn s).1 with maint := .push (openConn s).2 more dropped }

def maintScan (s : St) : Option St :=
  if s.maint != .scan && s.maint != .asleep then none else
  match s.idle with
  | none => some { s with maint := .exited }
  | some l =>
    let dropped := (l.filter (·.2)).map (·.1)
    let keep := l.filter (!·.2)
    let s := { s with idle := some keep }
    some (maintContinue s (s.minIdle - keep.length) dropped)

/-- `cap` = the repaired behaviour: the worker re-checks `max_size` before it parks -/
def maintPush (cap : Bool) (s : St) : Option St :=
  match s.maint with
  | .push c more dropped =>
    match s.idle with
    | none =>
      -- `return`: the fresh connection and the expired ones are dropped as they are
      some { (c :: dropped).foldl (fun s c => updConn s c dropConn) s with maint := .exited }
    | some l =>
      if cap && l.length ≥ s.maxSize then
        some (maintContinue (updConn s c abortConn) 0 dropped)
      else
        some (maintContinue { s with idle := some ((c, false) :: l) } more dropped)
  | _ => none

def shutdownLock (s : St) : St :=
  match s.idle with
  | none => s
  | some l =>
    let s := l.foldl (fun s p => updConn s p.1 abortConn) { s with idle := none }
    -- the worker is woken up (sync) / aborted (tokio) if it sleeps
    { s with maint := if s.maint == .asleep then .exited else s.maint }

/-- more than the idle timeout passes: everything parked is expired, a sleeping worker is back
    at the lock -/
def waitEv (s : St) : St :=
  { s with idle := s.idle.map (·.map fun p => (p.1, true)),
           maint := if s.maint == .asleep then .scan else s.maint }

def capFix : Bool := true

def step (s : St) : Ev → Option St
  | .connectionLock i => connectionLock s i
  | .recycleLock w => recycleLock s w
  | .maintScan => maintScan s
  | .maintPush => maintPush capFix s
  | .shutdownLock => some (shutdownLock s)
  | .wait => some (waitEv s)

def run (s : St) : List Ev → Option St
  | [] => some s
  | e :: es => (step s e).bind (run · es)

/-- the worker, released, completes the pass it is in (scan, connects and pushes) -/
def finishMaint : Nat → St → St
  | 0, s => s
  | fuel + 1, s =>
    match s.maint with
    | .scan => match maintScan s with | some s' => finishMaint fuel s' | none => s
    | .push _ _ _ => match maintPush capFix s with | some s' => finishMaint fuel s' | none => s
    | _ => s

/-- dropping the last handle: a worker that was waiting for the lock completes its pass, then
    `Pool::drop` closes everything that is parked -/
def finish (s : St) : St :=
  let s := finishMaint (s.minIdle + 2) s
  match s.idle with
  | none => s
  | some l => l.foldl (fun s p => updConn s p.1 abortConn) { s with idle := some [] }

def init (isAsync : Bool) (maxSize minIdle sends nSenders : Nat) (plans : List Plan) : St :=
  { isAsync, maxSize, minIdle, sends, idle := some [], conns := [], plans,
    senders := List.replicate nSenders {}, recyclers := [], maint := .scan }

end LV.PoolLts
