import LettreVerif.Props.C16
#print axioms LV.C16.rejoin
#print axioms LV.C16.accepted_safe
#print axioms LV.C16.new_then_parse
#print axioms LV.C16.parse_then_new
#print axioms LV.C16.display_parse
#print axioms LV.C16.command_lines_single_crlf
#print axioms LV.C16.argv_safe
#print axioms LV.C16.envelope_nonempty
#print axioms LV.C16.header_envelope_nonempty
