import LettreVerif.Props.C09
#print axioms LV.C09.shutdown_final
#print axioms LV.C09.shutdown_shuts
#print axioms LV.C09.shutdown_closes_parked
#print axioms LV.C09.closed_stays_closed
#print axioms LV.C09.parked_at_shutdown_closed_for_ever
#print axioms LV.C09.abort_sends_quit
#print axioms LV.C09.shutdown_quits_every_live_parked
#print axioms LV.C09.send_after_shutdown_fails
#print axioms LV.C09.return_after_shutdown_closes
