import LettreVerif.Proofs.Dkim
import LettreVerif.Proofs.Rfc2047Enc
/-!
# C13: the DKIM-Signature field's own contribution to the header hash (relaxed canonicalization)
-/
namespace LV.Dkim
open LV LV.Headers LV.DkimVerifier

/-- CR and LF removed -/
def F (x : Bytes) : Bytes := x.filter fun c => c != 13 && c != 10

theorem F_append (a b : Bytes) : F (a ++ b) = F a ++ F b := by simp [F]

theorem F_cons_keep (c : Byte) (r : Bytes) (h : c ≠ 13 ∧ c ≠ 10) : F (c :: r) = c :: F r := by
  simp [F, h.1, h.2]

/-- on a well-folded value, unfolding just removes the CRs and LFs -/
theorem unfold_eq_F (n : Nat) : ∀ (x : Bytes), x.length ≤ n → wfValue x = true → HeaderReader.unfold x = F x := by
  induction n with
  | zero =>
    intro x hl _
    have : x = [] := List.eq_nil_of_length_eq_zero (by omega)
    subst this; simp [HeaderReader.unfold, F]
  | succ n ih =>
    intro x hl hw
    match x with
    | [] => simp [HeaderReader.unfold, F]
    | e :: r =>
      by_cases he : e = 13
      · subst he
        obtain ⟨c, r', hr, hc, hw'⟩ := wf_13 hw
        subst hr
        have hcc := wsp_ne13 hc
        have hc' : c = 32 ∨ c = 9 := by simpa [DkimVerifier.isWsp] using hc
        rw [HeaderReader.unfold.eq_1]
        simp only [hc', if_true]
        rw [ih (c :: r') (by simp at hl ⊢; omega) hw']
        simp [F]
      · obtain ⟨h10, hw'⟩ := wf_cons_ne13 hw he
        rw [unfold_cons_ne13 _ _ he, ih r (by simp at hl; omega) hw', F_cons_keep _ _ ⟨he, h10⟩]

theorem splitOn_F (sep : Byte) (hs : sep ≠ 13 ∧ sep ≠ 10) : ∀ (x acc : Bytes),
    splitOn sep (F acc) (F x) = (splitOn sep acc x).map F
  | [], acc => by simp [splitOn, F]
  | c :: r, acc => by
    by_cases hc : c = 13 ∨ c = 10
    · have hne : (c == sep) = false := by
        rcases hc with h | h <;> (subst h; simp; intro e; first | exact hs.1 e.symm | exact hs.2 e.symm)
      have hF : F (c :: r) = F r := by rcases hc with h | h <;> (subst h; simp [F])
      have hacc : F (c :: acc) = F acc := by rcases hc with h | h <;> (subst h; simp [F])
      rw [hF, splitOn, hne]
      simp only [Bool.false_eq_true, if_false]
      rw [← splitOn_F sep hs r (c :: acc), hacc]
    · have hk : c ≠ 13 ∧ c ≠ 10 := by
        constructor <;> (intro e; exact hc (by simp [e]))
      rw [F_cons_keep _ _ hk, splitOn, splitOn]
      by_cases hcs : (c == sep) = true
      · simp only [hcs, if_true, List.map_cons]
        rw [← splitOn_F sep hs r []]
        simp [F, List.filter_reverse]
      · simp only [hcs, Bool.false_eq_true, if_false]
        rw [← splitOn_F sep hs r (c :: acc), F_cons_keep _ _ hk]

theorem F_reverse (x : Bytes) : F x.reverse = (F x).reverse := by simp [F, List.filter_reverse]

theorem dropWhile_F : ∀ (x : Bytes), (F x).dropWhile isFws = F (x.dropWhile isFws)
  | [] => by simp [F]
  | c :: r => by
    by_cases hc : c = 13 ∨ c = 10
    · have h1 : F (c :: r) = F r := by rcases hc with h | h <;> (subst h; simp [F])
      have h2 : isFws c = true := by rcases hc with h | h <;> (subst h; decide)
      rw [h1, List.dropWhile_cons, h2, if_pos rfl, dropWhile_F r]
    · have hk : c ≠ 13 ∧ c ≠ 10 := by constructor <;> (intro e; exact hc (by simp [e]))
      rw [F_cons_keep _ _ hk, List.dropWhile_cons, List.dropWhile_cons]
      by_cases hf : isFws c = true
      · rw [if_pos hf, if_pos hf, dropWhile_F r]
      · rw [if_neg hf, if_neg hf, F_cons_keep _ _ hk]

theorem trimFws_F (x : Bytes) : trimFws (F x) = F (trimFws x) := by
  simp only [trimFws]
  rw [dropWhile_F, ← F_reverse, dropWhile_F, F_reverse]

theorem takeWhile_F : ∀ (x : Bytes), (F x).takeWhile (· != 61) = F (x.takeWhile (· != 61))
  | [] => by simp [F]
  | c :: r => by
    by_cases hc : c = 13 ∨ c = 10
    · have h1 : F (c :: r) = F r := by rcases hc with h | h <;> (subst h; simp [F])
      have h2 : (c != 61) = true := by rcases hc with h | h <;> (subst h; decide)
      have h3 : F (c :: r.takeWhile (· != 61)) = F (r.takeWhile (· != 61)) := by rcases hc with h | h <;> (subst h; simp [F])
      rw [h1, List.takeWhile_cons, h2, if_pos rfl, takeWhile_F r, h3]
    · have hk : c ≠ 13 ∧ c ≠ 10 := by constructor <;> (intro e; exact hc (by simp [e]))
      rw [F_cons_keep _ _ hk, List.takeWhile_cons, List.takeWhile_cons]
      by_cases hf : (c != 61) = true
      · rw [if_pos hf, if_pos hf, takeWhile_F r, F_cons_keep _ _ hk]
      · rw [if_neg hf, if_neg hf]; simp [F]

/-- the item is the `b=` tag -/
def isB (it : Bytes) : Bool :=
  match tagOf it with
  | some (n, _) => n == str "b"
  | none => false

theorem drop_takeWhile_length (p : Byte → Bool) : ∀ (x : Bytes), x.drop (x.takeWhile p).length = x.dropWhile p
  | [] => by simp
  | c :: r => by
    by_cases hc : p c = true
    · simp [List.takeWhile_cons, List.dropWhile_cons, hc, drop_takeWhile_length p r]
    · simp [List.takeWhile_cons, List.dropWhile_cons, hc]

theorem take_drop_while (x : Bytes) : x = x.takeWhile (· != 61) ++ x.drop (x.takeWhile (· != 61)).length := by
  rw [drop_takeWhile_length]; exact (List.takeWhile_append_dropWhile).symm

theorem dropWhile_head (x : Bytes) : x.dropWhile (· != 61) = [] ∨ ∃ v, x.dropWhile (· != 61) = 61 :: v := by
  induction x with
  | nil => left; rfl
  | cons c r ih =>
    rw [List.dropWhile_cons]
    split
    · exact ih
    · rename_i hc; right; exact ⟨r, by simp at hc; rw [hc]⟩

theorem drop_head (x : Bytes) : x.drop (x.takeWhile (· != 61)).length = [] ∨
    ∃ v, x.drop (x.takeWhile (· != 61)).length = 61 :: v := by
  rw [drop_takeWhile_length]; exact dropWhile_head x

/-- an item that is the `b=` tag stays one when its CRs and LFs are removed -/
theorem isB_F (it : Bytes) (h : isB it = true) : isB (F it) = true := by
  simp only [isB, tagOf] at h ⊢
  have hsplit := take_drop_while it
  have hF : F it = F (it.takeWhile (· != 61)) ++ F (it.drop (it.takeWhile (· != 61)).length) := by
    conv => lhs; rw [hsplit]
    exact F_append _ _
  rw [takeWhile_F]
  have hdrop : (F it).drop (F (it.takeWhile (· != 61))).length = F (it.drop (it.takeWhile (· != 61)).length) := by
    conv => lhs; rw [hF]
    rw [List.drop_left]
  rw [hdrop]
  rcases drop_head it with h0 | ⟨v, hv⟩
  · rw [h0] at h; simp at h
  · rw [hv] at h ⊢
    simp only [beq_iff_eq] at h
    have : F (61 :: v) = 61 :: F v := F_cons_keep _ _ (by decide)
    rw [this]
    simp only [beq_iff_eq]
    rw [trimFws_F, h]; rfl

/-! ## splitting at `;` -/

def NoSemi (x : Bytes) : Prop := ∀ c ∈ x, c ≠ 59

theorem splitOn_noSemi : ∀ (a acc : Bytes), NoSemi a → splitOn 59 acc a = [acc.reverse ++ a]
  | [], acc, _ => by simp [splitOn]
  | c :: r, acc, h => by
    have hc : (c == 59) = false := by simpa using h c (by simp)
    rw [splitOn, hc]
    simp only [Bool.false_eq_true, if_false]
    rw [splitOn_noSemi r (c :: acc) (fun x hx => h x (by simp [hx]))]
    simp

theorem splitOn_semi : ∀ (a acc b : Bytes), NoSemi a →
    splitOn 59 acc (a ++ 59 :: b) = (acc.reverse ++ a) :: splitOn 59 [] b
  | [], acc, b, _ => by simp [splitOn]
  | c :: r, acc, b, h => by
    have hc : (c == 59) = false := by simpa using h c (by simp)
    rw [List.cons_append, splitOn, hc]
    simp only [Bool.false_eq_true, if_false]
    rw [splitOn_semi r (c :: acc) b (fun x hx => h x (by simp [hx]))]
    simp

theorem splitOn_ne_nil : ∀ (x acc : Bytes), splitOn 59 acc x ≠ []
  | [], acc => by simp [splitOn]
  | c :: r, acc => by
    rw [splitOn]; split
    · simp
    · exact splitOn_ne_nil r (c :: acc)

/-- joining what `splitOn` produced gives the text back -/
theorem join_splitOn : ∀ (x acc : Bytes), ((splitOn 59 acc x).intersperse [59]).flatten = acc.reverse ++ x
  | [], acc => by simp [splitOn]
  | c :: r, acc => by
    rw [splitOn]
    split
    · rename_i hc
      have : c = 59 := by simpa using hc
      subst this
      have ih := join_splitOn r []
      cases hs : splitOn 59 [] r with
      | nil => exact absurd hs (splitOn_ne_nil r [])
      | cons y ys =>
        rw [hs] at ih
        simp only [List.intersperse_cons₂, List.flatten_cons] at ih ⊢
        simp at ih
        simp [ih]
    · rw [join_splitOn r (c :: acc)]; simp

theorem splitOn_append_semi : ∀ (a acc b : Bytes),
    splitOn 59 acc (a ++ 59 :: b) = (splitOn 59 acc a).dropLast ++
      ((splitOn 59 acc a).getLast (splitOn_ne_nil a acc) :: splitOn 59 [] b)
  | [], acc, b => by simp [splitOn]
  | c :: r, acc, b => by
    by_cases hc : (c == 59) = true
    · have ih := splitOn_append_semi r [] b
      simp only [List.cons_append, splitOn, hc, if_true]
      rw [ih]
      have hne := splitOn_ne_nil r []
      rw [List.dropLast_cons_of_ne_nil hne, List.getLast_cons hne]
      simp
    · have ih := splitOn_append_semi r (c :: acc) b
      simp only [List.cons_append, splitOn, hc, Bool.false_eq_true, if_false]
      exact ih

theorem splitOn_append_semi' (a acc b : Bytes) :
    splitOn 59 acc (a ++ 59 :: b) = splitOn 59 acc a ++ splitOn 59 [] b := by
  rw [splitOn_append_semi]
  have := List.dropLast_concat_getLast (splitOn_ne_nil a acc)
  conv => rhs; rw [← this]
  simp

/-- what `deleteB` does to the value of the field -/
def delB (v : Bytes) : Bytes :=
  (((splitOn 59 [] v).map fun it =>
    match tagOf it with
    | some (n, _) => if n == str "b" then it.takeWhile (· != 61) ++ [61] else it
    | none => it).intersperse [59]).flatten

theorem deleteB_eq (f : Field) : deleteB f = fieldName f ++ [58] ++ delB (fieldValue f) := rfl

theorem g_notB (it : Bytes) (h : isB it = false) :
    (match tagOf it with
      | some (n, _) => if n == str "b" then it.takeWhile (· != 61) ++ [61] else it
      | none => it) = it := by
  simp only [isB] at h
  cases ht : tagOf it with
  | none => rfl
  | some p => obtain ⟨n, v⟩ := p; rw [ht] at h; simp only [] at h ⊢; simp [h]

theorem intersperse_snoc (l : List Bytes) (x : Bytes) (hl : l ≠ []) :
    ((l ++ [x]).intersperse [59]).flatten = (l.intersperse [59]).flatten ++ 59 :: x := by
  induction l with
  | nil => exact absurd rfl hl
  | cons a r ih =>
    cases r with
    | nil => simp
    | cons b r' =>
      have := ih (by simp)
      simp only [List.cons_append, List.intersperse_cons₂, List.flatten_cons] at this ⊢
      rw [this]; simp

/-- the tail `X b= sig` of the value, with `X` white space: the item is the `b=` tag and its value is deleted -/
theorem lastItem (X sig : Bytes) (hX : ∀ c ∈ X, isFws c = true) :
    (match tagOf (X ++ 98 :: 61 :: sig) with
      | some (n, _) => if n == str "b" then (X ++ 98 :: 61 :: sig).takeWhile (· != 61) ++ [61] else X ++ 98 :: 61 :: sig
      | none => X ++ 98 :: 61 :: sig) = X ++ [98, 61] := by
  have htw : (X ++ 98 :: 61 :: sig).takeWhile (· != 61) = X ++ [98] := by
    induction X with
    | nil => simp [List.takeWhile_cons]
    | cons c r ih =>
      have hc : c ≠ 61 := by
        have := hX c (by simp)
        intro e; subst e; revert this; decide
      simp only [List.cons_append, List.takeWhile_cons, bne_iff_ne, ne_eq, hc, not_false_eq_true, decide_true, if_true]
      rw [ih (fun x hx => hX x (by simp [hx]))]
  have hdrop : (X ++ 98 :: 61 :: sig).drop (X ++ [98]).length = 61 :: sig := by
    have : X ++ 98 :: 61 :: sig = (X ++ [98]) ++ 61 :: sig := by simp
    rw [this, List.drop_left]
  have htrim : trimFws (X ++ [98]) = str "b" := by
    simp only [trimFws]
    have h1 : ∀ (Y : Bytes), (∀ c ∈ Y, isFws c = true) → (Y ++ [98]).dropWhile isFws = [98] := by
      intro Y hY
      induction Y with
      | nil => decide
      | cons c r ih =>
        rw [List.cons_append, List.dropWhile_cons, hY c (by simp), if_pos rfl]
        exact ih (fun x hx => hY x (by simp [hx]))
    rw [h1 X hX]; decide
  simp only [tagOf, htw, hdrop, htrim, beq_self_eq_true, if_true]
  simp

/-- **deleting the value of `b=`**: when no item before the last is a `b=` tag and the last item is `X b=sig` -/
theorem delB_tail (A X sig : Bytes) (hA : ∀ it ∈ splitOn 59 [] A, isB it = false) (hX : ∀ c ∈ X, isFws c = true)
    (hX59 : NoSemi X) (hs : NoSemi sig) : delB (A ++ 59 :: (X ++ 98 :: 61 :: sig)) = A ++ 59 :: (X ++ [98, 61]) := by
  have hL : NoSemi (X ++ 98 :: 61 :: sig) := by
    intro c hc
    simp only [List.mem_append, List.mem_cons] at hc
    rcases hc with h | h | h | h
    · exact hX59 c h
    · rw [h]; decide
    · rw [h]; decide
    · exact hs c h
  have hsplit : splitOn 59 [] (A ++ 59 :: (X ++ 98 :: 61 :: sig)) = splitOn 59 [] A ++ [X ++ 98 :: 61 :: sig] := by
    rw [splitOn_append_semi, splitOn_noSemi _ [] hL]
    simp only [List.reverse_nil, List.nil_append]
    have := List.dropLast_concat_getLast (splitOn_ne_nil A [])
    conv => rhs; rw [← this]
    simp
  simp only [delB, hsplit, List.map_append, List.map_cons, List.map_nil]
  rw [lastItem X sig hX]
  have hmap : (splitOn 59 [] A).map (fun it =>
      match tagOf it with
      | some (n, _) => if n == str "b" then it.takeWhile (· != 61) ++ [61] else it
      | none => it) = splitOn 59 [] A := by
    have hgen : ∀ (l : List Bytes), (∀ it ∈ l, isB it = false) → l.map (fun it =>
        match tagOf it with
        | some (n, _) => if n == str "b" then it.takeWhile (· != 61) ++ [61] else it
        | none => it) = l := by
      intro l hl
      induction l with
      | nil => rfl
      | cons a r ih =>
        rw [List.map_cons, g_notB a (hl a (by simp)), ih (fun x hx => hl x (by simp [hx]))]
    exact hgen _ hA
  rw [hmap, intersperse_snoc _ _ (splitOn_ne_nil A []), join_splitOn]
  simp

/-! ## the tag list lettre writes -/

/-- the items of the tag list before `b=`, as lettre writes them (each starts with the space that follows the `;`) -/
def tagItems (cfg : Cfg) (ts : Nat) (bh : Bytes) : List Bytes :=
  [str " v=1", str " a=" ++ cfg.alg ++ str "-sha256", str " d=" ++ cfg.domain, str " s=" ++ cfg.selector,
   str " c=" ++ canonName cfg.hc ++ [47] ++ canonName cfg.bc, str " q=dns/txt", str " t=" ++ natDec ts,
   str " h=" ++ hList cfg, str " bh=" ++ bh]

def joinSemi : List Bytes → Bytes
  | [] => []
  | [x] => x
  | x :: xs => x ++ 59 :: joinSemi xs

theorem headerValue_eq (cfg : Cfg) (ts : Nat) (bh sig : Bytes) :
    32 :: headerValue cfg ts bh sig = joinSemi (tagItems cfg ts bh) ++ 59 :: (32 :: 98 :: 61 :: sig) := by
  simp only [headerValue, tagItems, joinSemi]
  have e1 : str "v=1; a=" = str "v=1" ++ 59 :: str " a=" := by decide
  have e2 : str "-sha256; d=" = str "-sha256" ++ 59 :: str " d=" := by decide
  have e3 : str "; s=" = 59 :: str " s=" := by decide
  have e4 : str "; c=" = 59 :: str " c=" := by decide
  have e5 : str "; q=dns/txt; t=" = 59 :: str " q=dns/txt" ++ 59 :: str " t=" := by decide
  have e6 : str "; h=" = 59 :: str " h=" := by decide
  have e7 : str "; bh=" = 59 :: str " bh=" := by decide
  have e8 : str "; b=" = 59 :: 32 :: 98 :: 61 :: [] := by decide
  have e9 : str " v=1" = 32 :: str "v=1" := by decide
  rw [e1, e2, e3, e4, e5, e6, e7, e8, e9]
  simp [List.append_assoc]

theorem splitOn_joinSemi : ∀ (l : List Bytes), l ≠ [] → (∀ x ∈ l, NoSemi x) → splitOn 59 [] (joinSemi l) = l
  | [], h, _ => absurd rfl h
  | [x], _, hn => by simp [joinSemi, splitOn_noSemi x [] (hn x (by simp))]
  | x :: y :: r, _, hn => by
    simp only [joinSemi]
    rw [splitOn_semi x [] _ (hn x (by simp)), splitOn_joinSemi (y :: r) (by simp) (fun z hz => hn z (by simp [hz]))]
    simp

/-- an item ` name=…` is the tag `name` -/
theorem isB_item (name rest : Bytes) (hn : ∀ c ∈ name, c ≠ 61) :
    isB (32 :: name ++ 61 :: rest) = (trimFws (32 :: name) == str "b") := by
  have htw : (32 :: name ++ 61 :: rest).takeWhile (· != 61) = 32 :: name := by
    have : ∀ (nm : Bytes), (∀ c ∈ nm, c ≠ 61) → (nm ++ 61 :: rest).takeWhile (· != 61) = nm := by
      intro nm h
      induction nm with
      | nil => simp [List.takeWhile_cons]
      | cons c r ih =>
        have hc : c ≠ 61 := h c (by simp)
        simp only [List.cons_append, List.takeWhile_cons, bne_iff_ne, ne_eq, hc, not_false_eq_true, decide_true, if_true]
        rw [ih (fun x hx => h x (by simp [hx]))]
    have h2 := this (32 :: name) (by intro c hc; rcases List.mem_cons.mp hc with e | e; rw [e]; decide; exact hn c e)
    simpa using h2
  have hdrop : (32 :: name ++ 61 :: rest).drop (32 :: name).length = 61 :: rest := by
    have : 32 :: name ++ 61 :: rest = (32 :: name) ++ 61 :: rest := by simp
    rw [this, List.drop_left]
  simp only [isB, tagOf, htw, hdrop]

theorem digit_bytes (c : Char) (h : c.isDigit = true) : ∀ b ∈ (String.utf8EncodeChar c), 48 ≤ b.toNat ∧ b.toNat ≤ 57 := by
  have hc : 48 ≤ c.val.toNat ∧ c.val.toNat ≤ 57 := by
    simp only [Char.isDigit, Bool.and_eq_true, decide_eq_true_eq] at h
    exact ⟨h.1, h.2⟩
  have h1 : c.val.toNat ≤ 127 := by omega
  intro b hb
  simp only [String.utf8EncodeChar, h1, if_true, List.mem_singleton] at hb
  subst hb
  have : (UInt8.ofNat c.val.toNat).toNat = c.val.toNat := by
    rw [UInt8.toNat_ofNat']; omega
  omega

theorem utf8Encode_digits : ∀ (l : List Char), (∀ c ∈ l, c.isDigit = true) →
    ∀ b ∈ l.utf8Encode.data.toList, 48 ≤ b.toNat ∧ b.toNat ≤ 57
  | [], _, b, hb => by simp [List.utf8Encode_nil] at hb
  | c :: r, h, b, hb => by
    rw [List.utf8Encode_cons, List.utf8Encode_singleton] at hb
    simp only [ByteArray.data_append, Array.toList_append, List.mem_append, List.toList_data_toByteArray] at hb
    rcases hb with hb | hb
    · exact digit_bytes c (h c (by simp)) b hb
    · exact utf8Encode_digits r (fun x hx => h x (by simp [hx])) b hb

theorem natDec_digits (n : Nat) : ∀ b ∈ natDec n, 48 ≤ b.toNat ∧ b.toNat ≤ 57 := by
  intro b hb
  simp only [natDec, Nat.toString_eq_ofList_toDigits, String.toUTF8, String.toByteArray_ofList] at hb
  exact utf8Encode_digits _ (fun c hc => Nat.isDigit_of_mem_toDigits (by decide) (by decide) hc) b hb

/-- what the configuration contributes to the tag list contains no `;` -/
structure CfgOk (cfg : Cfg) (bh : Bytes) : Prop where
  alg : NoSemi cfg.alg
  domain : NoSemi cfg.domain
  selector : NoSemi cfg.selector
  names : NoSemi (hList cfg)
  bh : NoSemi bh

theorem noSemi_append (a b : Bytes) (ha : NoSemi a) (hb : NoSemi b) : NoSemi (a ++ b) := by
  intro c hc; rcases List.mem_append.mp hc with h | h; exact ha c h; exact hb c h

theorem noSemi_canon (c : Canon) : NoSemi (canonName c) := by cases c <;> (intro x hx; revert x; decide)

theorem tagItems_noSemi (cfg : Cfg) (ts : Nat) (bh : Bytes) (h : CfgOk cfg bh) : ∀ it ∈ tagItems cfg ts bh, NoSemi it := by
  have lit : ∀ (s : Bytes), (∀ c ∈ s, c ≠ 59) → NoSemi s := fun _ h => h
  intro it hit
  simp only [tagItems, List.mem_cons, List.not_mem_nil, or_false] at hit
  rcases hit with rfl | rfl | rfl | rfl | rfl | rfl | rfl | rfl | rfl
  · exact lit _ (by decide)
  · exact noSemi_append _ _ (noSemi_append _ _ (lit _ (by decide)) h.alg) (lit _ (by decide))
  · exact noSemi_append _ _ (lit _ (by decide)) h.domain
  · exact noSemi_append _ _ (lit _ (by decide)) h.selector
  · exact noSemi_append _ _ (noSemi_append _ _ (noSemi_append _ _ (lit _ (by decide)) (noSemi_canon _)) (lit _ (by decide))) (noSemi_canon _)
  · exact lit _ (by decide)
  · exact noSemi_append _ _ (lit _ (by decide)) (fun c hc => by have := natDec_digits ts c hc; intro e; subst e; revert this; decide)
  · exact noSemi_append _ _ (lit _ (by decide)) h.names
  · exact noSemi_append _ _ (lit _ (by decide)) h.bh

theorem tagItems_notB (cfg : Cfg) (ts : Nat) (bh : Bytes) : ∀ it ∈ tagItems cfg ts bh, isB it = false := by
  intro it hit
  simp only [tagItems, List.mem_cons, List.not_mem_nil, or_false] at hit
  have key : ∀ (name rest : Bytes), (∀ c ∈ name, c ≠ 61) → (trimFws (32 :: name) == str "b") = false →
      isB (32 :: name ++ 61 :: rest) = false := fun name rest hn hb => by rw [isB_item name rest hn, hb]
  rcases hit with rfl | rfl | rfl | rfl | rfl | rfl | rfl | rfl | rfl
  · exact key [118] [49] (by decide) (by decide)
  · have e : str " a=" ++ cfg.alg ++ str "-sha256" = 32 :: [97] ++ 61 :: (cfg.alg ++ str "-sha256") := by
      have : str " a=" = [32, 97, 61] := by decide
      rw [this]; simp
    rw [e]; exact key [97] _ (by decide) (by decide)
  · have e : str " d=" ++ cfg.domain = 32 :: [100] ++ 61 :: cfg.domain := by
      have : str " d=" = [32, 100, 61] := by decide
      rw [this]; simp
    rw [e]; exact key [100] _ (by decide) (by decide)
  · have e : str " s=" ++ cfg.selector = 32 :: [115] ++ 61 :: cfg.selector := by
      have : str " s=" = [32, 115, 61] := by decide
      rw [this]; simp
    rw [e]; exact key [115] _ (by decide) (by decide)
  · have e : str " c=" ++ canonName cfg.hc ++ [47] ++ canonName cfg.bc = 32 :: [99] ++ 61 :: (canonName cfg.hc ++ [47] ++ canonName cfg.bc) := by
      have : str " c=" = [32, 99, 61] := by decide
      rw [this]; simp
    rw [e]; exact key [99] _ (by decide) (by decide)
  · exact key [113] (str "dns/txt") (by decide) (by decide)
  · have e : str " t=" ++ natDec ts = 32 :: [116] ++ 61 :: natDec ts := by
      have : str " t=" = [32, 116, 61] := by decide
      rw [this]; simp
    rw [e]; exact key [116] _ (by decide) (by decide)
  · have e : str " h=" ++ hList cfg = 32 :: [104] ++ 61 :: hList cfg := by
      have : str " h=" = [32, 104, 61] := by decide
      rw [this]; simp
    rw [e]; exact key [104] _ (by decide) (by decide)
  · have e : str " bh=" ++ bh = 32 :: [98, 104] ++ 61 :: bh := by
      have : str " bh=" = [32, 98, 104, 61] := by decide
      rw [this]; simp
    rw [e]; exact key [98, 104] _ (by decide) (by decide)

end LV.Dkim

namespace LV.HeaderEnc
open LV LV.HeaderReader

theorem flushBuf_nil (w : W) : flushBuf w [] = w := by simp [flushBuf]

/-- words that are written as they are -/
def PlainWord (w : Bytes) : Prop := w.all (allowedChar true) = true ∧ hasEncMarker w = false

theorem view_hvWords_plain : ∀ (ws : List Bytes) (w : W), Inv w → (∀ x ∈ ws, PlainWord x) →
    (hvWords opts w [] ws).view = w.view ++ ws.flatten ∧ Inv (hvWords opts w [] ws)
  | [], w, hi, _ => by simp [hvWords, flushBuf_nil, hi]
  | x :: ws, w, hi, h => by
    obtain ⟨h1, h2⟩ := h x (by simp)
    have hplain := allowed_plain x h1
    have hcond : (x.all (allowedChar opts.printableOnly) && !(opts.guardEncoded && hasEncMarker x) &&
        !(opts.guardEncoded && !([] : Bytes).isEmpty && x.all fun b => b == 32 || b == 9)) = true := by
      simp [opts, h1, h2]
    have hi' := inv_foldWrite hi x hplain
    obtain ⟨ih1, ih2⟩ := view_hvWords_plain ws (foldWrite w x) hi' (fun y hy => h y (by simp [hy]))
    simp only [hvWords, hcond, if_true, flushBuf_nil]
    exact ⟨by rw [ih1, view_foldWrite hi x hplain]; simp, ih2⟩

/-- **folding is transparent**: a value all of whose words are printable ASCII (and not of the shape `=?…?=`) is
    written without any encoding, and an RFC 5322 reader that unfolds the field body reads exactly the value -/
theorem unfold_encodeValue_plain (n : Nat) (value : Bytes) (h : ∀ x ∈ splitInclusive [] value, PlainWord x) :
    unfold (encodeValue opts n value) = value := by
  have hi : Inv (⟨[], n + 2, 0, false⟩ : W) := Or.inl rfl
  obtain ⟨hv, _⟩ := view_hvWords_plain (splitInclusive [] value) _ hi h
  unfold encodeValue
  rw [out_flush]
  have e0 : (⟨[], n + 2, 0, false⟩ : W).view = [] := by simp [W.view, W.out, W.bytes, unfold]
  rw [splitInclusive_flatten, e0] at hv
  simpa [W.view] using hv


/-! ## the last word of a value -/

theorem foldGo_token : ∀ (t tok : Bytes) (w : W), (∀ c ∈ t, c ≠ 32) →
    foldGo w tok t = if (tok.reverse ++ t).isEmpty then w else w.emitTok (tok.reverse ++ t)
  | [], tok, w, _ => by
    simp only [foldGo, List.append_nil, List.isEmpty_reverse]
  | c :: r, tok, w, h => by
    have hc : (c == 32) = false := by simpa using h c (by simp)
    rw [foldGo, hc]
    simp only [Bool.false_eq_true, if_false]
    rw [foldGo_token r (c :: tok) w (fun x hx => h x (by simp [hx]))]
    simp

theorem splitInclusive_snoc : ∀ (p acc t : Bytes), (∀ c ∈ t, c ≠ 32) → t ≠ [] →
    splitInclusive acc (p ++ 32 :: t) = splitInclusive acc (p ++ [32]) ++ [t]
  | [], acc, t, ht, hne => by
    have hsp : ∀ (t' a : Bytes), (∀ c ∈ t', c ≠ 32) → splitInclusive a t' = if (a.reverse ++ t').isEmpty then [] else [a.reverse ++ t'] := by
      intro t'
      induction t' with
      | nil => intro a _; simp [splitInclusive]
      | cons c r ih =>
        intro a h
        have hc : (c == 32) = false := by simpa using h c (by simp)
        rw [splitInclusive, hc]
        simp only [Bool.false_eq_true, if_false]
        rw [ih (c :: a) (fun x hx => h x (by simp [hx]))]
        simp
    simp only [List.nil_append, splitInclusive, beq_self_eq_true, if_true]
    rw [hsp t [] ht]
    have : t.isEmpty = false := by simpa using hne
    simp [this]
  | c :: r, acc, t, ht, hne => by
    simp only [List.cons_append, splitInclusive]
    split
    · rw [splitInclusive_snoc r [] t ht hne]; simp
    · exact splitInclusive_snoc r (c :: acc) t ht hne

/-- before the last word is written: the writer holds everything up to that word; the word follows, after a new line if
    it does not fit -/
theorem hv_last (t : Bytes) (ht : ∀ c ∈ t, c ≠ 32) (hne : t ≠ []) (hp : PlainWord t) : ∀ (ws : List Bytes) (w : W),
    Inv w → (∀ x ∈ ws, PlainWord x) →
    ∃ w1, Inv w1 ∧ w1.view = w.view ++ ws.flatten ∧ (hvWords opts w [] (ws ++ [t])).out = w1.out ++ t
  | [], w, hi, _ => by
    have hplain := allowed_plain t hp.1
    have hcond : (t.all (allowedChar opts.printableOnly) && !(opts.guardEncoded && hasEncMarker t) &&
        !(opts.guardEncoded && !([] : Bytes).isEmpty && t.all fun b => b == 32 || b == 9)) = true := by
      simp [opts, hp.1, hp.2]
    have hfw : foldWrite w t = w.emitTok t := by
      have := foldGo_token t [] w ht
      have hte : t.isEmpty = false := by simpa using hne
      simpa [foldWrite, hte] using this
    simp only [List.nil_append, hvWords, hcond, if_true, flushBuf_nil, hfw]
    unfold W.emitTok
    simp only
    split
    · rename_i hc
      simp only [Bool.and_eq_true, decide_eq_true_eq] at hc
      rcases hi with h | ⟨_, _, h3, _⟩
      · exact ⟨w.newLine, inv_newLine h hc.1.2, by simp [view_newLine h hc.1.2], out_writeStr _ _⟩
      · simp [h3] at hc
    · exact ⟨w, hi, by simp, out_writeStr _ _⟩
  | x :: ws, w, hi, h => by
    obtain ⟨h1, h2⟩ := h x (by simp)
    have hplain := allowed_plain x h1
    have hcond : (x.all (allowedChar opts.printableOnly) && !(opts.guardEncoded && hasEncMarker x) &&
        !(opts.guardEncoded && !([] : Bytes).isEmpty && x.all fun b => b == 32 || b == 9)) = true := by
      simp [opts, h1, h2]
    obtain ⟨w1, hi1, hv1, ho1⟩ := hv_last t ht hne hp ws (foldWrite w x) (inv_foldWrite hi x hplain) (fun y hy => h y (by simp [hy]))
    refine ⟨w1, hi1, ?_, ?_⟩
    · rw [hv1, view_foldWrite hi x hplain]; simp
    · simp only [List.cons_append, hvWords, hcond, if_true, flushBuf_nil]
      exact ho1

/-- a value `p ␠ t` whose last word `t` has no space: the encoded value is what was written for `p ␠`, then (after a
    new line if `t` does not fit) `t` itself -/
theorem encodeValue_last (n : Nat) (p t : Bytes) (ht : ∀ c ∈ t, c ≠ 32) (hne : t ≠ []) (hp : PlainWord t)
    (hws : ∀ x ∈ splitInclusive [] (p ++ [32]), PlainWord x) :
    ∃ w1, Inv w1 ∧ w1.view = p ++ [32] ∧ encodeValue opts n (p ++ 32 :: t) = w1.out ++ t := by
  have hi : Inv (⟨[], n + 2, 0, false⟩ : W) := Or.inl rfl
  obtain ⟨w1, hi1, hv1, ho1⟩ := hv_last t ht hne hp (splitInclusive [] (p ++ [32])) _ hi hws
  refine ⟨w1, hi1, ?_, ?_⟩
  · have e0 : (⟨[], n + 2, 0, false⟩ : W).view = [] := by simp [W.view, W.out, W.bytes, unfold]
    rw [hv1, e0, splitInclusive_flatten]; simp
  · unfold encodeValue
    rw [out_flush, splitInclusive_snoc p [] t ht hne]
    exact ho1

end LV.HeaderEnc

namespace LV.Dkim
open LV LV.Headers LV.DkimVerifier LV.HeaderEnc

theorem splitOn_append_noSemi : ∀ (c acc t : Bytes), NoSemi t →
    splitOn 59 acc (c ++ t) = (splitOn 59 acc c).dropLast ++ [(splitOn 59 acc c).getLast (splitOn_ne_nil c acc) ++ t]
  | [], acc, t, ht => by simp [splitOn, splitOn_noSemi t acc ht]
  | x :: r, acc, t, ht => by
    by_cases hx : (x == 59) = true
    · have ih := splitOn_append_noSemi r [] t ht
      have hne := splitOn_ne_nil r []
      simp only [List.cons_append, splitOn, hx, if_true]
      rw [ih, List.dropLast_cons_of_ne_nil hne, List.getLast_cons hne]
      simp
    · simp only [List.cons_append, splitOn, hx, Bool.false_eq_true, if_false]
      exact splitOn_append_noSemi r (x :: acc) t ht

theorem F_nil_fws (z : Bytes) (h : ∀ c ∈ F z, c = 32) : (∀ c ∈ z, isFws c = true) ∧ NoSemi z := by
  constructor
  · intro c hc
    by_cases hk : c = 13 ∨ c = 10
    · rcases hk with e | e <;> (subst e; decide)
    · have : c ∈ F z := by
        simp only [F, List.mem_filter, Bool.and_eq_true, bne_iff_ne, ne_eq]
        exact ⟨hc, fun e => hk (Or.inl e), fun e => hk (Or.inr e)⟩
      rw [h c this]; decide
  · intro c hc e
    subst e
    have : (59 : Byte) ∈ F z := by
      simp only [F, List.mem_filter, Bool.and_eq_true, bne_iff_ne, ne_eq]
      exact ⟨hc, by decide, by decide⟩
    have := h 59 this
    revert this; decide

/-- **deleting the value of `b=` on the folded field**: `c` is everything before `b=`; with CRs and LFs removed it is the
    tag list lettre writes, up to and including `; ` -/
theorem delB_folded (c sig : Bytes) (items : List Bytes) (hne : items ≠ []) (hns : ∀ it ∈ items, NoSemi it)
    (hnb : ∀ it ∈ items, isB it = false) (hF : F c = joinSemi items ++ 59 :: [32]) (hs : NoSemi sig) :
    delB (c ++ 98 :: 61 :: sig) = c ++ [98, 61] := by
  have hmapF : (splitOn 59 [] c).map F = items ++ [[32]] := by
    have := splitOn_F 59 (by decide) c []
    have e0 : F [] = [] := rfl
    rw [e0, hF] at this
    rw [← this, splitOn_append_semi', splitOn_joinSemi items hne hns, splitOn_noSemi [32] [] (by intro x hx; simp at hx; subst hx; decide)]
    simp
  have hLne := splitOn_ne_nil c []
  have hL := List.dropLast_concat_getLast hLne
  generalize hinit : (splitOn 59 [] c).dropLast = init at hL
  generalize hz : (splitOn 59 [] c).getLast hLne = z at hL
  have hmap2 : init.map F ++ [F z] = items ++ [[32]] := by rw [← hmapF, ← hL]; simp
  obtain ⟨hi1, hi2⟩ := List.append_inj' hmap2 rfl
  have hz32 : F z = [32] := by simpa using hi2
  obtain ⟨hzf, hzs⟩ := F_nil_fws z (by intro x hx; rw [hz32] at hx; simpa using hx)
  have hinb : ∀ it ∈ init, isB it = false := by
    intro it hit
    have hm : F it ∈ items := by rw [← hi1]; exact List.mem_map.mpr ⟨it, hit, rfl⟩
    cases hb : isB it with
    | false => rfl
    | true => have := isB_F it hb; rw [hnb _ hm] at this; cases this
  have hinit_ne : init ≠ [] := by
    intro e; rw [e] at hi1; simp at hi1; exact hne hi1
  have htail : NoSemi (98 :: 61 :: sig) := by
    intro x hx
    rcases List.mem_cons.mp hx with e | hx
    · rw [e]; decide
    · rcases List.mem_cons.mp hx with e | hx
      · rw [e]; decide
      · exact hs x hx
  have hsplit : splitOn 59 [] (c ++ 98 :: 61 :: sig) = init ++ [z ++ 98 :: 61 :: sig] := by
    rw [splitOn_append_noSemi c [] _ htail, hinit, hz]
  have hc : c = (init.intersperse [59]).flatten ++ 59 :: z := by
    have := join_splitOn c []
    rw [← hL, intersperse_snoc _ _ hinit_ne] at this
    simpa using this.symm
  simp only [delB, hsplit, List.map_append, List.map_cons, List.map_nil]
  rw [lastItem z sig hzf]
  have hgen : ∀ (l : List Bytes), (∀ it ∈ l, isB it = false) → l.map (fun it =>
      match tagOf it with
      | some (n, _) => if n == str "b" then it.takeWhile (· != 61) ++ [61] else it
      | none => it) = l := by
    intro l hl
    induction l with
    | nil => rfl
    | cons a r ih => rw [List.map_cons, g_notB a (hl a (by simp)), ih (fun x hx => hl x (by simp [hx]))]
  rw [hgen init hinb, intersperse_snoc _ _ hinit_ne]
  conv => rhs; rw [hc]
  simp [List.append_assoc]

/-- a scanned (well-folded, printable) text is a folded value in the sense of `wfValue` -/
theorem wf_of_scan (n : Nat) : ∀ (x : Bytes), x.length ≤ n → scan .norm x = some .norm → wfValue x = true := by
  induction n with
  | zero =>
    intro x hl _
    have : x = [] := List.eq_nil_of_length_eq_zero (by omega)
    subst this; rfl
  | succ n ih =>
    intro x hl hs
    match x with
    | [] => rfl
    | e :: r =>
      by_cases he : e = 13
      · subst he
        match r with
        | [] => simp [scan, scStep] at hs
        | y :: r' =>
          have hy : y = 10 := by
            apply Classical.byContradiction; intro hne
            simp [scan, scStep, hne] at hs
          subst hy
          match r' with
          | [] => simp [scan, scStep] at hs
          | z :: r3 =>
            have hz : z = 32 := by
              apply Classical.byContradiction; intro hne
              simp [scan, scStep, hne] at hs
            subst hz
            have hs3 : scan .norm r3 = some .norm := by simpa [scan, scStep] using hs
            have ih3 := ih r3 (by simp at hl; omega) hs3
            have : wfValue (32 :: r3) = true := wf_cons_wsp 32 r3 (by decide) ih3
            simp [wfValue, Dkim.isWsp, this]
      · have hp : printable e = true := by
          apply Classical.byContradiction; intro hnp
          simp [scan, scStep, he, hnp] at hs
        have hs' : scan .norm r = some .norm := by simpa [scan, scStep, he, hp] using hs
        have ih' := ih r (by simp at hl; omega) hs'
        have h10 : e ≠ 10 := by intro e10; subst e10; revert hp; decide
        rw [wfValue]
        · exact ih'
        all_goals (intros; simp_all)

/-- everything before ` b=` in the value: the tag list up to and including the last `;` -/
def valuePrefix (cfg : Cfg) (ts : Nat) (bh : Bytes) : Bytes :=
  (joinSemi (tagItems cfg ts bh)).tail ++ [59]

theorem joinSemi_head (cfg : Cfg) (ts : Nat) (bh : Bytes) :
    joinSemi (tagItems cfg ts bh) = 32 :: (joinSemi (tagItems cfg ts bh)).tail := by
  have : str " v=1" = 32 :: str "v=1" := by decide
  simp [tagItems, joinSemi, this]

theorem headerValue_split (cfg : Cfg) (ts : Nat) (bh sig : Bytes) :
    headerValue cfg ts bh sig = valuePrefix cfg ts bh ++ 32 :: (98 :: 61 :: sig) := by
  have h := headerValue_eq cfg ts bh sig
  rw [joinSemi_head] at h
  simp only [List.cons_append, List.cons.injEq, true_and] at h
  rw [h, valuePrefix]; simp

theorem F_spaceless (x : Bytes) (h : ∀ c ∈ x, c ≠ 13 ∧ c ≠ 10) : F x = x := by
  simp only [F]
  apply List.filter_eq_self.mpr
  intro c hc
  simp [(h c hc).1, (h c hc).2]

theorem sigTail_plain (sig : Bytes) (hsig : ∀ c ∈ sig, BodyEnc.b64Char c) :
    (∀ c ∈ (98 :: 61 :: sig), c ≠ 32) ∧ PlainWord (98 :: 61 :: sig) ∧ NoSemi sig := by
  have hp := fun c hc => BodyEnc.b64Char_props c (hsig c hc)
  have hpr : ∀ c ∈ sig, printable c = true := by
    intro c hc
    have := hsig c hc
    simp only [printable, Bool.or_eq_true, beq_iff_eq, Bool.and_eq_true, decide_eq_true_eq]
    unfold BodyEnc.b64Char at this
    omega
  refine ⟨?_, ⟨?_, ?_⟩, ?_⟩
  · intro c hc
    rcases List.mem_cons.mp hc with e | hc
    · rw [e]; decide
    · rcases List.mem_cons.mp hc with e | hc
      · rw [e]; decide
      · exact (hp c hc).2.2.1
  · simp only [List.all_cons, Bool.and_eq_true, List.all_eq_true]
    refine ⟨by decide, by decide, ?_⟩
    intro c hc
    have := hpr c hc
    simpa [allowedChar, printable] using this
  · -- the only token starts with `b`, not with `=?`
    have hws : ∀ (t cur : Bytes), (∀ c ∈ t, c ≠ 32 ∧ c ≠ 9) → wsTokens cur t = [cur.reverse ++ t] := by
      intro t
      induction t with
      | nil => intro cur _; simp [wsTokens]
      | cons c r ih =>
        intro cur h
        have hc := h c (by simp)
        rw [wsTokens]
        have : (c == 32 || c == 9) = false := by simp [hc.1, hc.2]
        simp only [this, Bool.false_eq_true, if_false]
        rw [ih (c :: cur) (fun x hx => h x (by simp [hx]))]; simp
    have hno : ∀ c ∈ (98 :: 61 :: sig), c ≠ 32 ∧ c ≠ 9 := by
      intro c hc
      rcases List.mem_cons.mp hc with e | hc
      · rw [e]; decide
      · rcases List.mem_cons.mp hc with e | hc
        · rw [e]; decide
        · exact ⟨(hp c hc).2.2.1, (hp c hc).2.2.2.1⟩
    simp only [hasEncMarker, hws _ [] hno, List.reverse_nil, List.nil_append, List.any_cons, List.any_nil, Bool.or_false]
    simp [List.isPrefixOf]
  · intro c hc e
    subst e
    have := hsig 59 hc
    revert this; unfold BodyEnc.b64Char; decide

/-- **the signature field, relaxed**: what a verifier hashes for the DKIM-Signature field it received — the value of
    `b=` deleted, then RFC 6376 §3.4.2 — is the canonical form of the field the signer hashed (the same tag list with
    an empty `b=`, under the lower-case name), however lettre folded the two. Hypotheses: the configuration's strings
    contain no `;`, the words of the value are printable ASCII and not of the shape `=?…?=`, and the signature is
    base64 text. -/
theorem sig_field_canon_agrees (cfg : Cfg) (ts : Nat) (bh sig : Bytes) (hcfg : CfgOk cfg bh)
    (hplain : ∀ x ∈ splitInclusive [] (headerValue cfg ts bh []), PlainWord x)
    (hsig : ∀ c ∈ sig, BodyEnc.b64Char c) :
    relaxedField (deleteB (fld (HV.new sigName (headerValue cfg ts bh sig)))) =
      relaxedField (fld (HV.new (lowerName sigName) (headerValue cfg ts bh []))) := by
  -- the two values, split before their last word
  have hS := headerValue_split cfg ts bh sig
  have hS0 := headerValue_split cfg ts bh []
  generalize hpdef : valuePrefix cfg ts bh = p at hS hS0
  obtain ⟨ht32, htp, hsigns⟩ := sigTail_plain sig hsig
  obtain ⟨ht032, ht0p, _⟩ := sigTail_plain [] (by intro c hc; simp at hc)
  have hwsP : ∀ x ∈ splitInclusive [] (p ++ [32]), PlainWord x := by
    intro x hx
    apply hplain x
    rw [hS0, splitInclusive_snoc p [] _ ht032 (by simp)]
    exact List.mem_append_left _ hx
  obtain ⟨w1, hi1, hv1, he1⟩ := encodeValue_last sigName.length p (98 :: 61 :: sig) ht32 (by simp) htp hwsP
  obtain ⟨w0, hi0, hv0, he0⟩ := encodeValue_last (lowerName sigName).length p (98 :: 61 :: []) ht032 (by simp) ht0p hwsP
  -- names
  have hnS : NameOk (HV.new sigName (headerValue cfg ts bh sig)) :=
    ⟨by show ∀ c ∈ sigName, c ≠ 58; decide, by show stripTrailingWsp sigName = sigName; decide⟩
  have hn0 : NameOk (HV.new (lowerName sigName) (headerValue cfg ts bh [])) :=
    ⟨by show ∀ c ∈ lowerName sigName, c ≠ 58; decide, by show stripTrailingWsp (lowerName sigName) = lowerName sigName; decide⟩
  -- the verifier's side
  have hencS : (HV.new sigName (headerValue cfg ts bh sig)).encoded = w1.out ++ 98 :: 61 :: sig := by
    simp only [HV.new]; rw [hS]; exact he1
  have henc0 : (HV.new (lowerName sigName) (headerValue cfg ts bh [])).encoded = w0.out ++ [98, 61] := by
    simp only [HV.new]; rw [hS0]; exact he0
  have hFc : F (32 :: w1.out) = joinSemi (tagItems cfg ts bh) ++ 59 :: [32] := by
    have hwf := wf_of_scan _ w1.out (Nat.le_refl _) (view_scan hi1)
    rw [F_cons_keep 32 _ (by decide), ← unfold_eq_F _ _ (Nat.le_refl _) hwf]
    have : HeaderReader.unfold w1.out = w1.view := rfl
    rw [this, hv1, ← hpdef, valuePrefix, joinSemi_head]
    simp
  have hdel : deleteB (fld (HV.new sigName (headerValue cfg ts bh sig))) =
      sigName ++ [58] ++ ((32 :: w1.out) ++ [98, 61]) := by
    rw [deleteB_eq, fieldName_fld _ hnS, fieldValue_fld _ hnS, hencS]
    have : 32 :: (w1.out ++ 98 :: 61 :: sig) = (32 :: w1.out) ++ 98 :: 61 :: sig := by simp
    rw [this, delB_folded (32 :: w1.out) sig (tagItems cfg ts bh) (by simp [tagItems])
      (tagItems_noSemi cfg ts bh hcfg) (tagItems_notB cfg ts bh) hFc hsigns]
    rfl
  -- both sides unfold to the same text
  have hun1 : HeaderReader.unfold ((32 :: w1.out) ++ [98, 61]) = 32 :: (p ++ 32 :: [98, 61]) := by
    have : (32 :: w1.out) ++ [98, 61] = 32 :: (w1.out ++ [98, 61]) := by simp
    rw [this, unfold_cons_ne13 32 _ (by decide), HeaderEnc.unfold_append _ _ _ (Nat.le_refl _) (view_scan hi1),
      unfold_plain [98, 61] (by intro b hb; revert b; decide)]
    have : HeaderReader.unfold w1.out = w1.view := rfl
    rw [this, hv1]; simp
  have hun0 : HeaderReader.unfold (32 :: (w0.out ++ [98, 61])) = 32 :: (p ++ 32 :: [98, 61]) := by
    rw [unfold_cons_ne13 32 _ (by decide), HeaderEnc.unfold_append _ _ _ (Nat.le_refl _) (view_scan hi0),
      unfold_plain [98, 61] (by intro b hb; revert b; decide)]
    have : HeaderReader.unfold w0.out = w0.view := rfl
    rw [this, hv0]; simp
  -- the field names
  have hfn : fieldName (sigName ++ [58] ++ ((32 :: w1.out) ++ [98, 61])) = sigName := by
    have := takeWhile_name sigName ((32 :: w1.out) ++ [98, 61]) (by decide)
    simpa [fieldName, List.append_assoc] using this.1
  have hfv : fieldValue (sigName ++ [58] ++ ((32 :: w1.out) ++ [98, 61])) = (32 :: w1.out) ++ [98, 61] := by
    have := takeWhile_name sigName ((32 :: w1.out) ++ [98, 61]) (by decide)
    simp only [fieldValue, List.append_assoc, List.singleton_append]
    rw [this.2]; rfl
  rw [hdel]
  simp only [relaxedField, hfn, hfv, hun1, fieldName_fld _ hn0, fieldValue_fld _ hn0, henc0, hun0]
  have : (stripTrailingWsp sigName).map DkimVerifier.lower = (stripTrailingWsp (lowerName sigName)).map DkimVerifier.lower := by decide
  rw [this]
  rfl

/-! ## the signer's side and the final form -/

theorem mem_compress : ∀ (u : Bytes) (c : Byte), c ∈ compressWsp u → c = 32 ∨ c ∈ u
  | [], c, h => by simp [compressWsp] at h
  | [a], c, h => by
    simp only [compressWsp] at h
    split at h <;> simp at h <;> simp [h]
  | a :: b :: r, c, h => by
    rw [compressWsp] at h
    have ih := mem_compress (b :: r) c
    split at h
    · split at h
      · rcases ih h with e | e
        · exact Or.inl e
        · exact Or.inr (List.mem_cons_of_mem _ e)
      · rcases List.mem_cons.mp h with e | h
        · exact Or.inl e
        · rcases ih h with e | e
          · exact Or.inl e
          · exact Or.inr (List.mem_cons_of_mem _ e)
    · rcases List.mem_cons.mp h with e | h
      · exact Or.inr (by simp [e])
      · rcases ih h with e | e
        · exact Or.inl e
        · exact Or.inr (List.mem_cons_of_mem _ e)

theorem strip_shape (z : Bytes) : stripTrailingWsp z = [] ∨
    ∃ r x, stripTrailingWsp z = r ++ [x] ∧ DkimVerifier.isWsp x = false := by
  simp only [stripTrailingWsp]
  cases h : z.reverse.dropWhile DkimVerifier.isWsp with
  | nil => left; simp
  | cons x r =>
    right
    refine ⟨r.reverse, x, by simp, ?_⟩
    have := List.head?_dropWhile_not DkimVerifier.isWsp z.reverse
    rw [h] at this
    simpa using this

theorem mem_strip (z : Bytes) (c : Byte) (h : c ∈ stripTrailingWsp z) : c ∈ z := by
  simp only [stripTrailingWsp, List.mem_reverse] at h
  exact List.mem_reverse.mp ((List.dropWhile_sublist _).subset h)

/-- `trim_end` after the canonical form of a field with a printable value takes off exactly the final CRLF -/
theorem trimEnd_relaxedField (name v : Bytes) (hv : ∀ c ∈ v, printable c = true) (hs : stripTrailingWsp v = v) :
    trimEnd (name ++ [58] ++ v ++ CRLF) = name ++ [58] ++ v := by
  have hlast : ∃ r x, name ++ [58] ++ v = r ++ [x] ∧ ¬ (x == 32 || (9 ≤ x.toNat && x.toNat ≤ 13)) = true := by
    rcases strip_shape v with h | ⟨r, x, h, hx⟩
    · rw [hs] at h; subst h
      exact ⟨name, 58, by simp, by decide⟩
    · rw [hs] at h
      refine ⟨name ++ [58] ++ r, x, by rw [h]; simp, ?_⟩
      have hp := hv x (by rw [h]; simp)
      simp only [printable, Bool.or_eq_true, beq_iff_eq, Bool.and_eq_true, decide_eq_true_eq] at hp
      simp only [DkimVerifier.isWsp, Bool.or_eq_false_iff, beq_eq_false_iff_ne, ne_eq] at hx
      have h32 : x ≠ 32 := hx.1
      have h9 : x ≠ 9 := hx.2
      have : x.toNat ≠ 32 ∧ x.toNat ≠ 9 := ⟨fun e => h32 (UInt8.toNat_inj.mp (by simpa using e)), fun e => h9 (UInt8.toNat_inj.mp (by simpa using e))⟩
      simp only [Bool.or_eq_true, beq_iff_eq, Bool.and_eq_true, decide_eq_true_eq, not_or, not_and, Nat.not_le]
      refine ⟨h32, fun _ => ?_⟩
      omega
  obtain ⟨r, x, e, hx⟩ := hlast
  rw [e]
  simp only [trimEnd, CRLF, List.append_assoc, List.reverse_append, List.reverse_cons, List.reverse_nil, List.nil_append,
    List.cons_append]
  rw [List.dropWhile_cons]
  simp only [show ((10 : Byte) == 32 || (decide (9 ≤ (10 : Byte).toNat) && decide ((10 : Byte).toNat ≤ 13))) = true by decide, if_true]
  rw [List.dropWhile_cons]
  simp only [show ((13 : Byte) == 32 || (decide (9 ≤ (13 : Byte).toNat) && decide ((13 : Byte).toNat ≤ 13))) = true by decide, if_true]
  rw [List.dropWhile_cons, if_neg hx]
  simp

theorem words_printable (v : Bytes) (h : ∀ x ∈ splitInclusive [] v, PlainWord x) : ∀ c ∈ v, printable c = true := by
  intro c hc
  have hf := splitInclusive_flatten [] v
  simp only [List.reverse_nil, List.nil_append] at hf
  rw [← hf] at hc
  obtain ⟨w, hw, hcw⟩ := List.mem_flatten.mp hc
  exact allowed_plain w (h w hw).1 c hcw

/-- the field the signer hashes for the signature itself, in the shape the header theorems need -/
theorem sigField_wf (cfg : Cfg) (ts : Nat) (bh : Bytes)
    (hplain : ∀ x ∈ splitInclusive [] (headerValue cfg ts bh []), PlainWord x) :
    WFMailField (HV.new (lowerName sigName) (headerValue cfg ts bh [])) := by
  have hS0 := headerValue_split cfg ts bh []
  generalize hpdef : valuePrefix cfg ts bh = p at hS0
  obtain ⟨ht032, ht0p, _⟩ := sigTail_plain [] (by intro c hc; simp at hc)
  have hwsP : ∀ x ∈ splitInclusive [] (p ++ [32]), PlainWord x := by
    intro x hx
    apply hplain x
    rw [hS0, splitInclusive_snoc p [] _ ht032 (by simp)]
    exact List.mem_append_left _ hx
  obtain ⟨w0, hi0, hv0, he0⟩ := encodeValue_last (lowerName sigName).length p (98 :: 61 :: []) ht032 (by simp) ht0p hwsP
  have henc0 : (HV.new (lowerName sigName) (headerValue cfg ts bh [])).encoded = w0.out ++ [98, 61] := by
    simp only [HV.new]; rw [hS0]; exact he0
  have hscan : scan .norm (w0.out ++ [98, 61]) = some .norm := by
    rw [scan_append, view_scan hi0]; rfl
  have hwf : wfValue (w0.out ++ [98, 61]) = true := wf_of_scan _ _ (Nat.le_refl _) hscan
  refine ⟨by show ∀ c ∈ lowerName sigName, c ≠ 58; decide,
    by show stripTrailingWsp (lowerName sigName) = lowerName sigName; decide,
    ⟨100, (lowerName sigName).tail, by show lowerName sigName = 100 :: (lowerName sigName).tail; decide, by decide⟩, by rw [henc0]; exact hwf, ?_⟩
  -- the value starts with `v`
  rw [henc0]
  have hF : F (w0.out ++ [98, 61]) = p ++ [32, 98, 61] := by
    rw [← unfold_eq_F _ _ (Nat.le_refl _) hwf, HeaderEnc.unfold_append _ _ _ (Nat.le_refl _) (view_scan hi0),
      unfold_plain [98, 61] (by intro b hb; revert b; decide)]
    have : HeaderReader.unfold w0.out = w0.view := rfl
    rw [this, hv0]; simp
  have hp118 : ∃ r, p ++ [32, 98, 61] = 118 :: r := by
    rw [← hpdef, valuePrefix]
    have : str " v=1" = 32 :: 118 :: str "=1" := by decide
    simp only [tagItems, joinSemi, this, List.cons_append, List.tail_cons]
    exact ⟨_, rfl⟩
  obtain ⟨r118, hr118⟩ := hp118
  rw [hr118] at hF
  intro d t hdt
  match hx : w0.out ++ [98, 61], hwf, hF with
  | [], _, hF' => simp [F] at hF'
  | e :: r, hwf', hF' =>
    rw [hx] at hdt
    by_cases he : e = 13
    · exfalso
      subst he
      obtain ⟨c, r', hr, hc, _⟩ := wf_13 hwf'
      subst hr
      have hcc := wsp_ne13 hc
      have : F (13 :: 10 :: c :: r') = c :: F r' := by simp [F, hcc.1, hcc.2]
      rw [this] at hF'
      injection hF' with h1 _
      subst h1; revert hc; decide
    · obtain ⟨h10, _⟩ := wf_cons_ne13 hwf' he
      rw [F_cons_keep e r ⟨he, h10⟩] at hF'
      injection hF' with h1 _
      subst h1
      rw [List.dropWhile_cons] at hdt
      simp only [show DkimVerifier.isWsp 118 = false by decide, Bool.false_eq_true, if_false] at hdt
      injection hdt with h2 _
      rw [← h2]; decide

end LV.Dkim

namespace LV.HeaderEnc
open LV

theorem isCont_ascii (b : Byte) (hb : b.toNat < 128) : isCont b = false := by
  simp only [isCont, beq_eq_false_iff_ne, ne_eq]
  intro hj
  have h1 : (b &&& 0xC0).toNat = b.toNat &&& 192 := by rw [UInt8.toNat_and]; rfl
  have h2 : (b &&& 0xC0).toNat = 128 := by rw [hj]; rfl
  have h3 : b.toNat &&& 192 ≤ b.toNat := Nat.and_le_left
  omega

theorem printable_contRuns (v : Bytes) (h : ∀ c ∈ v, printable c = true) : ContRunsLe3 v := by
  intro i hi
  have key : ∀ j, isCont (v.getD j 0) = true → False := by
    intro j hj
    by_cases hl : j < v.length
    · have hm : v.getD j 0 ∈ v := by simp [List.getD_eq_getElem?_getD, List.getElem?_eq_getElem hl]
      have hp := h _ hm
      generalize v.getD j 0 = b at hj hp
      simp only [printable, Bool.or_eq_true, beq_iff_eq, Bool.and_eq_true, decide_eq_true_eq] at hp
      rw [isCont_ascii b (by omega)] at hj; cases hj
    · have : v.getD j 0 = 0 := by simp [List.getD_eq_getElem?_getD, List.getElem?_eq_none (by omega : v.length ≤ j)]
      rw [this] at hj; revert hj; decide
  exact key i hi.1

/-- scanning accepts only printable octets, CR and LF -/
theorem scan_all : ∀ (x : Bytes) (st : Sc), scan st x = some .norm → ∀ b ∈ x, printable b = true ∨ b = 13 ∨ b = 10
  | [], _, _, b, hb => by simp at hb
  | e :: r, st, hs, b, hb => by
    simp only [scan] at hs
    cases hst : scStep st e with
    | none => rw [hst] at hs; cases hs
    | some st' =>
      rw [hst] at hs
      rcases List.mem_cons.mp hb with eb | hb
      · subst eb
        cases st with
        | norm =>
          simp only [scStep] at hst
          by_cases h13 : b = 13
          · exact Or.inr (Or.inl h13)
          · simp only [h13, if_false] at hst
            by_cases hp : printable b = true
            · exact Or.inl hp
            · simp [hp] at hst
        | cr =>
          simp only [scStep] at hst
          by_cases h10 : b = 10
          · exact Or.inr (Or.inr h10)
          · simp [h10] at hst
        | nl =>
          simp only [scStep] at hst
          by_cases h32 : b = 32
          · left; rw [h32]; decide
          · simp [h32] at hst
      · exact scan_all r st' hs b hb
end LV.HeaderEnc

namespace LV.Dkim
open LV LV.Headers LV.DkimVerifier LV.HeaderEnc

theorem strip_idem (z : Bytes) : stripTrailingWsp (stripTrailingWsp z) = stripTrailingWsp z := by
  rcases strip_shape z with h | ⟨r, x, h, hx⟩
  · rw [h]; rfl
  · rw [h]
    simp [stripTrailingWsp, List.reverse_append, List.dropWhile_cons, hx]

theorem take_crlf (x : Bytes) : (x ++ CRLF).take ((x ++ CRLF).length - 2) = x := by
  simp [CRLF]

/-- the canonical form of a field whose value scans: name, colon, a printable value without trailing blank, CRLF -/
theorem relaxedField_shape (h : HV) (hn : NameOk h) (hscan : scan .norm h.encoded = some .norm) :
    ∃ v, relaxedField (fld h) = (stripTrailingWsp (fieldName (fld h))).map DkimVerifier.lower ++ [58] ++ v ++ CRLF ∧
      (∀ c ∈ v, printable c = true) ∧ stripTrailingWsp v = v := by
  refine ⟨_, rfl, ?_, strip_idem _⟩
  intro c hcm
  have h1 := mem_strip _ c hcm
  have h2 : c ∈ compressWsp (HeaderReader.unfold (fieldValue (fld h))) := (List.dropWhile_sublist _).subset h1
  rcases mem_compress _ c h2 with e | h3
  · rw [e]; decide
  · rw [fieldValue_fld _ hn] at h3
    have hwf0 : wfValue h.encoded = true := wf_of_scan _ _ (Nat.le_refl _) hscan
    have hwf : wfValue (32 :: h.encoded) = true := wf_cons_wsp 32 _ (by decide) hwf0
    rw [unfold_eq_F _ _ (Nat.le_refl _) hwf] at h3
    simp only [F, List.mem_filter, Bool.and_eq_true, bne_iff_ne, ne_eq] at h3
    rcases List.mem_cons.mp h3.1 with e | hc3
    · rw [e]; decide
    · rcases scan_all _ _ hscan c hc3 with hp | e | e
      · exact hp
      · exact absurd e h3.2.1
      · exact absurd e h3.2.2

theorem select_single (n : Bytes) (f : Field) (h : nameIs n f = true) : select [n] [f] = [f] := by
  simp [select, selectGo, h]

/-- the second part of what the signer hashes: the canonical form of its own signature field, without the final CRLF -/
theorem signer_sig_part (cfg : Cfg) (ts : Nat) (bh : Bytes)
    (hplain : ∀ x ∈ splitInclusive [] (headerValue cfg ts bh []), PlainWord x) :
    trimEnd (canonHeaders opts .relaxed [sigName] [HV.new (lowerName sigName) (headerValue cfg ts bh [])]) =
      (relaxedField (fld (HV.new (lowerName sigName) (headerValue cfg ts bh [])))).take
        ((relaxedField (fld (HV.new (lowerName sigName) (headerValue cfg ts bh [])))).length - 2) := by
  have hw0 := sigField_wf cfg ts bh hplain
  have hscan0 : scan .norm (HV.new (lowerName sigName) (headerValue cfg ts bh [])).encoded = some .norm := by
    simp only [HV.new]
    exact encodeValue_wf true _ _ (printable_contRuns _ (words_printable _ hplain))
  generalize hh : HV.new (lowerName sigName) (headerValue cfg ts bh []) = hv0 at *
  have hn0 : NameOk hv0 := ⟨hw0.nameNoColon, hw0.nameNoTrailWsp⟩
  have hname : hv0.name = lowerName sigName := by rw [← hh]; rfl
  have hni : nameIs sigName (fld hv0) = true := by
    rw [nameIs_fld _ _ hn0, hname]; decide
  have hsecond : canonHeaders opts .relaxed [sigName] [hv0] = relaxedField (fld hv0) := by
    have := signed_fields_input_agrees [sigName] [hv0]
      ⟨by intro g hg; simp at hg, trivial⟩ (by intro h hh'; simp at hh'; rw [hh']; exact hw0)
    rw [show opts = (⟨true, true, true⟩ : Opts) from rfl, this]
    simp only [List.map_cons, List.map_nil, select_single _ _ hni, List.flatten_cons, List.flatten_nil, List.append_nil]
  obtain ⟨v, hrf, hvp, hvs⟩ := relaxedField_shape hv0 hn0 hscan0
  generalize hR : relaxedField (fld hv0) = R at hrf hsecond ⊢
  rw [hsecond, hrf]
  have e1 := trimEnd_relaxedField ((stripTrailingWsp (fieldName (fld hv0))).map DkimVerifier.lower) v hvp hvs
  rw [e1, take_crlf]

/-- **the header hash input, relaxed canonicalization, whole.** What the signer hashes is what an RFC 6376 verifier
    computes from the message it receives: the §3.4.2 canonical forms of the fields §5.4.2 selects for the `h=` list,
    followed by the canonical form of the received DKIM-Signature field with the value of `b=` deleted and without
    its final CRLF (§3.7) — for every message, `h=` list, time stamp and signature text. -/
theorem header_input_agrees_relaxed (cfg : Cfg) (ts : Nat) (m : Msg) (sig : Bytes) (hc : cfg.hc = .relaxed)
    (hu : Unique (m.signable opts cfg.names)) (hw : ∀ h ∈ m.signable opts cfg.names, WFMailField h)
    (hcfg : CfgOk cfg (bhOf opts cfg m))
    (hplain : ∀ x ∈ splitInclusive [] (headerValue cfg ts (bhOf opts cfg m) []), PlainWord x)
    (hsig : ∀ c ∈ sig, BodyEnc.b64Char c) :
    headerInput opts cfg ts m =
      ((select cfg.names ((m.signable opts cfg.names).map fld)).map relaxedField).flatten ++
      (relaxedField (deleteB (fld (HV.new sigName (headerValue cfg ts (bhOf opts cfg m) sig))))).take
        ((relaxedField (deleteB (fld (HV.new sigName (headerValue cfg ts (bhOf opts cfg m) sig))))).length - 2) := by
  unfold headerInput
  rw [hc]
  have htag : tag .relaxed sigName = lowerName sigName := rfl
  have h1 : canonHeaders opts .relaxed cfg.names (m.signable opts cfg.names) =
      ((select cfg.names ((m.signable opts cfg.names).map fld)).map relaxedField).flatten :=
    signed_fields_input_agrees cfg.names _ hu hw
  rw [htag, signer_sig_part cfg ts _ hplain, sig_field_canon_agrees cfg ts _ sig hcfg hplain hsig, h1]

end LV.Dkim
