import Driver.Util
import LettreVerif.Model.Response
import LettreVerif.Model.ServerInfo
import LettreVerif.Spec.ReplyGrammar
namespace LV.Driver.C15
open LV LV.Response LV.ReplyGrammar LV.Driver

def codeOfString (s : String) : Option Code :=
  match s.toList with
  | [a, b, c] =>
    if a.isDigit && b.isDigit && c.isDigit then some (a.toNat - 48, b.toNat - 48, c.toNat - 48) else none
  | _ => none

def codeStr (c : Code) : String := s!"{c.1}{c.2.1}{c.2.2}"

def startsWith (s p : Bytes) : Bool := p.isPrefixOf s

/-- `s` is a rendering of the well-formed reply `r` followed by `rest` -/
def isRendering (s : Bytes) (r : Resp) (rest : Bytes) : Bool :=
  wf r && (s == render r ++ rest || s == renderBare r ++ rest)

def prKind : PR → String
  | .ok _ _ => "ok" | .incomplete => "incomplete" | .error => "error" | .failure => "failure"

/-- `parse <s> <witness code|-> <witness lines> | <kind> <code> <lines> <rest> <from_str>` -/
def parseOp : List String → String
  | [s, wcode, wlines, kind, code, lines, rest, fs] =>
    match ofHex s, hexList wlines, hexList lines, ofHex rest with
    | some s, some wl, some il, some irest =>
      let m := parse s
      -- 1. what the implementation accepts must be a rendered well-formed reply
      let implOk := kind == "ok"
      let implResp : Option Resp := (codeOfString code).map fun c => ⟨c, il⟩
      if kind == "PANIC" then propfail "panic" else
      if implOk && !(match implResp with | some r => isRendering s r irest | none => false) then
        propfail "accepted-text-is-not-a-reply"
      else
      -- 2. a rendered well-formed reply (witness supplied by the generator, checked here) must be accepted
      let witness : Option Resp := (codeOfString wcode).map fun c => ⟨c, wl⟩
      let wOk := match witness with
        | some r => wf r && (startsWith s (render r) || startsWith s (renderBare r))
        | none => false
      if wOk && !(implOk && implResp == witness) then propfail "well-formed-reply-not-accepted-as-itself"
      else if (fs == "ok") != implOk then propfail "from_str-disagrees-with-parse_response"
      else
      -- 3. model vs implementation
      match m with
      | .ok r mrest =>
        if implOk && implResp == some r && irest == mrest then "ok"
        else s!"MISMATCH parse model=ok:{codeStr r.code}:{toHexField mrest}"
      | other => if prKind other == kind then "ok" else s!"MISMATCH parse model={prKind other}"
    | _, _, _, _ => "BADLINE"
  | [_, _, _, "PANIC"] => propfail "panic"
  | _ => "BADLINE"

def describe (r : Resp) : String :=
  let cls := match classify r.code with | .positive => "R+" | .transient => "R4" | .permanent => "R5"
  match classify r.code with
  | .positive => s!"{cls}:{codeStr r.code}:{hexListStr r.lines}"
  | _ => s!"{cls}:{codeStr r.code}:{toHexField r.lines.flatten}"
where hexListStr (l : List Bytes) : String :=
  if l.isEmpty then "-" else ",".intercalate (l.map fun b => if b.isEmpty then "_" else toHex b)

/-- model: successive `read_response` calls until the first bad one -/
def rrModel : Nat → Bytes → List String
  | 0, _ => []
  | f + 1, stream =>
    match readResp stream with
    | (.reply r, rest) => describe r :: rrModel f rest
    | (.bad, _) => ["B"]

/-- oracle: every reply the implementation reports is, in order, a rendered well-formed reply
    at the front of what is left of the stream (nothing skipped, nothing read twice); the
    witness for each is the model's reply, checked against `render` -/
def rrOracle : Nat → Bytes → List String → Option String
  | 0, _, _ => none
  | _, _, [] => none
  | f + 1, stream, d :: ds =>
    if d == "B" then none else
    match readResp stream with
    | (.reply r, rest) =>
      if !(wf r && (stream == render r ++ rest || stream == renderBare r ++ rest)) then none  -- no checked witness
      else if describe r != d then some s!"reply-misread:{d}"
      else rrOracle f rest ds
    | (.bad, _) => some s!"reply-reported-where-none-is:{d}"

/-- why the read that fails fails: `true` = the buffered text is malformed (reported at once),
    `false` = the stream ended inside a reply (reported when the peer closes) -/
def badWhy (bo : Bool) : Nat → Bytes → Bytes → Bool
  | 0, _, _ => false
  | f + 1, acc, stream =>
    if stream.isEmpty then false else
    let (line, rest) := takeLine [] stream
    match run bo init (acc ++ line) with
    | .ok _ _ => false
    | .incomplete => badWhy bo f (acc ++ line) rest
    | _ => true

def streamEndsMalformed : Nat → Bytes → Bool
  | 0, _ => false
  | f + 1, stream =>
    match readResp stream with
    | (.reply _, rest) => streamEndsMalformed f rest
    | (.bad, _) => badWhy bareOk (stream.length + 1) [] stream

def rrOp : List String → String
  | [_mode, stream, _cuts, _hold, res, late] =>
    match ofHex stream with
    | some s =>
      if res == "PANIC" then propfail "panic" else
      let impl := res.splitOn ";"
      if impl.contains "HANG" then propfail "read_response-still-blocked-3s-after-a-malformed-or-complete-reply" else
      match rrOracle 70 s impl with
      | some e => propfail e
      | none =>
        let m := rrModel 64 s
        if m != impl then s!"MISMATCH rr model={";".intercalate m}"
        else if streamEndsMalformed 70 s && late == "late=1" then
          propfail "malformed-reply-reported-only-when-the-peer-closed"
        else "ok"
    | none => "BADLINE"
  | [_mode, stream, _cuts, res] =>
    match ofHex stream with
    | some s =>
      if res == "PANIC" then propfail "panic" else
      let impl := res.splitOn ";"
      match rrOracle 70 s impl with
      | some e => propfail e
      | none =>
        let m := rrModel 64 s
        if m == impl then "ok" else s!"MISMATCH rr model={";".intercalate m}"
    | none => "BADLINE"
  | _ => "BADLINE"

def decodeLines (ls : List Bytes) : Option (List (List Char)) :=
  ls.mapM fun b => (String.fromUTF8? (ByteArray.mk b.toArray)).map String.toList

def bit (b : Bool) : String := if b then "1" else "0"

def sinfoOp : List String → String
  | [lines, res] =>
    match (hexList lines).bind decodeLines with
    | some ls =>
      if res == "PANIC" then propfail "panic" else
      let m := match ServerInfo.fromResponse ls with
        | .ok i =>
          -- `get_auth_mechanism`: the first mechanism of the preference list that the server offers
          let pick (prefs : List (Char × Bool)) : Char := ((prefs.find? (·.2)).map (·.1)).getD '-'
          let (p, l, x) := (('P', i.plain), ('L', i.login), ('X', i.xoauth2))
          let picks := String.ofList [pick [p, l, x], pick [l, p, x], pick [x, l, p], pick [x], pick [l], pick []]
          s!"ok:{toHexField (String.ofList i.name).toUTF8.data.toList}:{bit i.eightBit}{bit i.smtpUtf8}{bit i.startTls}{bit i.plain}{bit i.login}{bit i.xoauth2}:{picks}"
        | .noName => "noname"
      if m == res then "ok" else s!"MISMATCH sinfo model={m}"
    | none => "BADLINE"
  | _ => "BADLINE"

def isAsciiWs (b : Byte) : Bool := (9 ≤ b.toNat && b.toNat ≤ 13) || b == 32

/-- `str::split_whitespace().next()` on ASCII text -/
def firstWord (l : Bytes) : Option Bytes :=
  let r := l.dropWhile isAsciiWs
  if r.isEmpty then none else some (r.takeWhile (fun b => !isAsciiWs b))

def optHex : Option Bytes → String
  | none => "none"
  | some b => toHexField b

/-- `racc <s> | ok:<code>:<is_positive><has own code><has another code>:<number>:<first word>:<first line>` or `err` -/
def raccOp : List String → String
  | [s, res] =>
    if res == "PANIC" then propfail "panic" else
    match ofHex s with
    | some s =>
      match parse s with
      | .ok r _ =>
        if r.lines.any (fun l => l.any (fun b => b.toNat ≥ 128)) then "ok skipped:non-ascii-text" else
        let pos := match classify r.code with | .positive => "1" | _ => "0"
        let n := r.code.1 * 100 + r.code.2.1 * 10 + r.code.2.2
        let fl := r.lines.head?
        let fw := fl.bind firstWord
        let exp := s!"ok:{codeStr r.code}:{pos}10:{n}:{optHex fw}:{optHex fl}"
        if res == exp then "ok" else s!"MISMATCH racc model={exp}"
      | _ => if res == "err" then "ok" else "MISMATCH racc model=err"
    | none => "BADLINE"
  | l => if l.getLast? == some "PANIC" then propfail "panic" else "BADLINE"

end LV.Driver.C15
