import LettreVerif.Model.BodyEnc
import LettreVerif.Spec.BodyDec
import LettreVerif.Proofs.Base64
namespace LV.BodyEnc
open LV LV.BodyDec

/-! ### CRLF conversion -/

/-- every LF is preceded by a CR (`prevCr`: the octet before the list was a CR) -/
def lfAfterCr : Bool → Bytes → Bool
  | _, [] => true
  | prevCr, b :: bs => (b != 10 || prevCr) && lfAfterCr (b = 13) bs

theorem crlfGo_lfAfterCr (p : Bool) (s : Bytes) : lfAfterCr p (crlfGo p s) = true := by
  induction s generalizing p with
  | nil => rfl
  | cons b bs ih =>
    simp only [crlfGo]
    split
    · rename_i h
      simp only [Bool.and_eq_true, decide_eq_true_eq, Bool.not_eq_true'] at h
      simp [lfAfterCr, ih]
    · rename_i h
      simp only [Bool.and_eq_true, decide_eq_true_eq, Bool.not_eq_true', not_and, Bool.not_eq_false] at h
      simp only [lfAfterCr, Bool.and_eq_true, Bool.or_eq_true, bne_iff_ne, ne_eq]
      refine ⟨?_, ih _⟩
      by_cases hb : b = 10
      · right; exact h hb
      · left; exact hb

/-- text that already has every LF after a CR is left alone -/
theorem crlfGo_id (p : Bool) (s : Bytes) (h : lfAfterCr p s = true) : crlfGo p s = s := by
  induction s generalizing p with
  | nil => rfl
  | cons b bs ih =>
    simp only [lfAfterCr, Bool.and_eq_true, Bool.or_eq_true, bne_iff_ne, ne_eq] at h
    simp only [crlfGo]
    split
    · rename_i hc
      simp only [Bool.and_eq_true, decide_eq_true_eq, Bool.not_eq_true'] at hc
      rcases h.1 with h1 | h1
      · exact absurd hc.1 h1
      · rw [hc.2] at h1; cases h1
    · have := ih (decide (b = 13)) h.2
      rw [this]

/-- removing every CR that directly precedes an LF gives the same text before and after the
    conversion: nothing but those CRs was added -/
def stripCrBeforeLf : Bytes → Bytes
  | 13 :: 10 :: rest => 10 :: stripCrBeforeLf rest
  | b :: rest => b :: stripCrBeforeLf rest
  | [] => []

/-! ### the chooser -/

theorem choose_no_8bit_without_utf8 (isStr : Bool) (b : Bytes) : choose isStr b false ≠ .eightBit := by
  simp only [choose, qpOrB64]
  split
  · split
    · split <;> simp
    · simp
  · split
    · simp only [Bool.false_and, Bool.false_eq_true, if_false]
      split <;> simp
    · simp

theorem bestEncoding_range (g isStr : Bool) (b : Bytes) :
    bestEncoding g isStr b false = .sevenBit ∨ bestEncoding g isStr b false = .quotedPrintable ∨
    bestEncoding g isStr b false = .base64 := by
  have h8 := choose_no_8bit_without_utf8 isStr b
  simp only [bestEncoding]
  cases hc : choose isStr b false with
  | sevenBit => simp only; split <;> (try split) <;> simp
  | eightBit => exact absurd hc h8
  | quotedPrintable => simp
  | base64 => simp
  | binary =>
    exfalso
    simp only [choose, qpOrB64] at hc
    split at hc
    · split at hc
      · split at hc <;> cases hc
      · cases hc
    · split at hc
      · split at hc
        · cases hc
        · split at hc <;> cases hc
      · cases hc

/-! ### base64 bodies -/

theorem enc_append3 (a b c : Byte) (rest : Bytes) :
    Base64.enc (a :: b :: c :: rest) = Base64.enc [a, b, c] ++ Base64.enc rest := by
  simp [Base64.enc]

/-- encoding distributes over a prefix whose length is a multiple of 3 -/
theorem enc_append : ∀ (x y : Bytes), x.length % 3 = 0 → Base64.enc (x ++ y) = Base64.enc x ++ Base64.enc y
  | [], y, _ => by simp [Base64.enc]
  | [_], _, h => by simp at h
  | [_, _], _, h => by simp at h
  | a :: b :: c :: t, y, h => by
    have ih := enc_append t y (by simp at h; omega)
    simp only [List.cons_append]
    rw [enc_append3, ih, enc_append3 a b c t]
    simp [List.append_assoc]

end LV.BodyEnc

namespace LV.BodyEnc
open LV LV.BodyDec

theorem sym_alphabet (n : Nat) :
    (65 ≤ (Base64.sym n).toNat ∧ (Base64.sym n).toNat ≤ 90) ∨ (97 ≤ (Base64.sym n).toNat ∧ (Base64.sym n).toNat ≤ 122) ∨
    (48 ≤ (Base64.sym n).toNat ∧ (Base64.sym n).toNat ≤ 57) ∨ (Base64.sym n).toNat = 43 ∨ (Base64.sym n).toNat = 47 := by
  simp only [Base64.sym]
  split
  · left; simp only [UInt8.toNat_ofNat']; omega
  · split
    · right; left; simp only [UInt8.toNat_ofNat']; omega
    · split
      · right; right; left; simp only [UInt8.toNat_ofNat']; omega
      · split
        · right; right; right; left; rfl
        · right; right; right; right; rfl

/-- characters of a base64 line: the alphabet or `=` -/
def b64Char (c : Byte) : Prop :=
  (65 ≤ c.toNat ∧ c.toNat ≤ 90) ∨ (97 ≤ c.toNat ∧ c.toNat ≤ 122) ∨ (48 ≤ c.toNat ∧ c.toNat ≤ 57) ∨
  c.toNat = 43 ∨ c.toNat = 47 ∨ c.toNat = 61

theorem sym_b64Char (n : Nat) : b64Char (Base64.sym n) := by
  rcases sym_alphabet n with h | h | h | h | h
  · exact Or.inl h
  · exact Or.inr (Or.inl h)
  · exact Or.inr (Or.inr (Or.inl h))
  · exact Or.inr (Or.inr (Or.inr (Or.inl h)))
  · exact Or.inr (Or.inr (Or.inr (Or.inr (Or.inl h))))

theorem pad_b64Char : b64Char 61 := by right; right; right; right; right; rfl

theorem enc_chars : ∀ (x : Bytes), ∀ c ∈ Base64.enc x, b64Char c
  | [], c, h => by simp [Base64.enc] at h
  | [a], c, h => by
    simp only [Base64.enc, List.mem_cons, List.not_mem_nil, or_false] at h
    rcases h with rfl | rfl | rfl | rfl <;> first | exact sym_b64Char _ | exact pad_b64Char
  | [a, b], c, h => by
    simp only [Base64.enc, List.mem_cons, List.not_mem_nil, or_false] at h
    rcases h with rfl | rfl | rfl | rfl <;> first | exact sym_b64Char _ | exact pad_b64Char
  | a :: b :: d :: t, c, h => by
    simp only [Base64.enc, List.mem_cons] at h
    rcases h with rfl | rfl | rfl | rfl | h
    · exact sym_b64Char _
    · exact sym_b64Char _
    · exact sym_b64Char _
    · exact sym_b64Char _
    · exact enc_chars t c h

theorem b64Char_not_cr (c : Byte) (h : b64Char c) : c ≠ 13 ∧ c ≠ 10 := by
  constructor <;> (intro e; subst e; revert h; unfold b64Char; decide)

theorem dropCrlf_cons_ne (x : Byte) (r : Bytes) (h : x ≠ 13) : dropCrlf (x :: r) = x :: dropCrlf r := by
  conv => lhs; unfold dropCrlf
  split
  · rename_i heq; simp only [List.cons.injEq] at heq; exact absurd heq.1 h
  · rename_i b r' hne heq
    simp only [List.cons.injEq] at heq
    obtain ⟨rfl, rfl⟩ := heq
    rfl
  · rename_i heq; simp at heq

theorem dropCrlf_noCr (l : Bytes) (rest : Bytes) (h : ∀ c ∈ l, c ≠ 13) : dropCrlf (l ++ rest) = l ++ dropCrlf rest := by
  induction l with
  | nil => rfl
  | cons x xs ih =>
    simp only [List.cons_append]
    rw [dropCrlf_cons_ne x _ (h x (by simp)), ih (fun c hc => h c (by simp [hc]))]

theorem dropCrlf_join (ls : List Bytes) (h : ∀ l ∈ ls, ∀ c ∈ l, c ≠ 13) : dropCrlf (joinCrlf ls) = ls.flatten := by
  induction ls with
  | nil => rfl
  | cons l ls ih =>
    cases ls with
    | nil =>
      simp only [joinCrlf, List.flatten_cons, List.flatten_nil, List.append_nil]
      have := dropCrlf_noCr l [] (h l (by simp))
      simpa [dropCrlf] using this
    | cons m ms =>
      simp only [joinCrlf, List.flatten_cons, List.append_assoc]
      rw [dropCrlf_noCr l _ (h l (by simp))]
      have ih' := ih (fun l' hl' => h l' (by simp [hl']))
      simp only [List.flatten_cons] at ih'
      simp only [CRLF, List.cons_append, List.nil_append]
      rw [show dropCrlf (13 :: 10 :: joinCrlf (m :: ms)) = dropCrlf (joinCrlf (m :: ms)) by rw [dropCrlf]]
      rw [ih']

theorem b64Lines_flatten (fuel : Nat) (b : Bytes) (h : b.length < fuel) :
    (b64Lines fuel b).flatten = Base64.enc b ∧ ∀ l ∈ b64Lines fuel b, ∀ c ∈ l, c ≠ 13 := by
  induction fuel generalizing b with
  | zero => omega
  | succ f ih =>
    simp only [b64Lines]
    split
    · refine ⟨by simp, ?_⟩
      intro l hl c hc
      simp at hl; subst hl
      exact (b64Char_not_cr c (enc_chars b c hc)).1
    · rename_i hlen
      have hd : (b.drop 57).length < f := by simp; omega
      have := ih (b.drop 57) hd
      refine ⟨?_, ?_⟩
      · simp only [List.flatten_cons, this.1]
        have ht : (b.take 57).length % 3 = 0 := by simp; omega
        rw [← enc_append _ _ ht, List.take_append_drop]
      · intro l hl c hc
        rcases List.mem_cons.mp hl with rfl | hl
        · exact (b64Char_not_cr c (enc_chars _ c hc)).1
        · exact this.2 l hl c hc

/-- a base64 body decodes to exactly the content -/
theorem b64Body_roundtrip (b : Bytes) : b64Decode (b64Body b) = some b := by
  simp only [b64Body, b64Decode]
  split
  · rename_i h
    have : b = [] := by simpa using h
    subst this; rfl
  · have := b64Lines_flatten (b.length + 1) b (by omega)
    rw [dropCrlf_join _ this.2, this.1]
    exact Base64.dec_enc b

end LV.BodyEnc

namespace LV.BodyEnc
open LV LV.BodyDec

/-! ### 7bit output obeys the 7bit rules -/

/-- the main invariant: counters `c1` (of `line_too_long`, which counts the LF of the previous
    line) and `c2 ≤ c1` (of the CRLF line scanner); `prev` is the octet before `b` and is not
    a CR (a CR is always consumed together with its LF) -/
theorem sevenbit_lines (isStr : Bool) (n : Nat) :
    ∀ (b : Bytes) (c1 c2 : Nat) (prev : Option Byte), b.length ≤ n → c2 ≤ c1 → prev ≠ some 13 →
      lineTooLongGo c1 b = false → unsafeRaw isStr prev b = false →
      linesOkGo 998 c2 (if isStr then crlfGo false b else b) = true := by
  induction n with
  | zero =>
    intro b c1 c2 prev hl hc _ h1 _
    have : b = [] := List.eq_nil_of_length_eq_zero (by omega)
    subst this
    simp only [lineTooLongGo, decide_eq_false_iff_not, Nat.not_le] at h1
    cases isStr <;> simp [crlfGo, linesOkGo] <;> omega
  | succ n ih =>
    intro b c1 c2 prev hl hc hprev h1 h2
    cases b with
    | nil =>
      simp only [lineTooLongGo, decide_eq_false_iff_not, Nat.not_le] at h1
      cases isStr <;> simp [crlfGo, linesOkGo] <;> omega
    | cons x xs =>
      simp only [unsafeRaw, Bool.or_eq_false_iff, decide_eq_false_iff_not, Bool.and_eq_false_iff,
        bne_eq_false_iff_eq, Bool.not_eq_false'] at h2
      obtain ⟨⟨⟨hx0, hcr⟩, hlf⟩, hrest⟩ := h2
      by_cases hx13 : x = 13
      · -- a CR: the next octet is the LF
        subst hx13
        have hnext : xs.head? = some 10 := by
          rcases hcr with h | h
          · exact absurd rfl h
          · exact h
        cases xs with
        | nil => simp at hnext
        | cons y ys =>
          simp only [List.head?_cons, Option.some.injEq] at hnext
          subst hnext
          simp only [lineTooLongGo, show ¬ ((13 : Byte) = 10) by decide, if_false, if_true,
            Bool.or_eq_false_iff, decide_eq_false_iff_not, Nat.not_le] at h1
          simp only [unsafeRaw, Bool.or_eq_false_iff] at hrest
          have hr := ih ys 1 0 (some 10) (by simp at hl; omega) (by omega) (by decide) h1.2 hrest.2
          cases isStr with
          | true =>
            simp only [if_true] at hr ⊢
            have : crlfGo false (13 :: 10 :: ys) = 13 :: 10 :: crlfGo false ys := by
              simp [crlfGo]
            rw [this]
            simp only [linesOkGo, Bool.and_eq_true, decide_eq_true_eq]
            exact ⟨by omega, hr⟩
          | false =>
            simp only [Bool.false_eq_true, if_false] at hr ⊢
            simp only [linesOkGo, Bool.and_eq_true, decide_eq_true_eq]
            exact ⟨by omega, hr⟩
      · by_cases hx10 : x = 10
        · -- an LF not preceded by a CR: only possible for text, where a CR is inserted
          subst hx10
          simp only [lineTooLongGo, if_true, Bool.or_eq_false_iff, decide_eq_false_iff_not, Nat.not_le] at h1
          have hr := ih xs 1 0 (some 10) (by simp at hl; omega) (by omega) (by decide) h1.2 hrest
          cases isStr with
          | true =>
            simp only [if_true] at hr ⊢
            have : crlfGo false (10 :: xs) = 13 :: 10 :: crlfGo false xs := by simp [crlfGo]
            rw [this]
            simp only [linesOkGo, Bool.and_eq_true, decide_eq_true_eq]
            exact ⟨by omega, hr⟩
          | false =>
            exfalso
            rcases hlf with (h | h) | h
            · exact h rfl
            · simp at h
            · exact hprev h
        · -- an ordinary octet
          simp only [lineTooLongGo, hx10, if_false] at h1
          have hr := ih xs (c1 + 1) (c2 + 1) (some x) (by simp at hl; omega) (by omega)
            (by simpa using hx13) h1 hrest
          cases isStr with
          | true =>
            simp only [if_true] at hr ⊢
            have : crlfGo false (x :: xs) = x :: crlfGo (decide (x = 13)) xs := by simp [crlfGo, hx10]
            rw [this]
            have hd : decide (x = 13) = false := by simpa using hx13
            rw [hd, linesOkGo]
            · simp only [Bool.and_eq_true, bne_iff_ne, ne_eq]
              exact ⟨⟨hx13, hx10⟩, hr⟩
            · intros; simp_all
          | false =>
            simp only [Bool.false_eq_true, if_false] at hr ⊢
            rw [linesOkGo]
            · simp only [Bool.and_eq_true, bne_iff_ne, ne_eq]
              exact ⟨⟨hx13, hx10⟩, hr⟩
            · intros; simp_all

end LV.BodyEnc

namespace LV.BodyEnc
open LV LV.BodyDec

/-- the conversion changes only how line breaks are spelled: a reader that takes CRLF for the
    line break reads the converted text as it reads the original (the reader's pending-CR flag
    is the writer's `prevCr`) -/
theorem toLfGo_crlfGo (p : Bool) (s : Bytes) : toLfGo p (crlfGo p s) = toLfGo p s := by
  induction s generalizing p with
  | nil => simp [crlfGo]
  | cons b bs ih =>
    by_cases h13 : b = 13
    · subst h13; simp [crlfGo, toLfGo, ih]
    · by_cases h10 : b = 10
      · subst h10; cases p <;> simp [crlfGo, toLfGo, ih]
      · simp [crlfGo, toLfGo, ih, h13, h10]

theorem crlfGo_mem (p : Bool) (s : Bytes) : ∀ c ∈ crlfGo p s, c ∈ s ∨ c = 13 := by
  induction s generalizing p with
  | nil => simp [crlfGo]
  | cons b bs ih =>
    intro c hc
    simp only [crlfGo] at hc
    split at hc
    · rename_i h
      simp only [Bool.and_eq_true, decide_eq_true_eq] at h
      simp only [List.mem_cons] at hc
      rcases hc with rfl | rfl | hc
      · right; rfl
      · left; simp [h.1]
      · rcases ih _ c hc with h' | h'
        · left; simp [h']
        · right; exact h'
    · simp only [List.mem_cons] at hc
      rcases hc with rfl | hc
      · left; simp
      · rcases ih _ c hc with h' | h'
        · left; simp [h']
        · right; exact h'

theorem unsafeRaw_no_nul (isStr : Bool) (prev : Option Byte) (s : Bytes) (h : unsafeRaw isStr prev s = false) :
    ∀ c ∈ s, c ≠ 0 := by
  induction s generalizing prev with
  | nil => simp
  | cons b bs ih =>
    simp only [unsafeRaw, Bool.or_eq_false_iff, decide_eq_false_iff_not] at h
    intro c hc
    rcases List.mem_cons.mp hc with rfl | hc
    · exact h.1.1.1
    · exact ih (some b) h.2 c hc

/-- when the automatic choice is 7bit, what is emitted obeys the 7bit rules -/
theorem sevenbit_ok_gen (isStr : Bool) (b : Bytes) (h : bestEncoding true isStr b false = .sevenBit) :
    sevenBitOk (if isStr then crlfNormalize b else b) = true := by
  -- unpack the choice
  have hch : choose isStr b false = .sevenBit ∧ unsafeRaw isStr none b = false := by
    simp only [bestEncoding] at h
    cases hc : choose isStr b false with
    | sevenBit =>
      simp only [hc, Bool.true_and] at h
      split at h
      · split at h <;> cases h
      · rename_i hu; exact ⟨rfl, by simpa using hu⟩
    | eightBit =>
      simp only [hc, Bool.true_and] at h
      split at h
      · split at h <;> cases h
      · cases h
    | quotedPrintable => simp [hc] at h
    | base64 => simp [hc] at h
    | binary => simp [hc] at h
  obtain ⟨hc, hu⟩ := hch
  have hasc : isAsciiBytes b = true ∧ lineTooLong b = false := by
    simp only [choose, qpOrB64] at hc
    split at hc
    · rename_i ha
      split at hc
      · split at hc <;> cases hc
      · rename_i hl; exact ⟨ha, by simpa using hl⟩
    · split at hc
      · simp only [Bool.false_and, Bool.false_eq_true, if_false] at hc
        split at hc <;> cases hc
      · cases hc
  have hlines := sevenbit_lines isStr b.length b 0 0 none (Nat.le_refl _) (Nat.le_refl _) (by simp) hasc.2 hu
  have hnul := unsafeRaw_no_nul isStr none b hu
  have hall : ∀ c ∈ b, c < 128 := by
    have := hasc.1
    simp only [isAsciiBytes, List.all_eq_true, decide_eq_true_eq] at this
    exact this
  simp only [sevenBitOk, linesOk, Bool.and_eq_true]
  refine ⟨?_, by simpa [crlfNormalize] using hlines⟩
  apply List.all_eq_true.mpr
  intro c hc
  simp only [Bool.and_eq_true, bne_iff_ne, ne_eq, decide_eq_true_eq]
  cases isStr with
  | true =>
    simp only [if_true, crlfNormalize] at hc
    rcases crlfGo_mem false b c hc with h' | h'
    · exact ⟨hnul c h', hall c h'⟩
    · subst h'; exact ⟨by decide, by decide⟩
  | false =>
    simp only [Bool.false_eq_true, if_false] at hc
    exact ⟨hnul c hc, hall c hc⟩

end LV.BodyEnc

namespace LV.BodyEnc
open LV LV.BodyDec

theorem qpOrB64_ne_sevenBit (b : Bytes) : qpOrB64 b ≠ .sevenBit := by
  simp only [qpOrB64]; split <;> simp

theorem choose_sevenBit_iff (isStr u : Bool) (b : Bytes) :
    choose isStr b u = .sevenBit ↔ (isAsciiBytes b = true ∧ lineTooLong b = false) := by
  simp only [choose]
  by_cases ha : isAsciiBytes b = true
  · by_cases hl : lineTooLong b = true
    · simp [ha, hl, qpOrB64_ne_sevenBit]
    · have hl' : lineTooLong b = false := by simpa using hl
      simp [ha, hl']
  · have ha' : isAsciiBytes b = false := by simpa using ha
    simp only [ha', Bool.false_eq_true, if_false, false_and, iff_false]
    cases isStr with
    | true =>
      simp only [if_true]
      split
      · simp
      · exact qpOrB64_ne_sevenBit b
    | false => simp

theorem bestEncoding_sevenBit_iff (g isStr u : Bool) (b : Bytes) :
    bestEncoding g isStr b u = .sevenBit ↔
      (choose isStr b u = .sevenBit ∧ (g && unsafeRaw isStr none b) = false) := by
  simp only [bestEncoding]
  cases hc : choose isStr b u with
  | sevenBit =>
    simp only [true_and]
    by_cases hg : (g && unsafeRaw isStr none b) = true
    · simp only [hg, if_true]
      constructor
      · intro h; split at h <;> cases h
      · intro h; cases h
    · have : (g && unsafeRaw isStr none b) = false := by simpa using hg
      simp [this]
  | eightBit =>
    simp only [reduceCtorEq, false_and, iff_false]
    split
    · split <;> simp
    · simp
  | quotedPrintable => simp
  | base64 => simp
  | binary => simp

/-- whether 7bit is the best encoding does not depend on the server supporting 8BITMIME -/
theorem best_sevenBit_indep (g isStr : Bool) (b : Bytes) (h : bestEncoding g isStr b true = .sevenBit) :
    bestEncoding g isStr b false = .sevenBit := by
  rw [bestEncoding_sevenBit_iff] at h ⊢
  exact ⟨(choose_sevenBit_iff isStr false b).mpr ((choose_sevenBit_iff isStr true b).mp h.1), h.2⟩

end LV.BodyEnc
