import LettreVerif.Props.C15
#print axioms LV.C15.parse_complete
#print axioms LV.C15.parse_sound
#print axioms LV.C15.answer_stable
#print axioms LV.C15.prefix_incomplete
#print axioms LV.C15.read_consumes_exactly
#print axioms LV.C15.eof_is_error
#print axioms LV.C15.classify_first_digit
#print axioms LV.C15.serverinfo_exact
