import LettreVerif.Model.Client
/-!
# M: `SmtpTransport::send_raw` over the connection pool, one caller at a time

The sequential behaviour of `Pool::connection` / `recycle` / `Drop` (src/transport/smtp/pool):
check-out pops the most recently parked connection and probes it with NOOP (a failed probe
closes it and tries the next one; none left ⇒ a new connection); after the send the connection
is parked unless it is broken or the idle set is full, in which case it is closed.  Every
connection ever opened is kept in `conns` (by order of opening) so that the transcript of each
can be compared with what the peer saw.  Interleavings of several callers are the subject of
the pool model (`Model/Pool.lean`); no TLS, no authentication here.
-/
namespace LV.Transport
open LV LV.Client LV.Response

structure Pool where
  conns : List Conn               -- every connection opened so far, in order of opening
  idle : List Nat                 -- parked connections (indexes into `conns`), most recent first
  scripts : List (List Step)      -- what the peer will do on the connections still to be opened
  maxSize : Nat
  hello : Bytes
  stallAtEnd : Bool := false      -- the peer goes silent (instead of closing) when a script runs out
deriving Repr

def Pool.setConn (p : Pool) (i : Nat) (c : Conn) : Pool := { p with conns := p.conns.set i c }

def Pool.totalBlocked (p : Pool) : Nat := (p.conns.map (·.blocked)).sum

/-- `SmtpClient::connection` without TLS and credentials: a new connection on the next script;
    no script left = the peer does not accept connections any more -/
def Pool.open (p : Pool) : Pool × Option Nat × Except Err Unit :=
  match p.scripts with
  | [] => (p, none, .error .bad)
  | s :: rest =>
    let c0 : Conn := { Conn.fresh s [] none with stallAtEnd := p.stallAtEnd }
    let c0 := c0.deliver
    -- `connect`: greeting, then EHLO
    let (c, r) := match c0.read with
      | (c, .error e) => (c, (.error e : Except Err Unit))
      | (c, .ok _) => c.ehlo p.hello
    let p := { p with scripts := rest, conns := p.conns ++ [c] }
    match r with
    | .ok () => (p, some (p.conns.length - 1), .ok ())
    | .error e => (p, none, .error e)

/-- `Pool::connection`: probe parked connections, most recent first -/
def Pool.acquire (p : Pool) : List Nat → Pool × Option Nat × Except Err Unit
  | [] => ({ p with idle := [] }).open
  | i :: rest =>
    match p.conns[i]? with
    | none => Pool.acquire p rest
    | some c =>
      let (c, ok) := c.testConnected
      if ok then ({ p.setConn i c with idle := rest }, some i, .ok ())
      else Pool.acquire (p.setConn i c.abort) rest

/-- `recycle` -/
def Pool.recycle (p : Pool) (i : Nat) : Pool :=
  match p.conns[i]? with
  | none => p
  | some c =>
    if c.panic then p.setConn i c.abort
    else if p.idle.length ≥ p.maxSize then p.setConn i c.abort
    else { p with idle := i :: p.idle }

/-- `send_raw` -/
def Pool.sendRaw (p : Pool) (from? : Option Bytes) (to : List Bytes) (msg : Bytes) : Pool × Res :=
  match p.acquire p.idle with
  | (p, _, .error e) => (p, .error e)
  | (p, none, .ok ()) => (p, .error .bad)
  | (p, some i, .ok ()) =>
    match p.conns[i]? with
    | none => (p, .error .bad)
    | some c =>
      let (c, r) := c.send from? to msg
      ((p.setConn i c).recycle i, r)

/-- dropping the transport closes every parked connection -/
def Pool.drop (p : Pool) : Pool :=
  p.idle.foldl (fun p i => match p.conns[i]? with | some c => p.setConn i c.abort | none => p) { p with idle := [] }

end LV.Transport
