import LettreVerif.Proofs.PoolLts
import LettreVerif.Proofs.PoolPerMsg
/-!
# C07 — Concurrent sends through one pooled transport stay isolated and exactly-once

Model: `Model/PoolLts.lean`, the sync and tokio pools as one transition system over their
critical sections, any number of senders, any peer behaviour, any order of transitions
(`run s es` for an arbitrary list of events).  The correspondence check forces such orders on
the real pools and replays them through `step`.

Proved for every schedule: a connection is in at most one place at any time (parked, held by
one sender, waiting in one recycle task, or held by the maintenance worker) — which is what
makes one transition of the model (lock + the lock-free work after it) atomic; the number of
messages the peer commits equals the number of successful sends; every connection id a thread
or the pool holds denotes an existing connection.  That transactions are whole and carry one
sender's identity from MAIL to the committed content is the peer-side oracle on every replayed
schedule (in the model a transaction is one atomic step of `transact`).
-/
namespace LV.C07
open LV.PoolLts

/-- **Exactly once, in numbers.** Under every interleaving of check-outs, returns, maintenance
    passes and shutdowns, for any number of senders, any pool configuration and any peer
    behaviour: the messages committed at the peer are as many as the sends that reported
    success. -/
theorem commits_equal_successes (isAsync : Bool) (maxSize minIdle sends nSenders : Nat)
    (plans : List Plan) (es : List Ev) (s : St)
    (hr : run (init isAsync maxSize minIdle sends nSenders plans) es = some s) :
    totalCommits s = totalOk s :=
  (valid_count_run es _ s (valid_init ..) (count_init ..) hr).2

/-- **Exactly once, message by message.** Under every interleaving of check-outs, returns, maintenance passes, waits and
    shutdowns, for any number of senders, any pool configuration and any peer behaviour: for every sender `i` and every
    message index `m`, the commits the peers have recorded for `(i, m)` — over all connections ever opened — number one if
    the `m`-th send of sender `i` reported success, and none otherwise (it failed, was refused, or has not been sent).
    No message is delivered twice, none is reported delivered without having been, and none is delivered under another
    send's identity. -/
theorem each_message_exactly_once (isAsync : Bool) (maxSize minIdle sends nSenders : Nat)
    (plans : List Plan) (es : List Ev) (s : St)
    (hr : run (init isAsync maxSize minIdle sends nSenders plans) es = some s) (i m : Nat) :
    totalOf i m s = okAt i m s :=
  (valid_books_run es _ s (valid_init ..) (books_init ..) hr).2.2 i m

/-- …and the results a sender has are those of its messages `0 .. next-1`, plus the one of the send whose connection it
    still holds: the `m`-th result is the result of message `m`. -/
theorem results_are_indexed_by_message (isAsync : Bool) (maxSize minIdle sends nSenders : Nat)
    (plans : List Plan) (es : List Ev) (s : St)
    (hr : run (init isAsync maxSize minIdle sends nSenders plans) es = some s) (i : Nat) (t : Sender)
    (ht : s.senders[i]? = some t) :
    t.results.length = t.next + (if t.holding.isSome then 1 else 0) :=
  (valid_books_run es _ s (valid_init ..) (books_init ..) hr).2.1 i t ht

/-- non-vacuity: the peer drops the first connection after its second message; sender 1's check-out finds it dead (the
    probe fails, nothing is sent on it), its next check-out opens a new connection. Both messages of sender 0 and the
    first of sender 1 are committed once, the second of sender 1 (not sent yet) not at all. -/
example :
    let s := (run (init false 1 0 2 2 [{ dropAfter := some 2 }, {}])
      [.maintScan, .connectionLock 0, .recycleLock 0, .connectionLock 0, .recycleLock 0,
       .connectionLock 1, .connectionLock 1, .recycleLock 1]).getD (init false 1 0 0 0 [])
    (totalOf 0 0 s, totalOf 0 1 s, totalOf 1 0 s, totalOf 1 1 s) = (1, 1, 1, 0) ∧
      (okAt 0 0 s, okAt 0 1 s, okAt 1 0 s, okAt 1 1 s) = (1, 1, 1, 0) ∧ s.conns.length = 2 := by
  decide

/-- **One user at a time.** Under every interleaving, every connection is in at most one place:
    parked in the idle set, held by exactly one sender, waiting in exactly one (tokio) recycle
    task, or held by the maintenance worker — never two of these, never twice in one. -/
theorem one_place_at_a_time (isAsync : Bool) (maxSize minIdle sends nSenders : Nat)
    (plans : List Plan) (es : List Ev) (s : St)
    (hr : run (init isAsync maxSize minIdle sends nSenders plans) es = some s) (c : Nat) :
    occ s c ≤ 1 :=
  (valid_excl_run es _ s (valid_init ..) (excl_init isAsync maxSize minIdle sends nSenders plans) hr).2 c

/-- One transition: a transaction adds exactly one commit to the connection it runs on iff it
    reports success (and leaves every other connection alone). -/
theorem transaction_commits_iff_ok (k : Conn) (i m : Nat) :
    commitsOn (transact k i m).1 = commitsOn k + (if (transact k i m).2 = .ok then 1 else 0) :=
  commitsOn_transact k i m

/-- **A failed command ends the connection.** A transaction that does not report success — the peer gone, the
    recipient refused (550 or 450), the DATA command refused (451) — leaves its connection closed and marked broken: it
    is never half-way through a transaction when somebody else could see it. -/
theorem failed_transaction_closes (k : Conn) (i m : Nat) (h : (transact k i m).2 ≠ .ok) :
    (transact k i m).1.closed = true ∧ ((transact k i m).1.broken = true ∨ k.closed = true) := by
  have key : ∀ k' : Conn, k'.closed = k.closed →
      (abortConn k').closed = true ∧ ((abortConn k').broken = true ∨ k.closed = true) := by
    intro k' hk; have := abortConn_closed k'; rw [hk] at this; exact this
  revert h
  unfold transact
  by_cases h3 : k.peerAlive
  · simp only [h3, Bool.not_true, Bool.false_eq_true, if_false]
    split
    · intro _; exact key _ (by simp [say])
    · split
      · intro _; exact key _ (by simp [say])
      · split
        · intro _; exact key _ (by simp [say])
        · split <;> (intro h; exact absurd rfl h)
  · simp only [h3]
    intro _
    simpa using key k rfl

/-- non-vacuity: the DATA command refused with 451 — the send fails, the peer has seen QUIT and the close, nothing else -/
example :
    let k : Conn := { tempData := some 1, hist := [.ehlo] }
    (transact k 0 0).2 = .trans ∧ (transact k 0 0).1.closed = true ∧
      (transact k 0 0).1.hist = [.eof, .quit, .dataTemp, .rcpt, .mail 0, .ehlo] := by
  decide

/-- **A transaction is whole and carries one sender's identity.** Whatever the peer does, one transaction of sender `i`
    with message `m` adds to the connection's history, in one piece: nothing but the close (the peer was gone); or
    `MAIL(i)` followed by a refused recipient, or by `RCPT` and a refused `DATA`, each followed by nothing but QUIT / the
    close; or `MAIL(i) RCPT DATA commit(i, m)`, possibly followed by the peer's own close. No event of another sender
    and no second commit can appear inside it. -/
theorem transaction_is_whole (k : Conn) (i m : Nat) :
    ∃ tail body : List SEv, (transact k i m).1.hist = tail ++ body ++ k.hist ∧
      (body = [] ∨ body = [.rcptRej, .mail i] ∨ body = [.rcptTemp, .mail i] ∨ body = [.dataTemp, .rcpt, .mail i] ∨
        body = [.commit i m, .data, .rcpt, .mail i]) ∧
      (∀ e ∈ tail, e = .quit ∨ e = .eof ∨ e = .kill) := by
  have hab : ∀ k' : Conn, ∃ tail : List SEv, (abortConn k').hist = tail ++ k'.hist ∧ ∀ e ∈ tail, e = .quit ∨ e = .eof ∨ e = .kill := by
    intro k'
    unfold abortConn
    by_cases h1 : k'.closed
    · exact ⟨[], by simp [h1], by simp⟩
    · by_cases h2 : k'.broken <;> by_cases h3 : k'.peerAlive
      · exact ⟨[.eof], by simp [h1, h2, h3, say], by simp⟩
      · exact ⟨[], by simp [h1, h2, h3], by simp⟩
      · exact ⟨[.eof, .quit], by simp [h1, h2, h3, say], by simp⟩
      · exact ⟨[], by simp [h1, h2, h3], by simp⟩
  unfold transact
  by_cases h3 : k.peerAlive
  · simp only [h3, Bool.not_true, Bool.false_eq_true, if_false]
    split
    · obtain ⟨t, ht, hq⟩ := hab (say { say k (.mail i) with txns := k.txns + 1 } .rcptRej)
      exact ⟨t, [.rcptRej, .mail i], by rw [ht]; simp [say], by simp, hq⟩
    · split
      · obtain ⟨t, ht, hq⟩ := hab (say { say k (.mail i) with txns := k.txns + 1 } .rcptTemp)
        exact ⟨t, [.rcptTemp, .mail i], by rw [ht]; simp [say], by simp, hq⟩
      · split
        · obtain ⟨t, ht, hq⟩ := hab (say (say { say k (.mail i) with txns := k.txns + 1 } .rcpt) .dataTemp)
          exact ⟨t, [.dataTemp, .rcpt, .mail i], by rw [ht]; simp [say], by simp, hq⟩
        · split
          · exact ⟨[.kill], [.commit i m, .data, .rcpt, .mail i], by simp [say], by simp, by simp⟩
          · exact ⟨[], [.commit i m, .data, .rcpt, .mail i], by simp [say], by simp, by simp⟩
  · simp only [h3]
    obtain ⟨t, ht, hq⟩ := hab k
    exact ⟨t, [], by simpa using ht, by simp, hq⟩

/-- … and a broken connection is not handed back: after a send on a connection that came out broken, the sender holds
    nothing (blocking pool) and the recycle task it spawns carries no connection (tokio pool). -/
theorem broken_connection_not_returned (s : St) (i c : Nat) (r : Res) (h : (getConn s c).broken = true) :
    (finishSend s i c r).idle = s.idle ∧
    (s.isAsync = true → (finishSend s i c r).recyclers = s.recyclers ++ [none]) ∧
    (s.isAsync = false → (finishSend s i c r).recyclers = s.recyclers ∧
      ∀ t0, s.senders[i]? = some t0 → ∃ t, (finishSend s i c r).senders[i]? = some t ∧ t.holding = t0.holding) := by
  unfold finishSend
  simp only [h, if_true]
  by_cases ha : s.isAsync
  · simp [ha, updSender]
  · simp only [ha, Bool.false_eq_true, if_false]
    refine ⟨by simp [updSender], by simp, fun _ => ⟨by simp [updSender], ?_⟩⟩
    intro t0 ht
    exact ⟨{ t0 with next := t0.next + 1, results := r :: t0.results }, by simp [updSender, List.getElem?_modify_eq, ht], rfl⟩

/-- Every connection id held anywhere (parked, in use, being returned, held by the worker) is the
    id of a connection that was opened: no transition invents or loses track of a connection. -/
theorem ids_valid (isAsync : Bool) (maxSize minIdle sends nSenders : Nat)
    (plans : List Plan) (es : List Ev) (s : St)
    (hr : run (init isAsync maxSize minIdle sends nSenders plans) es = some s) : Valid s :=
  (valid_count_run es _ s (valid_init ..) (count_init ..) hr).1

/-! Non-vacuity: two senders interleave on a pool of size 1 (check-out, check-out, return, return). -/
example : (run (init false 1 0 1 2 []) [.maintScan, .connectionLock 0, .connectionLock 1, .recycleLock 0, .recycleLock 1]).isSome = true := by
  decide

end LV.C07
