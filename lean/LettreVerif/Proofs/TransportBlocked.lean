import LettreVerif.Proofs.Timeouts
import LettreVerif.Proofs.TransportOnce
/-!
# How long one `send_raw` can wait on silent peers (C20, transport level)

`Conn.blocked` counts the reads of a connection that waited on a silent peer; `Pool.totalBlocked` sums it over every
connection of the transport.  One `send_raw` over a pool with `n` parked connections adds at most `2·n + 5`: two per
parked connection that fails its NOOP probe (the probe and the QUIT of `abort`), two for a new connection (greeting or
EHLO, and QUIT), two for the transaction (`send_blocked`), one for the QUIT of a connection that cannot be parked.
-/
namespace LV.Transport
open LV LV.Client LV.Response

theorem sum_set_g (g : Conn → Nat) (l : List Conn) (i : Nat) (c c0 : Conn) (h : l[i]? = some c0) :
    ((l.set i c).map g).sum + g c0 = (l.map g).sum + g c := by
  induction l generalizing i with
  | nil => simp at h
  | cons a l ih =>
    cases i with
    | zero => simp at h; subst h; simp; omega
    | succ i =>
      simp at h
      have := ih i h
      simp only [List.set_cons_succ, List.map_cons, List.sum_cons]
      omega

theorem blocked_setConn (p : Pool) (i : Nat) (c c0 : Conn) (h : p.conns[i]? = some c0) :
    (p.setConn i c).totalBlocked + c0.blocked = p.totalBlocked + c.blocked := by
  simpa [Pool.setConn, Pool.totalBlocked] using sum_set_g (·.blocked) p.conns i c c0 h

theorem read_blocked_le (c : Conn) : c.read.1.blocked ≤ c.blocked + 1 := by
  rcases read_blocked c with h | ⟨h, _⟩ <;> omega

theorem command_blocked_le (c : Conn) (l : Bytes) : (c.command l).1.blocked ≤ c.blocked + 1 := by
  rcases command_blocked c l with h | ⟨h, _⟩ <;> omega

theorem testConnected_blocked (c : Conn) : c.testConnected.1.blocked ≤ c.blocked + 1 := by
  have h0 := command_blocked_le c noopLine
  unfold Conn.testConnected
  split <;> (rename_i heq; rw [heq] at h0; exact h0)

/-- a guarded command: at most two waits, none when it succeeds -/
theorem tryAbort_command_blocked (c : Conn) (l : Bytes) :
    (tryAbort (c.command l)).1.blocked ≤ c.blocked + 2 ∧
    (∀ r, (tryAbort (c.command l)).2 = .ok r → (tryAbort (c.command l)).1.blocked = c.blocked) := by
  have hc := command_blocked c l
  unfold tryAbort
  split
  · rename_i c1 e heq
    rw [heq] at hc
    have := abort_blocked c1
    simp only at hc ⊢
    refine ⟨by rcases hc with h | ⟨h, _⟩ <;> omega, fun r hr => by cases hr⟩
  · rename_i x hx
    refine ⟨by rcases hc with h | ⟨h, _⟩ <;> omega, fun r hr => ?_⟩
    rcases hc with h | ⟨_, e, he⟩
    · exact h
    · rw [he] at hr; cases hr

theorem ehlo_blocked (c : Conn) (hello : Bytes) : (c.ehlo hello).1.blocked ≤ c.blocked + 2 := by
  have h0 := tryAbort_command_blocked c (ehloLine hello)
  unfold Conn.ehlo
  split
  · rename_i c1 e heq; rw [heq] at h0; exact h0.1
  · rename_i c1 r heq
    rw [heq] at h0
    have h1 := h0.2 r rfl
    simp only at h1
    split
    · simp only; omega
    · have := abort_blocked c1; simp only; omega

@[simp] theorem blocked_idle (p : Pool) (l : List Nat) : ({ p with idle := l } : Pool).totalBlocked = p.totalBlocked := rfl

theorem open_blocked (p : Pool) : p.open.1.totalBlocked ≤ p.totalBlocked + 2 := by
  unfold Pool.open
  split
  · exact Nat.le_add_right _ _
  · rename_i s rest hs
    have hc : ∀ c0 : Conn, c0.blocked = 0 →
        (match c0.read with
          | (c, .error e) => (c, (.error e : Except Err Unit))
          | (c, .ok _) => c.ehlo p.hello).1.blocked ≤ 2 := by
      intro c0 h0
      have hr := read_blocked c0
      split
      · rename_i c e heq; rw [heq] at hr; simp only at hr ⊢; rcases hr with h | ⟨h, _⟩ <;> omega
      · rename_i c r heq
        rw [heq] at hr
        simp only at hr
        have := ehlo_blocked c p.hello
        rcases hr with h | ⟨_, e, he⟩
        · omega
        · cases he
    simp only
    split <;>
    · simp only [Pool.totalBlocked, List.map_append, List.sum_append, List.map_cons, List.map_nil, List.sum_cons,
        List.sum_nil]
      rw [Nat.add_zero]
      apply Nat.add_le_add_left
      exact hc _ (by rw [deliver_blocked]; rfl)

theorem acquire_blocked (p : Pool) (l : List Nat) : (p.acquire l).1.totalBlocked ≤ p.totalBlocked + 2 * l.length + 2 := by
  induction l generalizing p with
  | nil => simpa [Pool.acquire] using open_blocked { p with idle := [] }
  | cons i rest ih =>
    unfold Pool.acquire
    split
    · have := ih p; simp only [List.length_cons]; omega
    · rename_i c hc
      have ht := testConnected_blocked c
      cases htc : c.testConnected with
      | mk c' ok =>
        rw [htc] at ht
        simp only at ht ⊢
        by_cases hok : ok = true
        · simp only [hok, if_true, blocked_idle, List.length_cons]
          have := blocked_setConn p i c' c hc
          omega
        · have hok' : ok = false := by simpa using hok
          simp only [hok', Bool.false_eq_true, if_false, List.length_cons]
          have h1 := ih (p.setConn i c'.abort)
          have h2 := blocked_setConn p i c'.abort c hc
          have h3 := abort_blocked c'
          omega

theorem recycle_blocked (p : Pool) (i : Nat) : (p.recycle i).totalBlocked ≤ p.totalBlocked + 1 := by
  unfold Pool.recycle
  split
  · omega
  · rename_i c hc
    have h1 := blocked_setConn p i c.abort c hc
    have h2 := abort_blocked c
    split
    · omega
    · split
      · omega
      · simp only [blocked_idle]; omega

/-- one `send_raw` over a pool with `n` parked connections: at most `2·n + 5` reads wait on silent peers, over all
    connections of the transport -/
theorem sendRaw_blocked (p : Pool) (f : Option Bytes) (to : List Bytes) (m : Bytes) :
    (p.sendRaw f to m).1.totalBlocked ≤ p.totalBlocked + 2 * p.idle.length + 5 := by
  have ha := acquire_blocked p p.idle
  unfold Pool.sendRaw
  split
  · rename_i p1 _ e heq; rw [heq] at ha; simp only at ha ⊢; omega
  · rename_i p1 heq; rw [heq] at ha; simp only at ha ⊢; omega
  · rename_i p1 i heq
    rw [heq] at ha; simp only at ha
    obtain ⟨c, hc, hs⟩ := acquire_some_open p p1 p.idle i heq
    simp only [hc]
    have h1 := blocked_setConn p1 i (c.send f to m).1 c hc
    have h2 := (send_blocked c f to m hs).1
    have h3 := recycle_blocked (p1.setConn i (c.send f to m).1) i
    omega

end LV.Transport
