import LettreVerif.Props.C08
#print axioms LV.C08.idle_within_max
#print axioms LV.C08.capFix_on
#print axioms LV.C08.dead_connection_not_reused
#print axioms LV.C08.live_connection_probed_first
#print axioms LV.C08.failed_probe_closes
#print axioms LV.C08.failed_connection_closed
#print axioms LV.C08.reachable_connections_are_healthy
#print axioms LV.C08.parked_connections_are_healthy
