#!/usr/bin/env python3
"""Markdown table of the seeded changes under /verif/seeded and what the checks said about each."""
import json, os, re
base = "/verif/seeded"
print("| change | file | what it breaks (trigger) | applies to HEAD | result of `./check` |")
print("|---|---|---|---|---|")
for pid in sorted(os.listdir(base)):
    d0 = os.path.join(base, pid)
    if not os.path.isdir(d0):
        continue
    for k in sorted(os.listdir(d0)):
        d = os.path.join(d0, k)
        if not os.path.exists(d + "/meta.json"):
            continue
        meta = json.load(open(d + "/meta.json"))
        res = json.load(open(d + "/result.json")) if os.path.exists(d + "/result.json") else {}
        what = meta.get("summary", "")
        if not what:
            desc = open(d + "/description.md").read() if os.path.exists(d + "/description.md") else ""
            lines = [l.strip() for l in desc.splitlines() if l.strip() and not l.startswith("#")]
            what = re.sub(r"[|`*]", "", " ".join(lines[:2]))[:230]
        files = ", ".join(os.path.basename(f) for f in meta.get("files", []))
        checks = res.get("checks", {})
        if not res:
            verdict = "not run"
        elif not res.get("applies_to_current_head"):
            verdict = "—"
        else:
            parts = []
            for c, v in checks.items():
                if v["exit"] != 0:
                    tail = " (no failing input found)" if v["violation"] and v["violation"][0].endswith("no-failing-input-found") else ""
                    parts.append(f"**{c}: VIOLATION**{tail}")
                else:
                    parts.append(f"{c}: passed")
            verdict = "; ".join(parts)
            if not any(v["exit"] != 0 for v in checks.values()):
                verdict += " (missed)" if not meta.get("not_a_violation") else " (" + meta["not_a_violation"] + ")"
        print(f"| {pid}/{k} | {files} | {what} | {'yes' if res.get('applies_to_current_head') else ('no' if res else '?')} | {verdict} |")
