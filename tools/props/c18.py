"""C18 — Every transport delivers the same envelope and the same bytes."""
from tools import smtpgen
from tools.props import c05
from tools.lv import hexs, hexlist, unhex

LEVEL = "proof"
RETRY_TIMING = True
JOBS = 16
CORRESPONDENCE = ("Model/Transports.lean (stub log, .eml/.json contents, sendmail argv/stdin/exit mapping) vs StubTransport, FileTransport, "
                  "SendmailTransport and their tokio variants; Model/Client.lean vs both SMTP clients on the same scripts (sync and async "
                  "are compared with the one model and with each other)")
RULE = ("transports: envelopes (no / ASCII / quoted / UTF-8 reverse path, 1..3 recipients incl. ones beginning with '-', quoted and "
        "UTF-8) x contents (ASCII, dots, 8-bit UTF-8, non-UTF-8 binary, empty, 100 KiB) x fake sendmail programs (succeed and dump "
        "argv+stdin / fail with diagnostics / fail with non-UTF-8 diagnostics / die from a signal), through the sync and tokio stub, file(+envelope) and "
        "sendmail transports; sendmsg: Transport::send(&Message) on the stub vs (envelope(), formatted()); client: each scripted server "
        "behaviour of C05 run through the sync client and the tokio client. Non-trivial = non-ASCII or dotted content, or more than "
        "one recipient, or a failing sendmail; distinct = distinct case lines.")
TRUSTED_BASE = ["Lean 4 kernel", "axioms: propext, Quot.sound, Classical.choice at most (see axioms per theorem)",
                "file system, process spawning (A9) and serde_json (A8) are inputs: what was written / passed is read back by the harness",
                "harness lvh + fake sendmail scripts under /verif/.work + scripted peer + this orchestrator"]
ASSUMPTIONS = ["std::process::Command passes each arg as one argv element", "serde_json round-trips strings", "uuid v4 ids do not collide"]
EXHAUSTIVE_PARTS = []

FROMS = ["a@b.c", "-", "\"a b\"@example.com", "üser@example.com", "-f@evil.example", "\"ops@night\"@example.org"]
TOS = ["x@y.z", "-x@o.c", "-oQ/tmp@o.c", "\"q\\\"uote\"@z.z", "用户@例え.jp", "first.last@example.org", "--@dash.example", "\"a@b\"@example.net", "x@[127.0.0.1]"]
MSGS = [b"hello\r\n", b".dot\r\n..\r\n.\r\n", b"caf\xc3\xa9\r\n", b"\xff\xfe\x00bin", b"", b"Subject: x\r\n\r\n" + b"0123456789" * 10000]


def gen(tier, rng):
    n, nc = {"quick": (120, 300), "search": (400, 1000), "thorough": (2000, 6000)}[tier]
    cases = []
    for i in range(n):
        f = rng.choice(FROMS)
        to = [rng.choice(TOS) for _ in range(rng.choice([1, 1, 2, 3]))]
        msg = rng.choice(MSGS)
        kind = rng.choice(["ok", "ok", "fail", "failbin", "killed", "faillong", "ignore"])
        cases.append(f"transports\t{hexs(f) if f != '-' else '-'}\t{hexlist([t.encode() for t in to])}\t{hexs(msg)}\t{kind}")
    # a program that never reads its input: a message larger than the pipe's buffer (the write fails) and a small one; a
    # program that fails with a long diagnostic (multi-byte characters at odd offsets)
    big = (b"0123456789abcdef" * 16 + b"\r\n") * 1000
    for kind, msg in (("ignore", big), ("ignore", b"small\r\n"), ("faillong", b"m\r\n"), ("faillong", big[:70000])):
        cases.append(f"transports\t{hexs('a@b.c')}\t{hexlist([b'x@y.z'])}\t{hexs(msg)}\t{kind}")
    for subj, body in [("s", "b\r\n"), ("héllo wörld", "bödy\r\n"), ("x" * 200, ".\r\n.\r\n")]:
        cases.append(f"sendmsg\t{hexs('A <a@b.c>')}\t{hexs('x@y.z')}\t{hexs(subj)}\t{hexs(body)}")
    # the same scripted server behaviours through the sync and the tokio client
    base = smtpgen.send_cases(rng, nc, single_faults=(tier != "quick"))
    for c in base:
        f = c.split("\t")
        for mode in "sa":
            f[1] = mode
            cases.append("\t".join(f))
    # authentication dialogues (accepted, refused at every step, endless challenges) through both clients
    for c in smtpgen.auth_cases(rng, {"quick": 150, "search": 400, "thorough": 1500}[tier]):
        f = c.split("\t")
        for mode in "sa":
            f[1] = mode
            cases.append("\t".join(f))
    # the pooled transports, sync and tokio, against peers that drop or refuse: each is compared with the pool model
    # (a parked connection that the peer closed is replaced, the message still reaches the wire)
    from tools.props import c08
    pooled = [c for c in c08.gen("quick", rng) if c.startswith("sched") and "W" not in c.split("\t")[8].split(",")]
    dropped = [c for c in pooled if ":d" in c.split("\t")[7] or ":x" in c.split("\t")[7]]
    cases += dropped[:{"quick": 120, "search": 300, "thorough": 600}[tier]]
    return cases


def timing_dependent(case):
    # a real client against a real peer with read timeouts: a disagreement is re-run alone before it counts
    return case.split("\t")[0] in ("pool", "wstall", "client", "tls", "sched")


def nontrivial(case):
    f = case.split("\t")
    if f[0] == "transports":
        m = unhex(f[3])
        return any(b > 127 for b in m) or b"\n." in m or m.startswith(b".") or "," in f[2] or f[4] != "ok"
    if f[0] == "client":
        return c05.nontrivial(case)
    return True


def shrinkable(case):
    return [3] if case.startswith("transports") else []


def distribution(cases):
    d = {}
    for c in cases:
        f = c.split("\t")
        k = f[0] + ("_" + f[4] if f[0] == "transports" else ("_" + f[1] if f[0] == "client" else ""))
        d[k] = d.get(k, 0) + 1
    return d


def _stub_non_utf8(f, o, v):
    if f[0] != "transports" or "stub-log-is-not-the-octets" not in v:
        return False
    try:
        unhex(f[3]).decode("utf-8")
        return False
    except UnicodeDecodeError:
        return True


FINDING_CLASSES = {"stub-non-utf8": _stub_non_utf8}
