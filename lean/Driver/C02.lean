import Driver.Util
import LettreVerif.Model.HeaderEnc
import LettreVerif.Spec.HeaderReader
import LettreVerif.Spec.Rfc2047Dec
namespace LV.Driver.C02
open LV LV.HeaderEnc LV.HeaderReader LV.Driver

def asciiLower (b : Byte) : Byte := if 65 ≤ b.toNat ∧ b.toNat ≤ 90 then b + 32 else b
def eqNoCase (a b : Bytes) : Bool := a.map asciiLower == b.map asciiLower

/-- C02 oracle for one field: an RFC 5322 reader given `block ++ "X-End: 1" CRLF CRLF "body"`
    must see exactly this field, then X-End, then the body; lines are well formed -/
def fieldOracle (name : Bytes) (block : Bytes) : Option String :=
  let probe := block ++ str "X-End: 1\r\n\r\nbody"
  match split probe with
  | none => some "header-section-does-not-parse"
  | some (fields, body) =>
    if body != str "body" then some "supplied-text-terminated-the-header-section"
    else match fields with
      | [(n, _), (e, v)] =>
        if n != name then some "field-name-changed"
        else if e != str "X-End" || v != str "1" then some "following-field-damaged"
        else if !linesOk false 998 block then some "line-with-bare-CR-LF-or-non-printable-octet-or-over-998"
        else if !longLinesAreSingleTokens block then some "line-over-78-that-could-have-been-folded"
        else none
      | _ => some s!"supplied-text-added-or-split-a-field:{fields.length}"

/-- `hval <name> <raw> | ok <block>` : used by C02 (well-formedness) and C12 (round trip) -/
def hvalOp (checkRoundTrip : Bool) : List String → String
  | [name, raw, st, block] =>
    if st == "PANIC" then propfail "panic" else
    match ofHex name, ofHex raw with
    | some n, some r =>
      if st == "badname" then (if nameOk strictNames n then "MISMATCH hname model=ok" else "ok") else
      match ofHex block with
      | none => "BADLINE"
      | some blk =>
        let pre := n ++ [58, 32]
        if !(pre.isPrefixOf blk) || blk.drop (blk.length - 2) != CRLF then propfail "block-is-not-name-colon-value-CRLF"
        else
          let v := (blk.drop pre.length).take (blk.length - pre.length - 2)
          -- an over-long but foldable line (the recorded folding findings) is reported only when nothing else is wrong
          let soft := "line-over-78-that-could-have-been-folded"
          let fo := fieldOracle n blk
          match fo with
          | some e => if e != soft then propfail e else
            if checkRoundTrip && Rfc2047Dec.decode v != r then propfail "reader-does-not-recover-the-text"
            else
              let m := encodeValue opts n.length r
              if !nameOk strictNames n then "MISMATCH hname model=err"
              else if m == v then propfail soft else mismatch "hval" m
          | none =>
            if checkRoundTrip && Rfc2047Dec.decode v != r then propfail "reader-does-not-recover-the-text"
            else
              let m := encodeValue opts n.length r
              if !nameOk strictNames n then "MISMATCH hname model=err"
              else if m == v then "ok" else mismatch "hval" m
    | _, _ => "BADLINE"
  | l => if l.getLast? == some "PANIC" then propfail "panic" else "BADLINE"

/-- a name the reader can take as a field name: visible ASCII without ':' (RFC 5322 ftext) -/
def ftextName (n : Bytes) : Bool := !n.isEmpty && n.all (fun b => 33 ≤ b.toNat && b.toNat ≤ 126 && b.toNat != 58)

def hnameOp : List String → String
  | [n, res] =>
    match ofHex n with
    | some n =>
      if res == "PANIC" then propfail "panic"
      else if res.startsWith "ctor-differs" then propfail s!"constructors-of-HeaderName-disagree-on-the-same-string:{res}"
      else if res == "notutf8" then "ok"
      else if res == "ok" && !ftextName n then propfail "header-name-with-control-space-or-colon-accepted"
      else if (res == "ok") == nameOk strictNames n then "ok" else s!"MISMATCH hname model={nameOk strictNames n}"
    | none => "BADLINE"
  | _ => "BADLINE"

/-- the abstract header store: one entry per name (case-insensitively), insertion order -/
def storeInsert (st : List (Bytes × Bytes)) (n v : Bytes) : List (Bytes × Bytes) :=
  if st.any (fun e => eqNoCase e.1 n) then st.map (fun e => if eqNoCase e.1 n then (n, v) else e) else st ++ [(n, v)]

def storeRemove (st : List (Bytes × Bytes)) (n : Bytes) : List (Bytes × Bytes) :=
  match st.findIdx? (fun e => eqNoCase e.1 n) with
  | some i => st.eraseIdx i
  | none => st

def hdrsOp : List String → String
  | [ops, block, gets] =>
    if block == "PANIC" then propfail "panic" else
    match ofHex block with
    | none => "BADLINE"
    | some blk =>
      -- replay on the abstract store
      let step (acc : Option (List (Bytes × Bytes) × List String)) (op : String) : Option (List (Bytes × Bytes) × List String) :=
        match acc with
        | none => none
        | some (st, gs) =>
          match op.splitOn ":" with
          | ["i", n, r] => do let n ← ofHex n; let r ← ofHex r; some (storeInsert st n r, gs)
          | ["r", n] => do let n ← ofHex n; some (storeRemove st n, gs)
          | ["g", n] => do
            let n ← ofHex n
            let a := match st.find? (fun e => eqNoCase e.1 n) with
              | some e => s!"some:{toHexField e.2}"
              | none => "none"
            some (st, gs ++ [a])
          | _ => none
      match (ops.splitOn ";").foldl step (some ([], [])) with
      | none => "BADLINE"
      | some (st, gs) =>
        let expGets := if gs.isEmpty then "-" else ",".intercalate gs
        -- the reader must see exactly the stored fields, in order, one per name
        match split (blk ++ str "\r\nbody") with
        | none => propfail "header-section-does-not-parse"
        | some (fields, body) =>
          if body != str "body" then propfail "supplied-text-terminated-the-header-section"
          else if fields.map (·.1) != st.map (·.1) then propfail "fields-read-differ-from-fields-set"
          else if (fields.zip st).any (fun (f, e) => Rfc2047Dec.decode f.2 != e.2) then propfail "a-field-value-does-not-read-back"
          else if gets != expGets then s!"MISMATCH gets model={expGets}"
          else
            let m := (st.map fun e => e.1 ++ [58, 32] ++ encodeValue opts e.1.length e.2 ++ CRLF).flatten
            if m == blk then "ok" else mismatch "hdrs" m
  | l => if l.getLast? == some "PANIC" then propfail "panic" else "BADLINE"

end LV.Driver.C02
