//! `lvh`: runs lettre's real code on cases read from stdin.
//!
//! Input: one case per line, `op \t in1 \t in2 …` (byte/str fields hex encoded, `-` = empty).
//! Output: the same line with the implementation's canonicalised results appended and a
//! final sentinel field `.`. A panic inside the library becomes the single result `PANIC`.

mod util;
mod c02;
mod c03;
mod c04;
mod c10;
mod c11;
mod c13;
mod c15;
mod c16;
mod c17;
mod c18;
mod c19;
mod client;
mod poolop;
mod sched;
mod sched_async;
mod server;
mod shutop;
mod tlsop;

use std::io::{BufRead, Write};

fn eval(op: &str, args: &[&str]) -> Option<Vec<String>> {
    match op {
        "codec" => c03::codec(args),
        "estep" => c03::estep(args),
        "wire" => c03::wire(args),
        "wire2" => c03::wire2(args),
        "bigwire" => c03::bigwire(args),
        "parse" => c15::parse(args),
        "rr" => c15::rr(args),
        "sinfo" => c15::sinfo(args),
        "addr" => c16::addr(args),
        "addrnew" => c16::addrnew(args),
        "addrrt" => c16::addrrt(args),
        "envelope" => c16::envelope(args),
        "envjson" => c16::envjson(args),
        "envhdrs" => c16::envhdrs(args),
        "mailcmd" => c16::mailcmd(args),
        "argv" => c16::argv(args),
        "envcheck" => c16::envcheck(args),
        "client" => client::client(args),
        "tls" => tlsop::tls(args),
        "tstall" => tlsop::tstall(args),
        "pool" => poolop::pool(args),
        "tconn" => poolop::tconn(args),
        "urlauth" => poolop::urlauth(args),
        "wstall" => poolop::wstall(args),
        "ctor" => tlsop::ctor(args),
        "racc" => c15::racc(args),
        "cstall" => poolop::cstall(args),
        "late" => poolop::late(args),
        "shut" => shutop::shut(args),
        "transports" => c18::transports(args),
        "body" => c10::body(args),
        "hval" | "hvalrt" => c02::hval(args),
        "hname" => c02::hname(args),
        "mime" => c11::mime(args),
        "dkim" => c13::dkim(args),
        "sched" => sched::sched(args),
        "np" => c19::np(args),
        "scale" => c19::scale(args),
        "npdbg" => c19::npdbg(args),
        "dkimbody" => c13::dkimbody(args),
        "dkimhdrs" => c13::dkimhdrs(args),
        "mbox" => c17::mbox(args),
        "mboxlist" => c17::mboxlist(args),
        "mboxparse" => c17::mboxparse(args),
        "date" => c17::date(args),
        "dparse" => c17::dparse(args),
        "mboxctor" => c17::mboxctor(args),
        "typed" => c17::typed(args),
        "tparse" => c17::tparse(args),
        "build" => c17::build(args),
        "hdrs" => c02::hdrs(args),
        "crlf" => c10::crlf(args),
        "qp" => c10::qp(args),
        "b64" => c10::b64(args),
        "sendmsg" => c18::sendmsg(args),
        "mailparam" => c04::mailparam(args),
        "urlcred" => c04::urlcred(args),
        "ehlocmd" => c04::ehlocmd(args),
        "mailstd" => c04::mailstd(args),
        _ => None,
    }
}

fn main() {
    // LVH_SHOW_PANICS=1: print where a panic comes from (diagnosis of a PANIC verdict)
    if std::env::var_os("LVH_SHOW_PANICS").is_none() {
        std::panic::set_hook(Box::new(|_| {}));
    }
    let stdin = std::io::stdin();
    let stdout = std::io::stdout();
    let mut out = std::io::BufWriter::new(stdout.lock());
    for line in stdin.lock().lines() {
        let line = line.expect("read line");
        let line = line.trim_end_matches(['\r', '\n']);
        if line.is_empty() {
            continue;
        }
        let mut fields: Vec<&str> = line.split('\t').collect();
        let op = fields.remove(0);
        let res = std::panic::catch_unwind(std::panic::AssertUnwindSafe(|| eval(op, &fields)));
        let res = match res {
            Ok(Some(r)) => r,
            Ok(None) => vec!["BADCASE".to_string()],
            Err(_) => vec!["PANIC".to_string()],
        };
        write!(out, "{}", line).unwrap();
        for r in res {
            write!(out, "\t{}", r).unwrap();
        }
        writeln!(out, "\t.").unwrap();
    }
    out.flush().unwrap();
}
