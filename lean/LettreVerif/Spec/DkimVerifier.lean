import LettreVerif.Spec.HeaderReader
import LettreVerif.Model.Base64
import LettreVerif.Model.Sha256
/-!
# S: an RFC 6376 verifier's view of a message (independent of the signer's code)

Written from the RFC text, line and field oriented:

* §3.4.3 simple body: `*CRLF` at the end of the body becomes a single CRLF
* §3.4.4 relaxed body: per line, ignore white space at the end, reduce white-space runs to one
  SP; then `*CRLF` at the end becomes a single CRLF, except that an empty result stays empty
* §3.4.1 simple header: the field as it is
* §3.4.2 relaxed header: name to lower case, unfold, white-space runs to one SP, no white
  space at the end of the value nor around the colon
* §3.5 tag list; §5.4.2 field selection from the bottom of the header block, one further up
  per repetition of a name in `h=`, nothing for a name that runs out of instances
* §3.7 the signature field itself is hashed last, with the value of `b=` deleted and without
  its trailing CRLF

The cryptographic primitives stay outside: the reader produces the two octet strings that a
verifier hashes, and recomputes `bh=` with `Sha256`.
-/
namespace LV.DkimVerifier
open LV

def isWsp (b : Byte) : Bool := b == 32 || b == 9
def lower (b : Byte) : Byte := if 65 ≤ b.toNat ∧ b.toNat ≤ 90 then b + 32 else b

/-- on the reversed body: drop every CRLF at the end (`*CRLF`) -/
def dropCrlfRev : Bytes → Bytes
  | 10 :: 13 :: r => dropCrlfRev r
  | r => r

/-- the body without the CRLFs at its end -/
def stripTrailingCrlfs (b : Bytes) : Bytes := (dropCrlfRev b.reverse).reverse

/-- §3.4.3 "in more formal terms, the simple body canonicalization algorithm converts *CRLF at
    the end of the body to a single CRLF" (which covers: empty lines at the end are ignored;
    no body or no trailing CRLF → a CRLF is added) -/
def simpleBody (b : Bytes) : Bytes := stripTrailingCrlfs b ++ CRLF

/-- the complete lines of a body (without their CRLF) and the unterminated rest -/
def splitLines : Bytes → List Bytes × Bytes
  | 13 :: 10 :: r => let (ls, rest) := splitLines r; ([] :: ls, rest)
  | b :: r =>
    match splitLines r with
    | (l :: ls, rest) => ((b :: l) :: ls, rest)
    | ([], rest) => ([], b :: rest)
  | [] => ([], [])

/-- reduce every run of SP/HTAB to a single SP -/
def compressWsp : Bytes → Bytes
  | a :: b :: r =>
    if isWsp a then (if isWsp b then compressWsp (b :: r) else 32 :: compressWsp (b :: r))
    else a :: compressWsp (b :: r)
  | [a] => if isWsp a then [32] else [a]
  | [] => []

def stripTrailingWsp (l : Bytes) : Bytes := (l.reverse.dropWhile isWsp).reverse

/-- §3.4.4 a: white space at the end of the line ignored, runs of WSP reduced to one SP -/
def relaxedLine (l : Bytes) : Bytes := compressWsp (stripTrailingWsp l)

def joinLines (ls : List Bytes) : Bytes := (ls.map (· ++ CRLF)).flatten

/-- step a applied to every line; line terminators stay -/
def reduceWsp (b : Bytes) : Bytes :=
  let (ls, rest) := splitLines b
  joinLines (ls.map relaxedLine) ++ relaxedLine rest

/-- §3.4.4: a, then b: empty lines at the end ignored; a non-empty body gets a final CRLF when
    it has none; a body without content stays empty -/
def relaxedBody (b : Bytes) : Bytes :=
  let s := stripTrailingCrlfs (reduceWsp b)
  if s.isEmpty then [] else s ++ CRLF

def bodyCanon (relaxed : Bool) (b : Bytes) : Bytes := if relaxed then relaxedBody b else simpleBody b

/-! ## header fields -/

/-- a field as the reader sees it: the octets of the field without the final CRLF -/
abbrev Field := Bytes

def fieldName (f : Field) : Bytes := f.takeWhile (· != 58)
def fieldValue (f : Field) : Bytes := (f.dropWhile (· != 58)).drop 1

def nameIs (n : Bytes) (f : Field) : Bool :=
  (stripTrailingWsp (fieldName f)).map lower == n.map lower

def simpleField (f : Field) : Bytes := f ++ CRLF

def relaxedField (f : Field) : Bytes :=
  let name := (stripTrailingWsp (fieldName f)).map lower
  let v := HeaderReader.unfold (fieldValue f)
  let v := compressWsp v
  let v := stripTrailingWsp (v.dropWhile isWsp)
  name ++ [58] ++ v ++ CRLF

def canonField (relaxed : Bool) (f : Field) : Bytes := if relaxed then relaxedField f else simpleField f

/-- the header block as fields (top to bottom) and the body -/
def splitMessage : Nat → Bytes → List Field → Option (List Field × Bytes)
  | 0, _, _ => none
  | fuel + 1, s, acc =>
    match s with
    | 13 :: 10 :: body => some (acc.reverse, body)
    | _ =>
      match HeaderReader.takeField [] s with
      | none => none
      | some (f, rest) => splitMessage fuel rest (f :: acc)

/-- §5.4.2: going through `h=`, take for each name the lowest instance not yet taken -/
def selectGo : List Bytes → List Field → List Field → List Field
  | [], _, acc => acc.reverse
  | n :: ns, avail, acc =>
    -- `avail` is the header block bottom-up, instances already taken removed
    match avail.find? (nameIs n) with
    | some f => selectGo ns (avail.erase f) (f :: acc)
    | none => selectGo ns avail acc

def select (hnames : List Bytes) (fields : List Field) : List Field := selectGo hnames fields.reverse []

/-! ## tag lists (§3.2) -/

def isFws (b : Byte) : Bool := b == 32 || b == 9 || b == 13 || b == 10
def trimFws (b : Bytes) : Bytes := ((b.dropWhile isFws).reverse.dropWhile isFws).reverse
def noFws (b : Bytes) : Bytes := b.filter (fun c => !isFws c)

def splitOn (sep : Byte) : Bytes → Bytes → List Bytes
  | acc, [] => [acc.reverse]
  | acc, c :: r => if c == sep then acc.reverse :: splitOn sep [] r else splitOn sep (c :: acc) r

def tagOf (item : Bytes) : Option (Bytes × Bytes) :=
  let name := item.takeWhile (· != 61)
  match item.drop name.length with
  | 61 :: v => some (trimFws name, v)
  | _ => none

def tags (value : Bytes) : List (Bytes × Bytes) := (splitOn 59 [] value).filterMap tagOf

def tagValue (ts : List (Bytes × Bytes)) (n : String) : Option Bytes :=
  (ts.find? (fun t => t.1 == str n)).map (·.2)

/-- the field with the value of its `b=` tag (and the white space around it) deleted -/
def deleteB (f : Field) : Field :=
  let name := fieldName f
  let items := splitOn 59 [] (fieldValue f)
  let items := items.map fun it =>
    match tagOf it with
    | some (n, _) => if n == str "b" then it.takeWhile (· != 61) ++ [61] else it
    | none => it
  name ++ [58] ++ (items.intersperse [59]).flatten

structure View where
  fields : List Field
  body : Bytes
  sigField : Field
  tags : List (Bytes × Bytes)
  hcRelaxed : Bool
  bcRelaxed : Bool
  hnames : List Bytes
  bodyInput : Bytes
  headerInput : Bytes
  bh : Bytes           -- the `bh=` value, white space removed
  b : Bytes            -- the `b=` value, white space removed
deriving Repr

def parseC (v : Option Bytes) : Option (Bool × Bool) :=
  match v with
  | none => some (false, false)
  | some v =>
    let v := noFws v
    match splitOn 47 [] v with
    | [h] => if h == str "simple" then some (false, false) else if h == str "relaxed" then some (true, false) else none
    | [h, b] =>
      let one (x : Bytes) : Option Bool := if x == str "simple" then some false else if x == str "relaxed" then some true else none
      match one h, one b with
      | some h, some b => some (h, b)
      | _, _ => none
    | _ => none

/-- what a verifier extracts from the emitted octets; `none` = it cannot even be read
    (no header block, not exactly one DKIM-Signature field, required tag missing, `l=` present) -/
def view (msg : Bytes) : Option View := do
  let (fields, body) ← splitMessage (msg.length + 1) msg []
  let sigs := fields.filter (nameIs (str "DKIM-Signature"))
  let sigField ← match sigs with | [s] => some s | _ => none
  let ts := tags (fieldValue sigField)
  let v ← tagValue ts "v"
  if trimFws v != str "1" then none
  let _ ← tagValue ts "a"
  let _ ← tagValue ts "d"
  let _ ← tagValue ts "s"
  if (tagValue ts "l").isSome then none
  let (hcRelaxed, bcRelaxed) ← parseC (tagValue ts "c")
  let h ← tagValue ts "h"
  let hnames := (splitOn 58 [] h).map trimFws
  let bh ← tagValue ts "bh"
  let b ← tagValue ts "b"
  let selected := select hnames (fields.filter (fun f => !nameIs (str "DKIM-Signature") f))
  let sigIn := canonField hcRelaxed (deleteB sigField)
  let sigIn := sigIn.take (sigIn.length - 2)
  some {
    fields, body, sigField, tags := ts, hcRelaxed, bcRelaxed, hnames,
    bodyInput := bodyCanon bcRelaxed body,
    headerInput := (selected.map (canonField hcRelaxed)).flatten ++ sigIn,
    bh := noFws bh, b := noFws b }

/-- the recomputed body hash agrees with `bh=` -/
def View.bhOk (v : View) : Bool := Base64.enc (Sha256.digest v.bodyInput) == v.bh

end LV.DkimVerifier
