import LettreVerif.Proofs.HeaderEnc
import LettreVerif.Spec.Rfc2047Dec
import LettreVerif.Proofs.C12Roundtrip
/-!
# C12 — Header text survives encoding: a conforming reader recovers the exact string

Proved here: `unstructured_roundtrip` — for every text (every Rust string: no four continuation octets in a row),
whatever the length of the header name, an RFC 5322 + RFC 2047 reader (`Spec/Rfc2047Dec.lean`: unfold, split at
linear white space, decode `=?utf-8?b?…?=` tokens of at most 75 characters, drop white space between two adjacent
encoded-words) applied to the encoded value gives back exactly the text, inner and trailing spaces included.
The proof has a reader side (`Proofs/Rfc2047Dec.lean`: what the reader shows for literal segments and
encoded-words) and a writer side (`Proofs/Rfc2047Enc.lean`: the folding writer seen through unfolding;
`rfc2047::encode` writes encoded-words carrying 1..45 octets each, that together carry the text, one space
apart) joined by an invariant over `HeaderValueEncoder::format`'s loop (`Proofs/C12Roundtrip.lean`). Also:
every encoded-word the encoder can emit is valid on its own and decodes to exactly the word it carries
(`encoded_word_roundtrip`), and the pieces an encoded value is made of are well formed (`C02.value_wf`).
-/
namespace LV.C12
open LV LV.HeaderEnc LV.Rfc2047Dec

theorem enc_length : ∀ (x : Bytes), (Base64.enc x).length = 4 * ((x.length + 2) / 3)
  | [] => by simp [Base64.enc]
  | [_] => by simp [Base64.enc]
  | [_, _] => by simp [Base64.enc]
  | a :: b :: c :: t => by
    have := enc_length t
    simp only [Base64.enc, List.length_cons, this]
    omega

/-- An encoded-word carrying at most 45 octets (what `rfc2047::encode` puts into one) is at most
    75 characters long, has the `=?utf-8?b?…?=` shape, and decodes to exactly its word. -/
theorem encoded_word_roundtrip (word : Bytes) (hne : word ≠ []) (hl : word.length ≤ 45) :
    (encPrefix ++ Base64.enc word ++ encSuffix).length ≤ 75 ∧
    encWord? (encPrefix ++ Base64.enc word ++ encSuffix) = some word := by
  have hlen := enc_length word
  have hpos : 0 < word.length := List.length_pos_iff.mpr hne
  have hb : 4 ≤ (Base64.enc word).length ∧ (Base64.enc word).length ≤ 60 := by omega
  have htot : (encPrefix ++ Base64.enc word ++ encSuffix).length = 12 + (Base64.enc word).length := by
    simp [encPrefix, encSuffix]; omega
  refine ⟨by omega, ?_⟩
  simp only [encWord?]
  have c1 : decide ((encPrefix ++ Base64.enc word ++ encSuffix).length ≤ 75) = true := by rw [htot]; simp; omega
  have c2 : decide ((encPrefix ++ Base64.enc word ++ encSuffix).length ≥ 12) = true := by rw [htot]; simp
  have c3 : ((encPrefix ++ Base64.enc word ++ encSuffix).take 10).map lower = prefixLc := by
    have : (encPrefix ++ Base64.enc word ++ encSuffix).take 10 = encPrefix := by
      simp [encPrefix, List.append_assoc]
    rw [this]; decide
  have c4 : (encPrefix ++ Base64.enc word ++ encSuffix).drop ((encPrefix ++ Base64.enc word ++ encSuffix).length - 2) = [63, 61] := by
    have : (encPrefix ++ Base64.enc word ++ encSuffix).length - 2 = (encPrefix ++ Base64.enc word).length := by
      simp [encPrefix, encSuffix]
    rw [this, List.drop_left]; rfl
  have c5 : ((encPrefix ++ Base64.enc word ++ encSuffix).drop 10).take ((encPrefix ++ Base64.enc word ++ encSuffix).length - 12) = Base64.enc word := by
    have h10 : (encPrefix ++ Base64.enc word ++ encSuffix).drop 10 = Base64.enc word ++ encSuffix := by
      simp [encPrefix, List.append_assoc]
    rw [h10, htot]
    simp
  rw [c1, c2, c3, c4, c5]
  simp [Base64.dec_enc]

/-- The room computed for an encoded-word never exceeds 45 octets. -/
theorem word_room_le_45 (lineLen : Nat) : (maxLineLen - (10 + 2 + lineLen + 2)) / 4 * 3 ≤ 45 := by
  simp only [maxLineLen]; omega

/-- **Header text survives encoding.** For every text `raw` (a Rust string never has four UTF-8 continuation octets
    in a row) and every header-name length `n` (it shifts the fold column), the reader recovers exactly `raw`. -/
theorem unstructured_roundtrip (n : Nat) (raw : Bytes) (h : ContRunsLe3 raw) :
    Rfc2047Dec.decode (encodeValue opts n raw) = raw :=
  C12Proof.decode_encodeValue n raw h

/-- non-vacuity: words that need encoding next to words that do not, two spaces between encoded words, a literal
    `=?…?=` token, a trailing space; the hypothesis holds and the value is what the model computes. -/
example : ContRunsLe3 (str "né  né =?x?= a ") ∧
    Rfc2047Dec.decode (encodeValue opts 7 (str "né  né =?x?= a ")) = str "né  né =?x?= a " := by
  refine ⟨?_, unstructured_roundtrip _ _ ?_⟩ <;>
  · intro i hi
    have hlen : (str "né  né =?x?= a ").length = 17 := by decide
    by_cases h : i < 17
    · have : i = 0 ∨ i = 1 ∨ i = 2 ∨ i = 3 ∨ i = 4 ∨ i = 5 ∨ i = 6 ∨ i = 7 ∨ i = 8 ∨ i = 9 ∨ i = 10 ∨ i = 11 ∨ i = 12 ∨
          i = 13 ∨ i = 14 ∨ i = 15 ∨ i = 16 := by omega
      rcases this with h | h | h | h | h | h | h | h | h | h | h | h | h | h | h | h | h <;> (subst h; revert hi; decide)
    · have : (str "né  né =?x?= a ").getD i 0 = 0 := by
        simp [List.getD_eq_getElem?_getD, List.getElem?_eq_none (by omega : (str "né  né =?x?= a ").length ≤ i)]
      rw [this] at hi; exact absurd hi.1 (by decide)

end LV.C12
