import LettreVerif.Model.Date
/-!
# Proofs for the Date header (C17): `toSecs ∘ civil = id`

`civil` splits the day number into 400-year cycles (`cycleSplit`, the only place with signed arithmetic),
100/4/1-year steps inside a cycle (`inCycle`) and a month table counted from March (`fromMarch`); `toSecs` counts
leap years with the closed formula.  The proof follows that structure: the month table is checked for the 366
days of a March-based year, everything else is linear arithmetic with division by literals (`omega`).
-/
namespace LV.DateProof
open LV.Date

/-- day number (days since 1970-01-01) of a civil date, as `toSecs` computes it -/
def dayNo (year mon day : Nat) : Nat :=
  let leapYears := ((year - 1) - 1968) / 4 - ((year - 1) - 1900) / 100 + ((year - 1) - 1600) / 400
  let ydays := monthOffset mon + day - 1 + (if isLeap year && mon > 2 then 1 else 0)
  (year - 1970) * 365 + leapYears + ydays

def monthRow (r3 : Nat) : Bool :=
  let md := monthGo monthLens 0 r3
  (md == (1, r3) && r3 < 31) || (md == (2, r3 - 31) && 31 ≤ r3 && r3 < 61) || (md == (3, r3 - 61) && 61 ≤ r3 && r3 < 92) ||
  (md == (4, r3 - 92) && 92 ≤ r3 && r3 < 122) || (md == (5, r3 - 122) && 122 ≤ r3 && r3 < 153) ||
  (md == (6, r3 - 153) && 153 ≤ r3 && r3 < 184) || (md == (7, r3 - 184) && 184 ≤ r3 && r3 < 214) ||
  (md == (8, r3 - 214) && 214 ≤ r3 && r3 < 245) || (md == (9, r3 - 245) && 245 ≤ r3 && r3 < 275) ||
  (md == (10, r3 - 275) && 275 ≤ r3 && r3 < 306) || (md == (11, r3 - 306) && 306 ≤ r3 && r3 < 337) ||
  (md == (12, r3 - 337) && 337 ≤ r3 && r3 < 366)

theorem month_rows : ∀ r : Fin 366, monthRow r.val = true := by decide +kernel

theorem month_table (r3 : Nat) (h : r3 < 366) :
    (monthGo monthLens 0 r3 = (1, r3) ∧ r3 < 31) ∨
    (monthGo monthLens 0 r3 = (2, r3 - 31) ∧ 31 ≤ r3 ∧ r3 < 61) ∨
    (monthGo monthLens 0 r3 = (3, r3 - 61) ∧ 61 ≤ r3 ∧ r3 < 92) ∨
    (monthGo monthLens 0 r3 = (4, r3 - 92) ∧ 92 ≤ r3 ∧ r3 < 122) ∨
    (monthGo monthLens 0 r3 = (5, r3 - 122) ∧ 122 ≤ r3 ∧ r3 < 153) ∨
    (monthGo monthLens 0 r3 = (6, r3 - 153) ∧ 153 ≤ r3 ∧ r3 < 184) ∨
    (monthGo monthLens 0 r3 = (7, r3 - 184) ∧ 184 ≤ r3 ∧ r3 < 214) ∨
    (monthGo monthLens 0 r3 = (8, r3 - 214) ∧ 214 ≤ r3 ∧ r3 < 245) ∨
    (monthGo monthLens 0 r3 = (9, r3 - 245) ∧ 245 ≤ r3 ∧ r3 < 275) ∨
    (monthGo monthLens 0 r3 = (10, r3 - 275) ∧ 275 ≤ r3 ∧ r3 < 306) ∨
    (monthGo monthLens 0 r3 = (11, r3 - 306) ∧ 306 ≤ r3 ∧ r3 < 337) ∨
    (monthGo monthLens 0 r3 = (12, r3 - 337) ∧ 337 ≤ r3 ∧ r3 < 366) := by
  have := month_rows ⟨r3, h⟩
  simpa [monthRow, or_assoc, and_assoc] using this

theorem isLeap_iff (y : Nat) : isLeap y = true ↔ (y % 4 = 0 ∧ (y % 100 ≠ 0 ∨ y % 400 = 0)) := by
  simp [isLeap]

def leapBefore (year : Nat) : Nat := ((year - 1) - 1968) / 4 - ((year - 1) - 1900) / 100 + ((year - 1) - 1600) / 400

theorem leapBefore_succ (yr : Nat) (h : 1969 ≤ yr) :
    leapBefore (yr + 1) = leapBefore yr + (if isLeap yr = true then 1 else 0) := by
  have hl := isLeap_iff yr
  unfold leapBefore
  cases hb : isLeap yr <;> simp [hb] at hl ⊢ <;> omega

theorem dayNo_eq (year mon day : Nat) :
    dayNo year mon day = (year - 1970) * 365 + leapBefore year +
      (monthOffset mon + day - 1 + (if isLeap year && mon > 2 then 1 else 0)) := rfl

/-- A: the `r3`-th day after 1 March of year `yr`, counted from 1 January of the next year -/
theorem fromMarch_dayNo (yr r3 : Nat) (hy : 1970 ≤ yr ∨ (yr = 1969 ∧ 306 ≤ r3)) (h366 : r3 < 366) :
    dayNo (fromMarch yr r3).1 (fromMarch yr r3).2.1 (fromMarch yr r3).2.2 + 306 = dayNo (yr + 1) 1 1 + r3 ∧
      1 ≤ (fromMarch yr r3).2.1 ∧ (fromMarch yr r3).2.1 ≤ 12 ∧ 1 ≤ (fromMarch yr r3).2.2 := by
  have hs := leapBefore_succ yr (by omega)
  unfold fromMarch
  rcases month_table r3 h366 with h | h | h | h | h | h | h | h | h | h | h | h <;>
    (rw [h.1]; simp only [dayNo_eq, monthOffset]
     cases hb : isLeap yr <;> simp [hb] at hs ⊢ <;> omega)

/-- B: 1 March of the year `y + 4q + 100c` of a 400-year cycle that starts on 1 March of `1600 + 400 j` -/
theorem march_dayNo (j c q y : Nat) (hc : c ≤ 3) (hq : q ≤ 24) (hy : y ≤ 3) (hj : 1 ≤ j ∨ 369 ≤ y + 4 * q + 100 * c) :
    dayNo (1600 + 400 * j + (y + 4 * q + 100 * c) + 1) 1 1 + 135080 =
      146097 * j + (c * 36524 + q * 1461 + y * 365) + 306 := by
  simp only [dayNo_eq, monthOffset, leapBefore]
  simp
  omega

theorem inCycle_spec (rem : Nat) (hr : rem < 146097) :
    ∃ c q y, c ≤ 3 ∧ q ≤ 24 ∧ y ≤ 3 ∧ (inCycle rem).1 = y + 4 * q + 100 * c ∧
      rem = c * 36524 + q * 1461 + y * 365 + (inCycle rem).2 ∧
      ((inCycle rem).2 < 365 ∨ ((inCycle rem).2 = 365 ∧ y = 3 ∧ (q = 24 → c = 3))) := by
  unfold inCycle
  generalize hc : (if rem / 36524 = 4 then 3 else rem / 36524) = c
  have fc : c ≤ 3 ∧ c * 36524 ≤ rem ∧ rem - c * 36524 ≤ 36524 ∧ (c < 3 → rem - c * 36524 < 36524) := by
    subst hc; split <;> omega
  simp only []
  generalize hr1 : rem - c * 36524 = r1 at fc ⊢
  generalize hq : (if r1 / 1461 = 25 then 24 else r1 / 1461) = q
  have fq : q ≤ 24 ∧ q * 1461 ≤ r1 ∧ r1 - q * 1461 < 1461 ∧ (q = 24 → c < 3 → r1 - q * 1461 < 1460) := by
    subst hq; split <;> omega
  generalize hr2 : r1 - q * 1461 = r2 at fq ⊢
  generalize hy : (if r2 / 365 = 4 then 3 else r2 / 365) = y
  have fy : y ≤ 3 ∧ y * 365 ≤ r2 ∧ r2 - y * 365 ≤ 365 ∧ (y < 3 → r2 - y * 365 < 365) := by
    subst hy; split <;> omega
  refine ⟨c, q, y, fc.1, fq.1, fy.1, rfl, by omega, by omega⟩

/-- one 400-year cycle: the date `civil` computes for the `rem`-th day after 1 March of `1600 + 400 j` is that day -/
theorem cycle_dayNo (rem j : Nat) (hr : rem < 146097) (hj : 1 ≤ j ∨ 135080 ≤ rem) :
    let d := fromMarch (1600 + 400 * j + (inCycle rem).1) (inCycle rem).2
    dayNo d.1 d.2.1 d.2.2 + 135080 = 146097 * j + rem ∧ 1 ≤ d.2.1 ∧ d.2.1 ≤ 12 ∧ 1 ≤ d.2.2 := by
  obtain ⟨c, q, y, hc, hq, hy, e1, e2, h3⟩ := inCycle_spec rem hr
  have hleap : (inCycle rem).2 < 366 := by omega
  have hyr : 1 ≤ j ∨ 369 ≤ y + 4 * q + 100 * c := by omega
  have A := fromMarch_dayNo (1600 + 400 * j + (inCycle rem).1) (inCycle rem).2 (by omega) hleap
  have B := march_dayNo j c q y hc hq hy hyr
  rw [← e1] at B
  intro d
  refine ⟨?_, A.2⟩
  show dayNo (fromMarch _ _).1 (fromMarch _ _).2.1 (fromMarch _ _).2.2 + 135080 = _
  have A1 := A.1
  omega

theorem cycleSplit_spec (n : Nat) :
    ∃ j : Nat, (cycleSplit n).2 < 146097 ∧ (2000 + 400 * (cycleSplit n).1 : Int) = ((1600 + 400 * j : Nat) : Int) ∧
      (1 ≤ j ∨ 135080 ≤ (cycleSplit n).2) ∧ n + 135080 = 146097 * j + (cycleSplit n).2 := by
  unfold cycleSplit
  simp only [Int.tmod_eq_emod, Int.tdiv_eq_ediv]
  by_cases h : 11017 ≤ n
  · have h0 : (0 : Int) ≤ (n : Int) - 11017 := by omega
    simp only [h0, true_or, if_true, Int.sub_zero, Int.add_zero]
    have hneg : ¬ ((n : Int) - 11017) % 146097 - ((0 : Nat) : Int) < 0 := by omega
    rw [if_neg hneg]
    refine ⟨(((n : Int) - 11017) / 146097 + 1).toNat, by omega, by omega, by omega, by omega⟩
  · have h0 : ¬ ((0 : Int) ≤ (n : Int) - 11017 ∨ (146097 : Int) ∣ (n : Int) - 11017) := by omega
    simp only [h0, if_false]
    have hs : Int.sign 146097 = 1 := by decide
    have hneg : ((n : Int) - 11017) % 146097 - ((146097 : Int).natAbs : Int) < 0 := by simp; omega
    simp only [hneg, if_true, hs]
    refine ⟨0, by simp; omega, by simp; omega, by simp; omega, by simp; omega⟩

/-- **Date round trip**: for every instant (seconds since 1970, no upper bound needed), the civil fields `civil`
    computes (`HttpDate::from(SystemTime)`) are mapped back by `toSecs` (`SystemTime::from(HttpDate)`) to the same
    second -/
theorem toSecs_civil (t : Nat) : toSecs (civil t) = t := by
  obtain ⟨j, hr, hy, hj, hn⟩ := cycleSplit_spec (t / 86400)
  have C := cycle_dayNo (cycleSplit (t / 86400)).2 j hr hj
  have hyear : ((2000 : Int) + ((inCycle (cycleSplit (t / 86400)).2).1 : Int) + 400 * (cycleSplit (t / 86400)).1).toNat =
      1600 + 400 * j + (inCycle (cycleSplit (t / 86400)).2).1 := by omega
  simp only [toSecs, civil, hyear]
  simp only [] at C
  have hd : dayNo (fromMarch (1600 + 400 * j + (inCycle (cycleSplit (t / 86400)).2).1) (inCycle (cycleSplit (t / 86400)).2).2).1
      (fromMarch (1600 + 400 * j + (inCycle (cycleSplit (t / 86400)).2).1) (inCycle (cycleSplit (t / 86400)).2).2).2.1
      (fromMarch (1600 + 400 * j + (inCycle (cycleSplit (t / 86400)).2).1) (inCycle (cycleSplit (t / 86400)).2).2).2.2 = t / 86400 := by
    omega
  simp only [dayNo] at hd
  rw [hd]
  omega

end LV.DateProof

namespace LV.DateProof
open LV.Date

theorem fromMarch_range (yr r3 : Nat) (h : r3 < 366) :
    1 ≤ (fromMarch yr r3).2.1 ∧ (fromMarch yr r3).2.1 ≤ 12 ∧ 1 ≤ (fromMarch yr r3).2.2 ∧ (fromMarch yr r3).2.2 ≤ 31 := by
  unfold fromMarch
  rcases month_table r3 h with h | h | h | h | h | h | h | h | h | h | h | h <;> (rw [h.1]; simp; omega)

theorem civil_fields (t : Nat) :
    1 ≤ (civil t).mon ∧ (civil t).mon ≤ 12 ∧ 1 ≤ (civil t).day ∧ (civil t).day ≤ 31 ∧
    (civil t).wday = (t / 86400 + 3) % 7 + 1 := by
  obtain ⟨j, hr, _, _, _⟩ := cycleSplit_spec (t / 86400)
  obtain ⟨c, q, y, _, _, _, _, e2, h3⟩ := inCycle_spec (cycleSplit (t / 86400)).2 hr
  have h366 : (inCycle (cycleSplit (t / 86400)).2).2 < 366 := by omega
  have R := fromMarch_range
    ((2000 : Int) + ((inCycle (cycleSplit (t / 86400)).2).1 : Int) + 400 * (cycleSplit (t / 86400)).1).toNat
    (inCycle (cycleSplit (t / 86400)).2).2 h366
  refine ⟨R.1, R.2.1, R.2.2.1, R.2.2.2, ?_⟩
  simp only [civil, Int.tmod_eq_emod]
  by_cases h : (0 : Int) ≤ 3 + ((t / 86400 : Nat) - 11017 : Int)
  · simp only [h, true_or, if_true]
    split <;> omega
  · have hd : ¬ ((0 : Int) ≤ 3 + ((t / 86400 : Nat) - 11017 : Int) ∨ (7 : Int) ∣ 3 + ((t / 86400 : Nat) - 11017 : Int)) ∨
        ((7 : Int) ∣ 3 + ((t / 86400 : Nat) - 11017 : Int)) := by omega
    rcases hd with hd | hd
    · simp only [hd, if_false]
      have : ((7 : Int).natAbs : Int) = 7 := by decide
      rw [this]
      split <;> omega
    · simp only [hd, or_true, if_true]
      split <;> omega

end LV.DateProof
