import LettreVerif.Model.Client
import LettreVerif.Proofs.Base64
namespace LV.Client
open LV LV.Response

/-- what an operation leaves unchanged / how `sent` grows: `us` are the units written, oldest
    first -/
structure Step' (c c' : Conn) (us : List Bytes) : Prop where
  sent : c'.sent = us.reverse ++ c.sent
  info : c'.info = c.info

theorem deliver_fields (c : Conn) :
    c.deliver.sent = c.sent ∧ c.deliver.shut = c.shut ∧ c.deliver.panic = c.panic ∧ c.deliver.info = c.info := by
  unfold Conn.deliver
  split
  · simp
  · split <;> simp

theorem write_open (c : Conn) (u : Bytes) (h : c.shut = false) :
    (c.write u).sent = u :: c.sent ∧ (c.write u).shut = false ∧ (c.write u).panic = c.panic ∧
    (c.write u).info = c.info := by
  have := deliver_fields { c with sent := u :: c.sent }
  simp only [Conn.write, h, Bool.false_eq_true, if_false]
  simpa [h] using this

theorem read_fields (c : Conn) :
    c.read.1.sent = c.sent ∧ c.read.1.shut = c.shut ∧ c.read.1.panic = c.panic ∧ c.read.1.info = c.info := by
  unfold Conn.read
  split
  · simp
  · simp only
    split
    · simp
    · split
      · simp
      · split <;> simp

theorem command_open (c : Conn) (l : Bytes) (h : c.shut = false) :
    (c.command l).1.sent = l :: c.sent ∧ (c.command l).1.shut = false ∧ (c.command l).1.panic = c.panic ∧
    (c.command l).1.info = c.info := by
  have w := write_open c l h
  have r := read_fields (c.write l)
  simp only [Conn.command]
  exact ⟨by rw [r.1, w.1], by rw [r.2.1, w.2.1], by rw [r.2.2.1, w.2.2.1], by rw [r.2.2.2, w.2.2.2]⟩

/-- `abort` on an open connection: QUIT exactly when not already broken; then shut and broken -/
theorem abort_open (c : Conn) (h : c.shut = false) :
    c.abort.shut = true ∧ c.abort.panic = true ∧ c.abort.info = c.info ∧
    c.abort.sent = (if c.panic then c.sent else quitLine :: c.sent) := by
  unfold Conn.abort
  by_cases hp : c.panic = true
  · simp [hp]
  · have hp' : c.panic = false := by simpa using hp
    have := command_open { c with panic := true } quitLine (by simpa using h)
    simp only [hp', Bool.false_eq_true, if_false]
    exact ⟨trivial, by simpa using this.2.2.1, by simpa using this.2.2.2, by simpa using this.1⟩

theorem abort_shut (c : Conn) : c.abort.shut = true := by unfold Conn.abort; simp

/-- a command wrapped in `try_smtp!` on an open connection -/
theorem try_command (c : Conn) (l : Bytes) (h : c.shut = false) :
    (∃ r, tryAbort (c.command l) = ((c.command l).1, .ok r) ∧ (c.command l).2 = .ok r) ∨
    (∃ e, tryAbort (c.command l) = ((c.command l).1.abort, .error e) ∧ (c.command l).2 = .error e) := by
  cases hr : (c.command l) with
  | mk c' r =>
    cases r with
    | ok r => left; exact ⟨r, by simp [tryAbort], rfl⟩
    | error e => right; exact ⟨e, by simp [tryAbort], rfl⟩

end LV.Client

namespace LV.Client
open LV LV.Response

/-- the connection was shut after the units `us` (oldest first) had been written on top of
    `c0`, possibly followed by one `QUIT` -/
def Aborted (c0 c' : Conn) (us : List Bytes) : Prop :=
  c'.shut = true ∧ (c'.sent = us.reverse ++ c0.sent ∨ c'.sent = quitLine :: (us.reverse ++ c0.sent))

theorem aborted_of_command (c : Conn) (l : Bytes) (h : c.shut = false) :
    Aborted c (c.command l).1.abort [l] := by
  have hc := command_open c l h
  have ha := abort_open (c.command l).1 hc.2.1
  refine ⟨ha.1, ?_⟩
  rw [ha.2.2.2]
  split
  · left; simp [hc.1]
  · right; simp [hc.1]

theorem aborted_cons (c c1 c' : Conn) (l : Bytes) (us : List Bytes) (h1 : c1.sent = l :: c.sent)
    (h : Aborted c1 c' us) : Aborted c c' (l :: us) := by
  refine ⟨h.1, ?_⟩
  rcases h.2 with h2 | h2
  · left; simp [h2, h1]
  · right; simp [h2, h1]

theorem aborted_append (c c1 c' : Conn) (pre us : List Bytes) (h1 : c1.sent = pre.reverse ++ c.sent)
    (h : Aborted c1 c' us) : Aborted c c' (pre ++ us) := by
  refine ⟨h.1, ?_⟩
  rcases h.2 with h2 | h2
  · left; simp [h2, h1]
  · right; simp [h2, h1]

/-- RCPT commands: either all were accepted, or the first refusal (at index `k`) ended the
    transaction after exactly the first `k + 1` RCPT lines, in order -/
theorem rcpts_shape (c : Conn) (to : List Bytes) (h : c.shut = false) :
    (∃ c', rcpts c to = (c', .ok ()) ∧ c'.shut = false ∧ c'.sent = (to.map rcptLine).reverse ++ c.sent ∧
      c'.info = c.info ∧ c'.panic = c.panic) ∨
    (∃ c' e k, rcpts c to = (c', .error e) ∧ k < to.length ∧ Aborted c c' ((to.take (k + 1)).map rcptLine)) := by
  induction to generalizing c with
  | nil => left; exact ⟨c, by simp [rcpts], h, by simp, rfl, rfl⟩
  | cons a as ih =>
    have hc := command_open c (rcptLine a) h
    simp only [rcpts]
    rcases try_command c (rcptLine a) h with ⟨r, ht, _⟩ | ⟨e, ht, _⟩
    · rw [ht]
      simp only
      rcases ih (c.command (rcptLine a)).1 hc.2.1 with ⟨c', h1, h2, h3, h4, h5⟩ | ⟨c', e, k, h1, h2, h3⟩
      · left
        refine ⟨c', h1, h2, ?_, by rw [h4, hc.2.2.2], by rw [h5, hc.2.2.1]⟩
        rw [h3, hc.1]; simp
      · right
        refine ⟨c', e, k + 1, h1, by simp; omega, ?_⟩
        simpa using aborted_cons c _ c' (rcptLine a) _ hc.1 h3
    · rw [ht]
      right
      exact ⟨_, e, 0, rfl, by simp, by simpa using aborted_of_command c (rcptLine a) h⟩

/-- The shape of everything `send` can put on the wire. -/
theorem send_shape (c : Conn) (from? : Option Bytes) (to : List Bytes) (msg : Bytes) (h : c.shut = false) :
    -- refused by the client: nothing written
    ((c.send from? to msg) = (c, .error .client) ∧
        ((needsUtf8 from? to = true ∧ c.supports (·.smtpUtf8) = false) ∨
         (needsEight msg = true ∧ c.supports (·.eightBit) = false))) ∨
    -- accepted by the server: MAIL, every RCPT in order, DATA, the content, and the final reply
    (∃ (c1 : Conn) (r : Resp), (c.send from? to msg) = ((c1.message msg).1, .ok r) ∧ (c1.message msg).2 = .ok r ∧
        c1.shut = false ∧
        c1.sent = dataLine :: ((to.map rcptLine).reverse ++
          mailLine from? (needsUtf8 from? to) (needsEight msg) :: c.sent) ∧
        (c1.message msg).1.sent = Codec.wire msg :: c1.sent) ∨
    -- failed: the connection is shut after a prefix of that sequence (and at most one QUIT)
    (∃ (c' : Conn) (e : Err) (us : List Bytes), (c.send from? to msg) = (c', .error e) ∧ Aborted c c' us ∧
        (us = [mailLine from? (needsUtf8 from? to) (needsEight msg)] ∨
         (∃ k, k < to.length ∧
            us = mailLine from? (needsUtf8 from? to) (needsEight msg) :: (to.take (k + 1)).map rcptLine) ∨
         us = mailLine from? (needsUtf8 from? to) (needsEight msg) :: to.map rcptLine ++ [dataLine] ∨
         us = mailLine from? (needsUtf8 from? to) (needsEight msg) :: to.map rcptLine ++
            [dataLine, Codec.wire msg])) := by
  generalize hmail : mailLine from? (needsUtf8 from? to) (needsEight msg) = mail
  unfold Conn.send
  by_cases h1 : (needsUtf8 from? to && !c.supports (·.smtpUtf8)) = true
  · left
    simp only [h1, if_true, true_and]
    left; simpa using h1
  · by_cases h2 : (needsEight msg && !c.supports (·.eightBit)) = true
    · left
      have h1' : (needsUtf8 from? to && !c.supports (·.smtpUtf8)) = false := by simpa using h1
      simp only [h1', h2, if_true]
      refine ⟨by simp, Or.inr ?_⟩
      simpa using h2
    · right
      simp only [h1, h2, hmail]
      have hm := command_open c mail h
      rcases try_command c mail h with ⟨r, ht, _⟩ | ⟨e, ht, _⟩
      · rw [ht]
        simp only
        rcases rcpts_shape (c.command mail).1 to hm.2.1 with ⟨c2, r1, r2, r3, r4, r5⟩ | ⟨c2, e, k, r1, r2, r3⟩
        · rw [r1]
          simp only
          have hd := command_open c2 dataLine r2
          rcases try_command c2 dataLine r2 with ⟨rd, htd, _⟩ | ⟨e, htd, _⟩
          · rw [htd]
            simp only
            have hw := write_open (c2.command dataLine).1 (Codec.wire msg) hd.2.1
            have hr := read_fields ((c2.command dataLine).1.write (Codec.wire msg))
            cases hmsg : ((c2.command dataLine).1.message msg) with
            | mk c3 res =>
              cases res with
              | ok rr =>
                left
                refine ⟨(c2.command dataLine).1, rr, by simp [tryAbort, hmsg], by simp [hmsg], hd.2.1, ?_, ?_⟩
                · rw [hd.1, r3, hm.1]
                · simp only [Conn.message]
                  rw [hr.1, hw.1]
              | error e =>
                right
                refine ⟨c3.abort, e, _, by simp [tryAbort], ?_, Or.inr (Or.inr (Or.inr rfl))⟩
                have hc3 : c3 = ((c2.command dataLine).1.write (Codec.wire msg)).read.1 := by
                  simp only [Conn.message] at hmsg; rw [hmsg]
                have hc3s : c3.shut = false := by rw [hc3, hr.2.1, hw.2.1]
                have ha := abort_open c3 hc3s
                refine ⟨ha.1, ?_⟩
                rw [ha.2.2.2]
                have hs : c3.sent = Codec.wire msg :: dataLine :: ((to.map rcptLine).reverse ++ mail :: c.sent) := by
                  rw [hc3, hr.1, hw.1, hd.1, r3, hm.1]
                split
                · left; simp [hs]
                · right; simp [hs]
          · rw [htd]
            right
            refine ⟨_, e, _, rfl, ?_, Or.inr (Or.inr (Or.inl rfl))⟩
            have := aborted_of_command c2 dataLine r2
            have h3 : c2.sent = (mail :: to.map rcptLine).reverse ++ c.sent := by
              rw [r3, hm.1]; simp
            simpa using aborted_append c c2 _ (mail :: to.map rcptLine) [dataLine] h3 this
        · rw [r1]
          right
          refine ⟨c2, e, _, rfl, ?_, Or.inr (Or.inl ⟨k, r2, rfl⟩)⟩
          exact aborted_cons c _ c2 mail _ hm.1 r3
      · rw [ht]
        right
        exact ⟨_, e, [mail], rfl, aborted_of_command c mail h, Or.inl rfl⟩

end LV.Client

namespace LV.Client
open LV LV.Response

/-! ### authentication -/

theorem chooseMech_first (i : ServerInfo.Info) (prefs : List Mech) (m : Mech)
    (h : chooseMech (some i) prefs = some m) :
    ∃ pre post, prefs = pre ++ m :: post ∧ m.offered i = true ∧ ∀ x ∈ pre, x.offered i = false := by
  simp only [chooseMech] at h
  obtain ⟨hm, pre, post, hp, hpre⟩ := List.find?_eq_some_iff_append.mp h
  exact ⟨pre, post, hp, hm, fun x hx => by simpa using hpre x hx⟩

theorem auth_no_mechanism (c : Conn) (prefs : List Mech) (u p : Bytes) (h : chooseMech c.info prefs = none) :
    c.auth prefs u p = (c, .error .client) := by
  simp [Conn.auth, h]

/-- the answer to a challenge is the base64 of the user name or of the password, and only the
    LOGIN mechanism ever answers one -/
theorem challengeAnswer_ok (m : Mech) (u p : Bytes) (r : Resp) (line : Bytes)
    (h : challengeAnswer m u p r = .ok line) :
    m = .login ∧ (line = Base64.enc u ++ CRLF ∨ line = Base64.enc p ++ CRLF) := by
  simp only [challengeAnswer] at h
  split at h
  · cases h
  · split at h
    · cases h
    · split at h
      · cases h
      · split at h
        · cases h
        · rename_i ch _ ans hresp
          simp only [Except.ok.injEq] at h
          cases m with
          | plain => simp [mechResponse] at hresp
          | xoauth2 => simp [mechResponse] at hresp
          | login =>
            simp only [mechResponse] at hresp
            split at hresp
            · simp only [Option.some.injEq] at hresp; subst hresp; exact ⟨rfl, Or.inl h.symm⟩
            · split at hresp
              · simp only [Option.some.injEq] at hresp; subst hresp; exact ⟨rfl, Or.inr h.symm⟩
              · cases hresp

/-- units written by the challenge loop: at most `n` answers, each the base64 of the user name
    or of the password, possibly followed by one QUIT; success only on a non-challenge reply -/
theorem authLoop_shape (m : Mech) (u p : Bytes) (n : Nat) (c : Conn) (r : Resp) (h : c.shut = false) :
    ∃ us : List Bytes,
      ((authLoop m u p n c r).1.sent = us.reverse ++ c.sent ∨
       (authLoop m u p n c r).1.sent = quitLine :: (us.reverse ++ c.sent)) ∧
      us.length ≤ n ∧ (∀ x ∈ us, x = Base64.enc u ++ CRLF ∨ x = Base64.enc p ++ CRLF) ∧
      (∀ r', (authLoop m u p n c r).2 = .ok r' → is334 r' = false) := by
  induction n generalizing c r with
  | zero => exact ⟨[], Or.inl (by simp [authLoop]), by simp, by simp, by simp [authLoop]⟩
  | succ n ih =>
    simp only [authLoop]
    by_cases h3 : is334 r = true
    · simp only [h3, Bool.not_true, Bool.false_eq_true, if_false]
      cases hca : challengeAnswer m u p r with
      | error e => exact ⟨[], Or.inl (by simp), by simp, by simp, by simp⟩
      | ok line =>
        simp only
        have hl := (challengeAnswer_ok m u p r line hca).2
        have hc := command_open c line h
        rcases try_command c line h with ⟨r', ht, _⟩ | ⟨e, ht, _⟩
        · rw [ht]
          simp only
          obtain ⟨us, hs, hlen, hall, hok⟩ := ih (c.command line).1 r' hc.2.1
          refine ⟨line :: us, ?_, by simp; omega, ?_, hok⟩
          · rcases hs with hs | hs
            · left; rw [hs, hc.1]; simp
            · right; rw [hs, hc.1]; simp
          · intro x hx
            rcases List.mem_cons.mp hx with rfl | hx
            · exact hl
            · exact hall x hx
        · rw [ht]
          simp only
          have ha := aborted_of_command c line h
          refine ⟨[line], ?_, by simp, ?_, by simp⟩
          · rcases ha.2 with h2 | h2
            · left; simpa using h2
            · right; simpa using h2
          · intro x hx; simp at hx; subst hx; exact hl
    · have h3' : is334 r = false := by simpa using h3
      simp only [h3', Bool.not_false, if_true]
      exact ⟨[], Or.inl (by simp), by simp, by simp, by intro r' hr; simp at hr; subst hr; exact h3'⟩

/-- everything `auth` writes: one AUTH line for the chosen mechanism, then at most ten answers
    (user name or password, base64), then at most one QUIT -/
theorem auth_shape (c : Conn) (prefs : List Mech) (u p : Bytes) (m : Mech) (h : c.shut = false)
    (hm : chooseMech c.info prefs = some m) :
    ∃ us : List Bytes,
      ((c.auth prefs u p).1.sent = us.reverse ++ authFirstLine m u p :: c.sent ∨
       (c.auth prefs u p).1.sent = quitLine :: (us.reverse ++ authFirstLine m u p :: c.sent)) ∧
      us.length ≤ 10 ∧ (∀ x ∈ us, x = Base64.enc u ++ CRLF ∨ x = Base64.enc p ++ CRLF) ∧
      (∀ r', (c.auth prefs u p).2 = .ok r' → is334 r' = false) := by
  simp only [Conn.auth, hm]
  have hc := command_open c (authFirstLine m u p) h
  cases hcmd : c.command (authFirstLine m u p) with
  | mk c1 res =>
    have hc1 : c1 = (c.command (authFirstLine m u p)).1 := by rw [hcmd]
    cases res with
    | error e =>
      refine ⟨[], Or.inl ?_, by simp, by simp, by simp⟩
      simp only [List.reverse_nil, List.nil_append]
      rw [hc1]; exact hc.1
    | ok r =>
      simp only
      obtain ⟨us, hs, hlen, hall, hok⟩ := authLoop_shape m u p 10 c1 r (by rw [hc1]; exact hc.2.1)
      refine ⟨us, ?_, hlen, hall, hok⟩
      have : c1.sent = authFirstLine m u p :: c.sent := by rw [hc1]; exact hc.1
      rw [this] at hs
      exact hs

/-- the credential carried by the first line decodes to exactly the mechanism's encoding -/
theorem first_line_credential (u p : Bytes) :
    (∃ pl, authFirstLine .plain u p = str "AUTH " ++ Mech.plain.name ++ [32] ++ pl ++ CRLF ∧
        Base64.dec pl = some ([0] ++ u ++ [0] ++ p)) ∧
    (∃ pl, authFirstLine .xoauth2 u p = str "AUTH " ++ Mech.xoauth2.name ++ [32] ++ pl ++ CRLF ∧
        Base64.dec pl = some (str "user=" ++ u ++ [1] ++ str "auth=Bearer " ++ p ++ [1, 1])) ∧
    authFirstLine .login u p = str "AUTH LOGIN" ++ CRLF := by
  refine ⟨⟨_, rfl, ?_⟩, ⟨_, rfl, ?_⟩, rfl⟩
  · simp [mechResponse, Base64.dec_enc]
  · simp [mechResponse, Base64.dec_enc]

end LV.Client

namespace LV.Client
open LV LV.Response

/-- `connect`: nothing is written unless the greeting was a positive reply; then the first
    (and only, apart from a QUIT on failure) unit is the EHLO line -/
theorem connect_shape (script : List Step) (hello : Bytes) :
    ((connect script hello).1.sent = [] ∧ ∃ e, (connect script hello).2 = .error e) ∨
    (connect script hello).1.sent = [ehloLine hello] ∨
    ((connect script hello).1.sent = [quitLine, ehloLine hello] ∧ ∃ e, (connect script hello).2 = .error e) := by
  simp only [connect]
  generalize hc0 : (Conn.deliver (Conn.fresh script [] none)) = c0
  have hd := deliver_fields (Conn.fresh script [] none)
  rw [hc0] at hd
  have hr := read_fields c0
  cases hrd : c0.read with
  | mk c1 res =>
    have hc1 : c1 = c0.read.1 := by rw [hrd]
    cases res with
    | error e => left; exact ⟨by rw [hc1, hr.1, hd.1]; rfl, e, rfl⟩
    | ok g =>
      simp only
      have h1s : c1.shut = false := by rw [hc1, hr.2.1, hd.2.1]; rfl
      have h1p : c1.panic = false := by rw [hc1, hr.2.2.1, hd.2.2.1]; rfl
      have h1sent : c1.sent = [] := by rw [hc1, hr.1, hd.1]; rfl
      have hcmd := command_open c1 (ehloLine hello) h1s
      simp only [Conn.ehlo]
      rcases try_command c1 (ehloLine hello) h1s with ⟨r, ht, _⟩ | ⟨e, ht, _⟩
      · rw [ht]
        simp only
        split
        · right; left; simp [hcmd.1, h1sent]
        · right; right
          have ha := abort_open (c1.command (ehloLine hello)).1 hcmd.2.1
          refine ⟨?_, _, rfl⟩
          rw [ha.2.2.2, hcmd.2.2.1, h1p]
          simp [hcmd.1, h1sent]
      · rw [ht]
        right; right
        have ha := abort_open (c1.command (ehloLine hello)).1 hcmd.2.1
        refine ⟨?_, e, rfl⟩
        simp only
        rw [ha.2.2.2, hcmd.2.2.1, h1p]
        simp [hcmd.1, h1sent]

/-- what `read` reports: the class follows the first digit, and a negative reply carries its
    code and its text -/
theorem read_classify (c : Conn) (h : c.shut = false) :
    (∀ r, c.read.2 = .ok r → classify r.code = .positive) ∧
    (∀ cd t, c.read.2 = .error (.transient cd t) →
        ∃ r, (readResp c.buf).1 = .reply r ∧ r.code = cd ∧ r.lines.flatten = t ∧ cd.1 = 4) ∧
    (∀ cd t, c.read.2 = .error (.permanent cd t) →
        ∃ r, (readResp c.buf).1 = .reply r ∧ r.code = cd ∧ r.lines.flatten = t ∧ classify cd = .permanent) := by
  unfold Conn.read
  simp only [h, Bool.false_eq_true, if_false]
  cases hrr : readResp c.buf with
  | mk rr rest =>
    simp only
    split
    · simp
    · cases rr with
      | bad => simp
      | reply r =>
        simp only
        cases hcl : classify r.code with
        | positive => simp [hcl]
        | transient =>
          simp only [Except.error.injEq, Err.transient.injEq, and_imp, reduceCtorEq, false_implies, implies_true,
            true_and, and_true]
          intro cd t h1 h2
          subst h1; subst h2
          refine ⟨r, rfl, rfl, rfl, ?_⟩
          simp only [classify] at hcl
          split at hcl
          · cases hcl
          · split at hcl
            · assumption
            · cases hcl
        | permanent =>
          simp only [Except.error.injEq, Err.permanent.injEq, and_imp, reduceCtorEq, false_implies, implies_true,
            true_and]
          intro cd t h1 h2
          subst h1; subst h2
          exact ⟨r, rfl, rfl, rfl, hcl⟩

end LV.Client
