//! `client`: run the real SMTP client (sync or tokio) against the scripted peer.
use crate::server::*;
use crate::util::*;
use lettre::address::{Address, Envelope};
use lettre::transport::smtp::authentication::{Credentials, Mechanism};
use lettre::transport::smtp::client::{AsyncSmtpConnection, SmtpConnection};
use lettre::transport::smtp::extension::ClientId;
use lettre::transport::smtp::response::Response;
use lettre::transport::smtp::Error;
use std::time::Duration;

thread_local! {
    /// Display and Debug renderings of every error described so far (for the leak check)
    pub static ERRTEXT: std::cell::RefCell<String> = std::cell::RefCell::new(String::new());
}

pub fn describe(r: &Result<Response, Error>) -> String {
    match r {
        Ok(r) => format!("ok:{}:{}", r.code(), crate::c15::lines_hex(r)),
        Err(e) => describe_err(e),
    }
}

pub fn describe_err(e: &Error) -> String {
    ERRTEXT.with(|t| t.borrow_mut().push_str(&format!("{e} {e:?}\n")));
    if let Some(c) = e.status() {
        let txt = std::error::Error::source(e).map(|s| s.to_string()).unwrap_or_default();
        let k = if e.is_transient() { "T" } else if e.is_permanent() { "P" } else { "?" };
        // what the error says of itself when printed must be the same class, with the code
        let shown = e.to_string();
        let want = format!("{} error ({})", if e.is_transient() { "transient" } else { "permanent" }, c);
        if k != "?" && !shown.starts_with(&want) {
            return format!("DISPLAY:{}", hex(shown.as_bytes()));
        }
        format!("{}:{}:{}", k, c, hex(txt.as_bytes()))
    } else if e.is_client() {
        "C".to_string()
    } else if e.is_transport_shutdown() {
        "S".to_string()
    } else {
        "B".to_string()
    }
}

pub fn mechs(s: &str) -> Option<Vec<Mechanism>> {
    s.chars()
        .map(|c| match c {
            'P' => Some(Mechanism::Plain),
            'L' => Some(Mechanism::Login),
            'X' => Some(Mechanism::Xoauth2),
            _ => None,
        })
        .collect()
}

pub struct Job {
    pub hello: String,
    pub prog: String,
    pub envelope: Option<Envelope>,
    pub msg: Vec<u8>,
    pub mechs: Vec<Mechanism>,
    pub creds: Credentials,
}

pub fn parse_envelope(from: &str, to: &str) -> Option<Option<Envelope>> {
    let from = if from == "-" { None } else { Some(unhex_str(from)?.parse::<Address>().ok()?) };
    let to: Option<Vec<Address>> = unhex_list(to)?
        .into_iter()
        .map(|b| String::from_utf8(b).ok()?.parse::<Address>().ok())
        .collect();
    Some(Envelope::new(from, to?).ok())
}

fn run_sync(port: u16, job: &Job) -> (Vec<String>, String) {
    let hello = ClientId::Domain(job.hello.clone());
    let mut out = Vec::new();
    let mut conn = match SmtpConnection::connect((crate::util::lo(), port), Some(Duration::from_secs(3)), &hello, None, None) {
        Ok(c) => c,
        Err(e) => {
            out.push(format!("connect:{}", describe_err(&e)));
            return (out, "-".into());
        }
    };
    out.push("connect:ok".into());
    for a in job.prog.chars() {
        match a {
            'S' => {
                let r = conn.send(job.envelope.as_ref().unwrap(), &job.msg);
                out.push(describe(&r));
            }
            'N' => out.push(if conn.test_connected() { "noop:1".into() } else { "noop:0".into() }),
            'Q' => out.push(describe(&conn.quit())),
            'A' => out.push(describe(&conn.auth(&job.mechs, &job.creds))),
            'X' => {
                conn.abort();
                out.push("abort".into())
            }
            _ => {}
        }
    }
    let broken = if conn.has_broken() { "1" } else { "0" };
    drop(conn);
    (out, broken.into())
}

async fn run_async(port: u16, job: &Job) -> (Vec<String>, String) {
    let hello = ClientId::Domain(job.hello.clone());
    let mut out = Vec::new();
    let lim = Duration::from_secs(3);
    let c = tokio::time::timeout(
        lim,
        AsyncSmtpConnection::connect_tokio1((crate::util::lo(), port), Some(lim), &hello, None, None),
    )
    .await;
    let mut conn = match c {
        Ok(Ok(c)) => c,
        Ok(Err(e)) => {
            out.push(format!("connect:{}", describe_err(&e)));
            return (out, "-".into());
        }
        Err(_) => {
            out.push("connect:TIMEOUT".into());
            return (out, "-".into());
        }
    };
    out.push("connect:ok".into());
    for a in job.prog.chars() {
        match a {
            'S' => match tokio::time::timeout(lim, conn.send(job.envelope.as_ref().unwrap(), &job.msg)).await {
                Ok(r) => out.push(describe(&r)),
                Err(_) => out.push("TIMEOUT".into()),
            },
            'N' => match tokio::time::timeout(lim, conn.test_connected()).await {
                Ok(b) => out.push(if b { "noop:1".into() } else { "noop:0".into() }),
                Err(_) => out.push("TIMEOUT".into()),
            },
            'Q' => match tokio::time::timeout(lim, conn.quit()).await {
                Ok(r) => out.push(describe(&r)),
                Err(_) => out.push("TIMEOUT".into()),
            },
            'A' => match tokio::time::timeout(lim, conn.auth(&job.mechs, &job.creds)).await {
                Ok(r) => out.push(describe(&r)),
                Err(_) => out.push("TIMEOUT".into()),
            },
            'X' => {
                let _ = tokio::time::timeout(lim, conn.abort()).await;
                out.push("abort".into())
            }
            _ => {}
        }
    }
    let broken = if conn.has_broken() { "1" } else { "0" };
    drop(conn);
    (out, broken.into())
}

/// `client <mode> <hello> <prog> <from|-> <to list> <msg> <mechs> <user> <pass> <script>`
pub fn client(args: &[&str]) -> Option<Vec<String>> {
    let mode = *args.first()?;
    let hello = unhex_str(args.get(1)?)?;
    let prog = args.get(2)?.to_string();
    let envelope = parse_envelope(args.get(3)?, args.get(4)?)?;
    if envelope.is_none() && prog.contains('S') {
        return None;
    }
    let msg = unhex(args.get(5)?)?;
    let mechs = mechs(if *args.get(6)? == "-" { "" } else { args[6] })?;
    // the tokio runs build their credentials through the tuple conversion, the blocking ones through `Credentials::new`
    let creds = if *args.first()? == "a" {
        Credentials::from((unhex_str(args.get(7)?)?, unhex_str(args.get(8)?)?))
    } else {
        Credentials::new(unhex_str(args.get(7)?)?, unhex_str(args.get(8)?)?)
    };
    let script = parse_script(args.get(9)?)?;
    let (user_s, pass_s) = (unhex_str(args.get(7)?)?, unhex_str(args.get(8)?)?);
    let dbg = format!("{:?}", creds);
    let job = Job { hello, prog, envelope, msg, mechs, creds };
    ERRTEXT.with(|t| t.borrow_mut().clear());
    let (listener, port) = listen()?;
    let server = std::thread::spawn(move || serve_one(listener, script));
    let (results, broken) = match mode {
        "s" => run_sync(port, &job),
        "a" => {
            let rt = tokio::runtime::Builder::new_current_thread().enable_all().build().ok()?;
            rt.block_on(run_async(port, &job))
        }
        _ => return None,
    };
    let rec = server.join().ok()?;
    let early: String = rec.early.iter().map(|b| if *b { '1' } else { '0' }).collect();
    // credentials must not show up in debug output or error text
    let texts = ERRTEXT.with(|t| t.borrow().clone()) + &dbg;
    let leak = (user_s.len() >= 4 && texts.contains(&user_s)) || (pass_s.len() >= 4 && texts.contains(&pass_s));
    Some(vec![
        results.join(";"),
        broken,
        hex_list(&rec.units),
        if early.is_empty() { "-".into() } else { early },
        hex(&rec.tail),
        if leak { "leak".into() } else { "noleak".into() },
    ])
}
