import LettreVerif.Model.Mime
import LettreVerif.Spec.MimeParse
import LettreVerif.Proofs.HeaderReader
/-!
# Proofs for C11: the RFC 2046 reader of `Spec/MimeParse.lean` recovers every formatted tree
-/
namespace LV.MimeProof
open LV LV.Mime LV.MimeParse LV.HeaderReader LV.HeaderEnc

/-! ## lines -/

theorem bodyLines_ne_nil (cur s : Bytes) : bodyLines cur s ≠ [] := by
  fun_induction bodyLines cur s <;> simp_all

theorem bodyLines_append (a cur b : Bytes) :
    bodyLines cur (a ++ 13 :: 10 :: b) = bodyLines cur a ++ bodyLines [] b := by
  fun_induction bodyLines cur a with
  | case1 cur => simp [bodyLines]
  | case2 cur r ih => simp [bodyLines, ih]
  | case3 cur x r hne ih =>
    rw [List.cons_append, bodyLines]
    · exact ih
    · intro r' h e
      cases r with
      | nil => simp at e
      | cons y ys =>
        simp only [List.cons_append, List.cons.injEq] at e
        exact hne ys h (by rw [e.1])

def NoCR (s : Bytes) : Prop := ∀ b ∈ s, b ≠ 13

theorem bodyLines_noCR (s cur : Bytes) (h : NoCR s) : bodyLines cur s = [cur.reverse ++ s] := by
  induction s generalizing cur with
  | nil => simp [bodyLines]
  | cons x r ih =>
    have hx : x ≠ 13 := h x (by simp)
    rw [bodyLines]
    · rw [ih _ (fun b hb => h b (by simp [hb]))]; simp
    · intro r' e; exact absurd e hx

theorem joinCrlf_cons (l : Bytes) (ls : List Bytes) (h : ls ≠ []) : joinCrlf (l :: ls) = l ++ CRLF ++ joinCrlf ls := by
  cases ls with
  | nil => exact absurd rfl h
  | cons a as => simp [joinCrlf]

theorem joinCrlf_bodyLines (cur s : Bytes) : joinCrlf (bodyLines cur s) = cur.reverse ++ s := by
  fun_induction bodyLines cur s with
  | case1 cur => simp [joinCrlf]
  | case2 cur r ih => rw [joinCrlf_cons _ _ (bodyLines_ne_nil _ _), ih]; simp [CRLF]
  | case3 cur x r hne ih => rw [ih]; simp

/-! ## delimiter lines -/

/-- a boundary the reader can find: no CR in it and it does not end with white space -/
def BdOk (bd : Bytes) : Prop := NoCR bd ∧ ∀ x, bd.getLast? = some x → x ≠ 32 ∧ x ≠ 9

theorem strip_snoc (s : Bytes) (x : Byte) (h : x ≠ 32 ∧ x ≠ 9) : stripTrailingWs (s ++ [x]) = s ++ [x] := by
  simp [stripTrailingWs, List.reverse_append, h.1, h.2]

theorem strip_delim (bd : Bytes) (h : BdOk bd) : stripTrailingWs (dashes ++ bd) = dashes ++ bd := by
  rcases List.eq_nil_or_concat bd with e | ⟨init, x, e⟩
  · subst e; decide
  · subst e
    have := h.2 x (by simp)
    rw [List.concat_eq_append, ← List.append_assoc]; exact strip_snoc _ _ this

theorem strip_close (bd : Bytes) : stripTrailingWs (dashes ++ bd ++ dashes) = dashes ++ bd ++ dashes := by
  have : dashes ++ bd ++ dashes = (dashes ++ bd ++ [45]) ++ [45] := by simp [dashes]
  rw [this]; exact strip_snoc _ _ (by decide)

theorem classify_delim (bd : Bytes) (h : BdOk bd) : classify bd (dashes ++ bd) = .delim := by
  simp only [classify, strip_delim bd h]; simp [dashes]

theorem classify_close (bd : Bytes) : classify bd (dashes ++ bd ++ dashes) = .close := by
  have h1 : stripTrailingWs (dashes ++ bd ++ dashes) = dashes ++ bd ++ dashes := strip_close bd
  simp only [classify, h1]
  have : ((dashes ++ bd ++ dashes) == ([45, 45] ++ bd)) = false := by
    apply beq_false_of_ne
    intro e
    have := congrArg List.length e
    simp [dashes] at this
  simp [dashes] at this ⊢

/-! ## cutting -/

theorem cutGo_others (bd : Bytes) (ls rest cur : List Bytes) (started : Bool) (acc : List Bytes)
    (h : ∀ l ∈ ls, classify bd l = .other) :
    cutGo bd (ls ++ rest) cur started acc = cutGo bd rest (ls.reverse ++ cur) started acc := by
  induction ls generalizing cur with
  | nil => simp
  | cons l ls ih =>
    have hl := h l (by simp)
    rw [List.cons_append, cutGo]
    simp only [hl]
    rw [ih _ (fun x hx => h x (by simp [hx]))]
    simp

/-- `core`: a formatted entity without its final CRLF (which, inside a multipart, belongs to the next delimiter) -/
def core : Tree → Bytes
  | .leaf h b => h ++ CRLF ++ b
  | .multi h bd ps => h ++ CRLF ++ formatParts bd ps ++ dashes ++ bd ++ dashes

theorem format_core (t : Tree) : format t = core t ++ CRLF := by
  cases t <;> simp [format, core, List.append_assoc]

/-- the lines of the parts of a multipart body -/
def linesOf (bd : Bytes) (ps : List Tree) : List Bytes :=
  ps.flatMap fun p => (dashes ++ bd) :: bodyLines [] (core p)

theorem lines_formatParts (bd : Bytes) (hb : BdOk bd) (ps : List Tree) (x : Bytes) :
    bodyLines [] (formatParts bd ps ++ x) = linesOf bd ps ++ bodyLines [] x := by
  induction ps with
  | nil => simp [formatParts, linesOf]
  | cons p ps ih =>
    have hd : NoCR (dashes ++ bd) := by
      intro b hbm
      simp only [dashes, List.mem_append, List.mem_cons, List.not_mem_nil, or_false] at hbm
      rcases hbm with (h | h) | h
      · rw [h]; decide
      · rw [h]; decide
      · exact hb.1 b h
    have e : formatParts bd (p :: ps) ++ x =
        (dashes ++ bd) ++ 13 :: 10 :: (core p ++ 13 :: 10 :: (formatParts bd ps ++ x)) := by
      simp [formatParts, format_core, CRLF, List.append_assoc]
    rw [e, bodyLines_append, bodyLines_append, ih, bodyLines_noCR _ _ hd]
    simp [linesOf]

/-- no line of the entity could be taken for a delimiter of the enclosing multipart -/
def BoundaryFree (bd : Bytes) (p : Tree) : Prop := ∀ l ∈ bodyLines [] (core p), classify bd l = .other

theorem cut_after (bd : Bytes) (hb : BdOk bd) (ps : List Tree) :
    ∀ (p : Tree) (acc tl : List Bytes), BoundaryFree bd p → (∀ q ∈ ps, BoundaryFree bd q) →
      cutGo bd (bodyLines [] (core p) ++ (linesOf bd ps ++ (dashes ++ bd ++ dashes) :: tl)) [] true acc =
        (acc.reverse ++ core p :: ps.map core, true) := by
  induction ps with
  | nil =>
    intro p acc tl hp _
    rw [cutGo_others bd _ _ _ _ _ hp]
    simp only [linesOf, List.flatMap_nil, List.nil_append, List.append_nil]
    rw [cutGo]
    simp only [classify_close]
    simp [joinCrlf_bodyLines]
  | cons q qs ih =>
    intro p acc tl hp hq
    rw [cutGo_others bd _ _ _ _ _ hp]
    have e : linesOf bd (q :: qs) ++ (dashes ++ bd ++ dashes) :: tl =
        (dashes ++ bd) :: (bodyLines [] (core q) ++ (linesOf bd qs ++ (dashes ++ bd ++ dashes) :: tl)) := by
      simp [linesOf]
    rw [e, cutGo]
    simp only [classify_delim bd hb]
    rw [ih q _ tl (hq q (by simp)) (fun r hr => hq r (by simp [hr]))]
    simp [joinCrlf_bodyLines]

/-- cutting a multipart body at its delimiter lines gives back exactly the parts (each without
    the CRLF that belongs to the next delimiter), whatever follows the closing delimiter -/
theorem cut_parts (bd : Bytes) (hb : BdOk bd) (ps : List Tree) (tl : List Bytes)
    (hq : ∀ q ∈ ps, BoundaryFree bd q) :
    cutGo bd (linesOf bd ps ++ (dashes ++ bd ++ dashes) :: tl) [] false [] = (ps.map core, true) := by
  cases ps with
  | nil =>
    simp only [linesOf, List.flatMap_nil, List.nil_append]
    rw [cutGo]; simp only [classify_close]; simp
  | cons p ps =>
    have e : linesOf bd (p :: ps) ++ (dashes ++ bd ++ dashes) :: tl =
        (dashes ++ bd) :: (bodyLines [] (core p) ++ (linesOf bd ps ++ (dashes ++ bd ++ dashes) :: tl)) := by
      simp [linesOf]
    rw [e, cutGo]
    simp only [classify_delim bd hb]
    rw [cut_after bd hb ps p _ tl (hq p (by simp)) (fun r hr => hq r (by simp [hr]))]
    simp

/-! ## trees with their header fields spelled out -/

inductive ATree
  | leaf (fields : List (Bytes × Bytes)) (body : Bytes)
  | multi (fields : List (Bytes × Bytes)) (bd : Bytes) (parts : List ATree)

mutual
  def erase : ATree → Tree
    | .leaf fs b => .leaf (formatFields fs) b
    | .multi fs bd ps => .multi (formatFields fs) bd (eraseL ps)
  def eraseL : List ATree → List Tree
    | [] => []
    | p :: ps => erase p :: eraseL ps
end

mutual
  /-- what a reader is expected to recover: the fields of every entity, the content of every leaf -/
  def skel : ATree → Skel
    | .leaf fs b => .leaf fs b
    | .multi fs _ ps => .multi fs (skelL ps)
  def skelL : List ATree → List Skel
    | [] => []
    | p :: ps => skel p :: skelL ps
end

mutual
  def depth : ATree → Nat
    | .leaf _ _ => 0
    | .multi _ _ ps => depthL ps + 1
  def depthL : List ATree → Nat
    | [] => 0
    | p :: ps => max (depth p) (depthL ps)
end

def FieldsOk (fs : List (Bytes × Bytes)) : Prop := ∀ f ∈ fs, FName f.1 ∧ scan .norm f.2 = some .norm

mutual
  /-- well-formed: header fields are well-formed, a multipart's Content-Type names its boundary (and only a
      multipart's does), the boundary is one a reader can find, and no line of a part could be taken for a
      delimiter of its parent -/
  def WF : ATree → Prop
    | .leaf fs _ => FieldsOk fs ∧ (contentTypeOf fs).bind boundaryOf = none
    | .multi fs bd ps => FieldsOk fs ∧ (contentTypeOf fs).bind boundaryOf = some bd ∧ BdOk bd ∧ WFL bd ps
  def WFL (bd : Bytes) : List ATree → Prop
    | [] => True
    | p :: ps => (WF p ∧ BoundaryFree bd (erase p)) ∧ WFL bd ps
end

theorem split_section (fs : List (Bytes × Bytes)) (body : Bytes) (hf : FieldsOk fs) :
    split (formatFields fs ++ [13, 10] ++ body) = some (fs, body) := by
  have := section_exact fs body hf ((formatFields fs ++ [13, 10] ++ body).length + 1) [] (by
    have hlen : fs.length ≤ (formatFields fs).length := by
      clear hf
      induction fs with
      | nil => simp [formatFields]
      | cons f fs ih =>
        simp only [formatFields, List.map_cons, List.flatten_cons, List.length_append, formatField,
          List.length_cons, List.length_nil] at ih ⊢
        omega
    simp only [List.length_append]
    omega)
  simpa [split] using this

theorem wfl_boundaryFree (bd : Bytes) (ps : List ATree) (h : WFL bd ps) : ∀ q ∈ eraseL ps, BoundaryFree bd q := by
  induction ps with
  | nil => intro q hq; simp [eraseL] at hq
  | cons p ps ih =>
    intro q hq
    simp only [WFL] at h
    simp only [eraseL, List.mem_cons] at hq
    rcases hq with e | e
    · rw [e]; exact h.1.2
    · exact ih h.2 q e

theorem noCR_close (bd : Bytes) (hb : BdOk bd) : NoCR (dashes ++ bd ++ dashes) := by
  intro b hbm
  simp only [dashes, List.mem_append, List.mem_cons, List.not_mem_nil, or_false] at hbm
  rcases hbm with ((h | h) | h) | (h | h)
  · rw [h]; decide
  · rw [h]; decide
  · exact hb.1 b h
  · rw [h]; decide
  · rw [h]; decide

/-- the parts of a well-formed multipart body are read back, whether or not a CRLF (the start of an epilogue or of
    the next delimiter) follows the closing delimiter -/
theorem cut_body (bd : Bytes) (hb : BdOk bd) (ps : List ATree) (h : WFL bd ps) (crlf : Bool) :
    cutGo bd (bodyLines [] (formatParts bd (eraseL ps) ++ dashes ++ bd ++ dashes ++ (if crlf then CRLF else []))) [] false [] =
      ((eraseL ps).map core, true) := by
  have hq := wfl_boundaryFree bd ps h
  cases crlf with
  | false =>
    have e : formatParts bd (eraseL ps) ++ dashes ++ bd ++ dashes ++ (if false = true then CRLF else []) =
        formatParts bd (eraseL ps) ++ (dashes ++ bd ++ dashes) := by simp [List.append_assoc]
    rw [e, lines_formatParts bd hb, bodyLines_noCR _ _ (noCR_close bd hb)]
    exact cut_parts bd hb _ [] hq
  | true =>
    have e : formatParts bd (eraseL ps) ++ dashes ++ bd ++ dashes ++ (if true = true then CRLF else []) =
        formatParts bd (eraseL ps) ++ ((dashes ++ bd ++ dashes) ++ 13 :: 10 :: []) := by simp [List.append_assoc, CRLF]
    rw [e, lines_formatParts bd hb, bodyLines_append, bodyLines_noCR _ _ (noCR_close bd hb)]
    exact cut_parts bd hb _ _ hq

theorem parse_core : ∀ (fuel : Nat) (a : ATree), depth a < fuel → WF a →
    parseEntity fuel (core (erase a)) = some (skel a) ∧
    (∀ fs bd ps, a = .multi fs bd ps → parseEntity fuel (format (erase a)) = some (skel a)) := by
  intro fuel
  induction fuel with
  | zero => intro a h; omega
  | succ fuel ih =>
    intro a hd hw
    cases a with
    | leaf fs b =>
      simp only [WF] at hw
      refine ⟨?_, by intro _ _ _ e; cases e⟩
      have e : core (erase (.leaf fs b)) = formatFields fs ++ [13, 10] ++ b := by simp [erase, core, CRLF]
      rw [e, parseEntity, split_section fs b hw.1]
      simp only [hw.2, skel]
    | multi fs bd ps =>
      simp only [WF] at hw
      obtain ⟨hf, hct, hb, hps⟩ := hw
      simp only [depth] at hd
      -- the parts are read back by the induction hypothesis
      have hparts : ((eraseL ps).map core).mapM (parseEntity fuel) = some (skelL ps) := by
        have : ∀ (qs : List ATree), depthL qs < fuel → WFL bd qs →
            ((eraseL qs).map core).mapM (parseEntity fuel) = some (skelL qs) := by
          intro qs
          induction qs with
          | nil => intro _ _; simp [eraseL, skelL]
          | cons q qs ihq =>
            intro hdq hwq
            simp only [depthL] at hdq
            simp only [WFL] at hwq
            have h1 := (ih q (by omega) hwq.1.1).1
            have h2 := ihq (by omega) hwq.2
            simp only [eraseL, List.map_cons, List.mapM_cons, h1, skelL]
            simp only [h2]
            rfl
        exact this ps (by omega) hps
      have body (crlf : Bool) :
          parseEntity (fuel + 1) (formatFields fs ++ [13, 10] ++
            (formatParts bd (eraseL ps) ++ dashes ++ bd ++ dashes ++ (if crlf then CRLF else []))) =
          some (skel (.multi fs bd ps)) := by
        rw [parseEntity, split_section fs _ hf]
        simp only [hct, cut_body bd hb ps hps crlf, hparts, skel]
        simp
      constructor
      · have e : core (erase (.multi fs bd ps)) = formatFields fs ++ [13, 10] ++
            (formatParts bd (eraseL ps) ++ dashes ++ bd ++ dashes ++ (if false then CRLF else [])) := by
          simp [erase, core, CRLF, List.append_assoc]
        rw [e]; exact body false
      · intro _ _ _ _
        have e : format (erase (.multi fs bd ps)) = formatFields fs ++ [13, 10] ++
            (formatParts bd (eraseL ps) ++ dashes ++ bd ++ dashes ++ (if true then CRLF else [])) := by
          simp [erase, format, CRLF, List.append_assoc]
        rw [e]; exact body true

end LV.MimeProof

/-! ## the hypotheses as a check the driver evaluates on the real header blocks and boundaries -/

namespace LV.MimeProof
open LV LV.Mime LV.MimeParse LV.HeaderReader LV.HeaderEnc

def fnameB (n : Bytes) : Bool := !n.isEmpty && n.all (fun b => 33 ≤ b.toNat && b.toNat ≤ 126 && b.toNat != 58)

theorem fnameB_sound (n : Bytes) (h : fnameB n = true) : FName n := by
  simp only [fnameB, Bool.and_eq_true, Bool.not_eq_true', List.isEmpty_eq_false_iff, List.all_eq_true,
    decide_eq_true_eq, bne_iff_ne, ne_eq] at h
  exact ⟨h.1, fun b hb => ⟨(h.2 b hb).1.1, (h.2 b hb).1.2, (h.2 b hb).2⟩⟩

def fieldsOkB (fs : List (Bytes × Bytes)) : Bool := fs.all fun f => fnameB f.1 && decide (scan .norm f.2 = some .norm)

theorem fieldsOkB_sound (fs : List (Bytes × Bytes)) (h : fieldsOkB fs = true) : FieldsOk fs := by
  intro f hf
  have := (List.all_eq_true.mp h) f hf
  simp only [Bool.and_eq_true, decide_eq_true_eq] at this
  exact ⟨fnameB_sound _ this.1, this.2⟩

def bdOkB (bd : Bytes) : Bool :=
  bd.all (· != 13) && (match bd.getLast? with | some x => x != 32 && x != 9 | none => true)

theorem bdOkB_sound (bd : Bytes) (h : bdOkB bd = true) : BdOk bd := by
  simp only [bdOkB, Bool.and_eq_true, List.all_eq_true, bne_iff_ne, ne_eq] at h
  refine ⟨h.1, ?_⟩
  intro x hx
  have h2 := h.2
  rw [hx] at h2
  simpa using h2

def boundaryFreeB (bd : Bytes) (t : Tree) : Bool := (bodyLines [] (core t)).all fun l => decide (classify bd l = .other)

theorem boundaryFreeB_sound (bd : Bytes) (t : Tree) (h : boundaryFreeB bd t = true) : BoundaryFree bd t := by
  intro l hl
  have := (List.all_eq_true.mp h) l hl
  simpa using this

mutual
  def wfB : ATree → Bool
    | .leaf fs _ => fieldsOkB fs && decide ((contentTypeOf fs).bind boundaryOf = none)
    | .multi fs bd ps => fieldsOkB fs && decide ((contentTypeOf fs).bind boundaryOf = some bd) && bdOkB bd && wfBL bd ps
  def wfBL (bd : Bytes) : List ATree → Bool
    | [] => true
    | p :: ps => wfB p && boundaryFreeB bd (erase p) && wfBL bd ps
end

mutual
  theorem wfB_sound : ∀ (a : ATree), wfB a = true → WF a
    | .leaf fs b, h => by
      simp only [wfB, Bool.and_eq_true, decide_eq_true_eq] at h
      exact ⟨fieldsOkB_sound fs h.1, h.2⟩
    | .multi fs bd ps, h => by
      simp only [wfB, Bool.and_eq_true, decide_eq_true_eq] at h
      exact ⟨fieldsOkB_sound fs h.1.1.1, h.1.1.2, bdOkB_sound bd h.1.2, wfBL_sound bd ps h.2⟩
  theorem wfBL_sound (bd : Bytes) : ∀ (ps : List ATree), wfBL bd ps = true → WFL bd ps
    | [], _ => trivial
    | p :: ps, h => by
      simp only [wfBL, Bool.and_eq_true] at h
      exact ⟨⟨wfB_sound p h.1.1, boundaryFreeB_sound bd _ h.1.2⟩, wfBL_sound bd ps h.2⟩
end

/-- the fields of a header block, if the block is exactly those fields written one per line -/
def fieldsOfBlock (h : Bytes) : Option (List (Bytes × Bytes)) :=
  match split (h ++ CRLF) with
  | some (fs, []) => if formatFields fs = h then some fs else none
  | _ => none

mutual
  /-- spell out the header fields of a model tree -/
  def annot : Tree → Option ATree
    | .leaf h b => match fieldsOfBlock h with
      | some fs => some (.leaf fs b)
      | none => none
    | .multi h bd ps => match fieldsOfBlock h, annotL ps with
      | some fs, some as => some (.multi fs bd as)
      | _, _ => none
  def annotL : List Tree → Option (List ATree)
    | [] => some []
    | p :: ps => match annot p, annotL ps with
      | some a, some as => some (a :: as)
      | _, _ => none
end

theorem fieldsOfBlock_eq (h : Bytes) (fs : List (Bytes × Bytes)) (e : fieldsOfBlock h = some fs) : formatFields fs = h := by
  unfold fieldsOfBlock at e
  split at e
  · split at e
    · rename_i hh; cases e; exact hh
    · cases e
  · cases e

mutual
  theorem annot_erase : ∀ (t : Tree) (a : ATree), annot t = some a → erase a = t
    | .leaf h b, a, e => by
      simp only [annot] at e
      split at e
      · rename_i fs hf; cases e; simp [erase, fieldsOfBlock_eq h fs hf]
      · cases e
    | .multi h bd ps, a, e => by
      simp only [annot] at e
      split at e
      · rename_i fs as hf ha; cases e; simp [erase, fieldsOfBlock_eq h fs hf, annotL_erase ps as ha]
      · cases e
  theorem annotL_erase : ∀ (ts : List Tree) (as : List ATree), annotL ts = some as → eraseL as = ts
    | [], as, e => by simp only [annotL] at e; cases e; rfl
    | p :: ps, as, e => by
      simp only [annotL] at e
      split at e
      · rename_i a as' ha has; cases e; simp [eraseL, annot_erase p a ha, annotL_erase ps as' has]
      · cases e
end

end LV.MimeProof
