import LettreVerif.Model.Headers
namespace LV.Headers
open LV

theorem eqName_refl (a : Bytes) : eqName a a = true := by simp [eqName]

theorem eqName_symm (a b : Bytes) : eqName a b = eqName b a := by
  simp only [eqName]
  by_cases h : a.map lowerAscii = b.map lowerAscii
  · rw [h]
  · have h' : ¬ b.map lowerAscii = a.map lowerAscii := fun e => h e.symm
    have e1 : (a.map lowerAscii == b.map lowerAscii) = false := by simpa using h
    have e2 : (b.map lowerAscii == a.map lowerAscii) = false := by simpa using h'
    rw [e1, e2]

theorem eqName_trans (a b c : Bytes) (h1 : eqName a b = true) (h2 : eqName b c = true) : eqName a c = true := by
  simp only [eqName, beq_iff_eq] at *
  rw [h1, h2]

theorem replaceFirst_names (v : HV) (hs : List HV) :
    ∀ g ∈ replaceFirst v hs, g = v ∨ g ∈ hs := by
  induction hs with
  | nil => simp [replaceFirst]
  | cons h hs ih =>
    intro g hg
    simp only [replaceFirst] at hg
    split at hg
    · rcases List.mem_cons.mp hg with rfl | hg
      · left; rfl
      · right; simp [hg]
    · rcases List.mem_cons.mp hg with rfl | hg
      · right; simp
      · rcases ih g hg with h' | h'
        · left; exact h'
        · right; simp [h']

theorem replaceFirst_unique (v : HV) (hs : List HV) (hu : Unique hs) : Unique (replaceFirst v hs) := by
  induction hs with
  | nil => simp [replaceFirst, Unique]
  | cons h hs ih =>
    simp only [replaceFirst]
    obtain ⟨h1, h2⟩ := hu
    split
    · rename_i he
      refine ⟨?_, h2⟩
      intro g hg
      -- v ~ h and h differs from every g, so v differs from every g
      cases hgv : eqName v.name g.name with
      | false => rfl
      | true =>
        have : eqName h.name g.name = true :=
          eqName_trans _ _ _ (by rw [eqName_symm]; exact he) hgv
        rw [h1 g hg] at this; cases this
    · rename_i hne
      refine ⟨?_, ih h2⟩
      intro g hg
      rcases replaceFirst_names v hs g hg with rfl | hg'
      · have : eqName g.name h.name = false := by simpa using hne
        rw [eqName_symm]; exact this
      · exact h1 g hg'

/-- `insert_raw` keeps names unique: a section never has two fields with the same name -/
theorem insertRaw_unique (hs : List HV) (v : HV) (hu : Unique hs) : Unique (insertRaw hs v) := by
  simp only [insertRaw]
  split
  · exact replaceFirst_unique v hs hu
  · rename_i hnone
    simp only [List.any_eq_true, not_exists, not_and, Bool.not_eq_true] at hnone
    induction hs with
    | nil => simp [Unique]
    | cons h hs ih =>
      obtain ⟨h1, h2⟩ := hu
      refine ⟨?_, ih h2 (fun x hx => hnone x (by simp [hx]))⟩
      intro g hg
      rcases List.mem_append.mp hg with hg | hg
      · exact h1 g hg
      · simp at hg; subst hg
        have := hnone h (by simp)
        rw [eqName_symm]; exact this

theorem removeRaw_sub (n : Bytes) (hs : List HV) : ∀ g ∈ removeRaw n hs, g ∈ hs := by
  induction hs with
  | nil => simp [removeRaw]
  | cons h hs ih =>
    intro g hg
    simp only [removeRaw] at hg
    split at hg
    · simp [hg]
    · rcases List.mem_cons.mp hg with rfl | hg
      · simp
      · simp [ih g hg]

theorem removeRaw_unique (n : Bytes) (hs : List HV) (hu : Unique hs) : Unique (removeRaw n hs) := by
  induction hs with
  | nil => simp [removeRaw, Unique]
  | cons h hs ih =>
    obtain ⟨h1, h2⟩ := hu
    simp only [removeRaw]
    split
    · exact h2
    · exact ⟨fun g hg => h1 g (removeRaw_sub n hs g hg), ih h2⟩

/-- after `remove_raw` no entry has that name any more (given uniqueness) -/
theorem removeRaw_gone (n : Bytes) (hs : List HV) (hu : Unique hs) : find (removeRaw n hs) n = none := by
  induction hs with
  | nil => rfl
  | cons h hs ih =>
    obtain ⟨h1, h2⟩ := hu
    simp only [removeRaw]
    split
    · rename_i he
      -- every other entry differs from h, which is named n
      simp only [find, List.find?_eq_none]
      intro g hg
      cases hgn : eqName n g.name with
      | false => simp
      | true =>
        have : eqName h.name g.name = true := eqName_trans _ _ _ (by rw [eqName_symm]; exact he) hgn
        rw [h1 g hg] at this; cases this
    · rename_i hne
      have := ih h2
      simp only [find, List.find?_cons] at this ⊢
      have e : eqName n h.name = false := by simpa using hne
      simp [e, this]

end LV.Headers
