import LettreVerif.Model.PoolLts
namespace LV.PoolLts

/-! ## frame facts: which fields each primitive touches -/

@[simp] theorem updConn_idle (s : St) (c : Nat) (f : Conn → Conn) : (updConn s c f).idle = s.idle := rfl
@[simp] theorem updConn_maxSize (s : St) (c : Nat) (f : Conn → Conn) : (updConn s c f).maxSize = s.maxSize := rfl
@[simp] theorem updConn_senders (s : St) (c : Nat) (f : Conn → Conn) : (updConn s c f).senders = s.senders := rfl
@[simp] theorem updConn_isAsync (s : St) (c : Nat) (f : Conn → Conn) : (updConn s c f).isAsync = s.isAsync := rfl
@[simp] theorem updConn_maint (s : St) (c : Nat) (f : Conn → Conn) : (updConn s c f).maint = s.maint := rfl
@[simp] theorem updConn_minIdle (s : St) (c : Nat) (f : Conn → Conn) : (updConn s c f).minIdle = s.minIdle := rfl
@[simp] theorem updConn_sends (s : St) (c : Nat) (f : Conn → Conn) : (updConn s c f).sends = s.sends := rfl
@[simp] theorem updConn_recyclers (s : St) (c : Nat) (f : Conn → Conn) : (updConn s c f).recyclers = s.recyclers := rfl
@[simp] theorem updSender_idle (s : St) (i : Nat) (f : Sender → Sender) : (updSender s i f).idle = s.idle := rfl
@[simp] theorem updSender_maxSize (s : St) (i : Nat) (f : Sender → Sender) : (updSender s i f).maxSize = s.maxSize := rfl
@[simp] theorem updSender_conns (s : St) (i : Nat) (f : Sender → Sender) : (updSender s i f).conns = s.conns := rfl
@[simp] theorem updSender_maint (s : St) (i : Nat) (f : Sender → Sender) : (updSender s i f).maint = s.maint := rfl

@[simp] theorem openConn_idle (s : St) : (openConn s).1.idle = s.idle := by simp [openConn]
@[simp] theorem openConn_maxSize (s : St) : (openConn s).1.maxSize = s.maxSize := by simp [openConn]

theorem finishSend_idle (s : St) (i c : Nat) (r : Res) : (finishSend s i c r).idle = s.idle := by
  unfold finishSend
  by_cases h1 : s.isAsync <;> by_cases h2 : (getConn s c).broken <;> simp [h1, h2]
theorem finishSend_maxSize (s : St) (i c : Nat) (r : Res) : (finishSend s i c r).maxSize = s.maxSize := by
  unfold finishSend
  by_cases h1 : s.isAsync <;> by_cases h2 : (getConn s c).broken <;> simp [h1, h2]

theorem sendOn_idle (s : St) (i c : Nat) : (sendOn s i c).idle = s.idle := by
  simp [sendOn, finishSend_idle]
theorem sendOn_maxSize (s : St) (i c : Nat) : (sendOn s i c).maxSize = s.maxSize := by
  simp [sendOn, finishSend_maxSize]

theorem connectFresh_idle (s : St) (i : Nat) : (connectFresh s i).idle = s.idle := by
  simp [connectFresh, sendOn_idle]
theorem connectFresh_maxSize (s : St) (i : Nat) : (connectFresh s i).maxSize = s.maxSize := by
  simp [connectFresh, sendOn_maxSize]
theorem usePopped_idle (s : St) (i c : Nat) (rest : List (Nat × Bool)) : (usePopped s i c rest).idle = some rest := by
  unfold usePopped; simp only []; split <;> simp [sendOn_idle]
theorem usePopped_maxSize (s : St) (i c : Nat) (rest : List (Nat × Bool)) : (usePopped s i c rest).maxSize = s.maxSize := by
  unfold usePopped; simp only []; split <;> simp [sendOn_maxSize]

theorem foldl_updConn_idle {α : Type} (g : α → Nat) (f : Conn → Conn) (l : List α) (s : St) :
    (l.foldl (fun s p => updConn s (g p) f) s).idle = s.idle := by
  induction l generalizing s with
  | nil => rfl
  | cons a l ih => simp [List.foldl, ih]

theorem foldl_updConn_maxSize {α : Type} (g : α → Nat) (f : Conn → Conn) (l : List α) (s : St) :
    (l.foldl (fun s p => updConn s (g p) f) s).maxSize = s.maxSize := by
  induction l generalizing s with
  | nil => rfl
  | cons a l ih => simp [List.foldl, ih]

theorem foldl_updConn_idle' (f : Conn → Conn) (l : List Nat) (s : St) :
    (l.foldl (fun s c => updConn s c f) s).idle = s.idle := foldl_updConn_idle id f l s

theorem foldl_updConn_maxSize' (f : Conn → Conn) (l : List Nat) (s : St) :
    (l.foldl (fun s c => updConn s c f) s).maxSize = s.maxSize := foldl_updConn_maxSize id f l s

theorem maintContinue_idle (s : St) (more : Nat) (d : List Nat) : (maintContinue s more d).idle = s.idle := by
  cases more with
  | zero => simp [maintContinue]; exact foldl_updConn_idle' abortConn d s
  | succ n => simp [maintContinue]
theorem maintContinue_maxSize (s : St) (more : Nat) (d : List Nat) : (maintContinue s more d).maxSize = s.maxSize := by
  cases more with
  | zero => simp [maintContinue]; exact foldl_updConn_maxSize' abortConn d s
  | succ n => simp [maintContinue]

/-! ## C09: shutdown is final -/

theorem connectionLock_shut (s s' : St) (i : Nat) (h : s.idle = none) (hs : connectionLock s i = some s') :
    s'.idle = none ∧ s'.conns = s.conns ∧ s'.plans = s.plans ∧
      ∃ t, s.senders[i]? = some t ∧ s'.senders = s.senders.modify i (fun t => { t with next := t.next + 1, results := .shutdown :: t.results }) := by
  unfold connectionLock at hs
  split at hs
  · cases hs
  · rename_i t ht
    split at hs
    · cases hs
    · simp only [h] at hs
      injection hs with hs
      subst hs
      exact ⟨by simpa using h, rfl, rfl, t, ht, rfl⟩

theorem recycleConn_shut (s : St) (c : Nat) (h : s.idle = none) : (recycleConn s c).idle = none := by
  simp [recycleConn, h]

theorem recycleLock_shut (s s' : St) (w : Nat) (h : s.idle = none) (hs : recycleLock s w = some s') : s'.idle = none := by
  unfold recycleLock at hs
  split at hs
  · split at hs
    · injection hs with hs; subst hs; exact recycleConn_shut _ _ (by simpa using h)
    · cases hs
  · split at hs
    · cases hs
    · split at hs
      · cases hs
      · injection hs with hs; subst hs; exact recycleConn_shut _ _ (by simpa using h)

theorem maintScan_shut (s s' : St) (h : s.idle = none) (hs : maintScan s = some s') : s'.idle = none ∧ s'.maint = .exited ∧ s'.conns = s.conns := by
  unfold maintScan at hs
  split at hs
  · cases hs
  · simp only [h] at hs
    injection hs with hs; subst hs; exact ⟨rfl, rfl, rfl⟩

theorem maintPush_shut (cap : Bool) (s s' : St) (h : s.idle = none) (hs : maintPush cap s = some s') : s'.idle = none := by
  unfold maintPush at hs
  split at hs
  · simp only [h] at hs
    injection hs with hs; subst hs
    simp only
    rw [foldl_updConn_idle' dropConn]; exact h
  · cases hs

theorem shutdownLock_idle (s : St) : (shutdownLock s).idle = none := by
  unfold shutdownLock
  split
  · assumption
  · simp only
    rw [foldl_updConn_idle (fun p : Nat × Bool => p.1) abortConn]

/-- once the pool is shut down it stays shut down, whatever happens next -/
theorem shutdown_final (s s' : St) (e : Ev) (h : s.idle = none) (hs : step s e = some s') : s'.idle = none := by
  cases e with
  | connectionLock i => exact (connectionLock_shut s s' i h hs).1
  | recycleLock w => exact recycleLock_shut s s' w h hs
  | maintScan => exact (maintScan_shut s s' h hs).1
  | maintPush => exact maintPush_shut _ s s' h hs
  | shutdownLock => simp [step] at hs; subst hs; exact shutdownLock_idle s
  | wait => simp [step, waitEv] at hs; subst hs; simp [h]

theorem shutdown_final_run (es : List Ev) (s s' : St) (h : s.idle = none) (hr : run s es = some s') : s'.idle = none := by
  induction es generalizing s with
  | nil => simp [run] at hr; subst hr; exact h
  | cons e es ih =>
    simp only [run] at hr
    cases hst : step s e with
    | none => simp [hst] at hr
    | some s1 => simp [hst] at hr; exact ih s1 (shutdown_final s s1 e h hst) hr

/-! ## C08: the idle set stays within `max_size` -/

def Bound (s : St) : Prop := ∀ l, s.idle = some l → l.length ≤ s.maxSize

theorem connectionLock_bound (s s' : St) (i : Nat) (hb : Bound s) (hs : connectionLock s i = some s') :
    Bound s' ∧ s'.maxSize = s.maxSize := by
  unfold connectionLock at hs
  split at hs
  · cases hs
  · split at hs
    · cases hs
    · split at hs
      · injection hs with hs; subst hs
        rename_i hidle
        exact ⟨fun l hl => by simp [hidle] at hl, rfl⟩
      · injection hs with hs; subst hs
        rename_i hidle
        refine ⟨fun l hl => ?_, connectFresh_maxSize s i⟩
        rw [connectFresh_idle, hidle] at hl
        injection hl with hl; subst hl; simp
      · rename_i c x rest hidle
        have hrest : rest.length ≤ s.maxSize := by
          have := hb _ hidle; simp at this; omega
        injection hs with hs; subst hs
        refine ⟨fun l hl => ?_, usePopped_maxSize s i c rest⟩
        rw [usePopped_idle] at hl
        injection hl with hl; subst hl
        rw [usePopped_maxSize]; exact hrest

theorem recycleConn_bound (s : St) (c : Nat) (hb : Bound s) : Bound (recycleConn s c) ∧ (recycleConn s c).maxSize = s.maxSize := by
  unfold recycleConn
  split
  · rename_i h; exact ⟨fun l hl => by simp [h] at hl, rfl⟩
  · rename_i l h
    split
    · exact ⟨fun l' hl' => by simp [h] at hl'; subst hl'; exact hb _ h, rfl⟩
    · rename_i hlt
      refine ⟨fun l' hl' => ?_, rfl⟩
      simp at hl'; subst hl'; simp; omega

theorem recycleLock_bound (s s' : St) (w : Nat) (hb : Bound s) (hs : recycleLock s w = some s') :
    Bound s' ∧ s'.maxSize = s.maxSize := by
  unfold recycleLock at hs
  split at hs
  · split at hs
    · injection hs with hs; subst hs
      exact recycleConn_bound _ _ (fun l hl => hb l hl)
    · cases hs
  · split at hs
    · cases hs
    · split at hs
      · cases hs
      · injection hs with hs; subst hs
        exact recycleConn_bound _ _ (fun l hl => hb l hl)

theorem maintContinue_bound (s : St) (more : Nat) (d : List Nat) (hb : Bound s) :
    Bound (maintContinue s more d) ∧ (maintContinue s more d).maxSize = s.maxSize := by
  refine ⟨fun l hl => ?_, maintContinue_maxSize s more d⟩
  rw [maintContinue_idle] at hl
  rw [maintContinue_maxSize]
  exact hb l hl

theorem filter_length_le' {α : Type} (p : α → Bool) (l : List α) : (l.filter p).length ≤ l.length :=
  List.length_filter_le p l

theorem maintScan_bound (s s' : St) (hb : Bound s) (hs : maintScan s = some s') : Bound s' ∧ s'.maxSize = s.maxSize := by
  unfold maintScan at hs
  split at hs
  · cases hs
  · split at hs
    · injection hs with hs; subst hs
      rename_i h
      exact ⟨fun l hl => by simp [h] at hl, rfl⟩
    · rename_i l h
      injection hs with hs; subst hs
      apply maintContinue_bound
      intro l' hl'
      simp at hl'; subst hl'
      have := hb _ h
      have := filter_length_le' (fun p : Nat × Bool => !p.2) l
      simp only at *
      omega

/-- with the size check under the lock (the repaired worker) -/
theorem maintPush_bound (s s' : St) (hb : Bound s) (hs : maintPush true s = some s') : Bound s' ∧ s'.maxSize = s.maxSize := by
  unfold maintPush at hs
  split at hs
  · split at hs
    · injection hs with hs; subst hs
      rename_i h
      refine ⟨fun l hl => ?_, ?_⟩
      · simp only at hl; rw [foldl_updConn_idle' dropConn] at hl; simp [h] at hl
      · simp only; rw [foldl_updConn_maxSize' dropConn]
    · rename_i l h
      split at hs
      · injection hs with hs; subst hs
        apply maintContinue_bound
        intro l' hl'; exact hb l' (by simpa using hl')
      · rename_i hlt
        injection hs with hs; subst hs
        apply maintContinue_bound
        intro l' hl'
        simp at hl'; subst hl'
        simp at hlt ⊢; omega
  · cases hs

theorem shutdownLock_bound (s : St) : Bound (shutdownLock s) ∧ (shutdownLock s).maxSize = s.maxSize := by
  refine ⟨fun l hl => by simp [shutdownLock_idle] at hl, ?_⟩
  unfold shutdownLock
  split
  · rfl
  · simp only; rw [foldl_updConn_maxSize (fun p : Nat × Bool => p.1) abortConn]

/-- the idle set never exceeds `max_size`: preserved by every transition (the maintenance
    worker's push included, once it checks the size under the lock) -/
theorem bound_step (hfix : capFix = true) (s s' : St) (e : Ev) (hb : Bound s) (hs : step s e = some s') :
    Bound s' ∧ s'.maxSize = s.maxSize := by
  cases e with
  | connectionLock i => exact connectionLock_bound s s' i hb hs
  | recycleLock w => exact recycleLock_bound s s' w hb hs
  | maintScan => exact maintScan_bound s s' hb hs
  | maintPush => simp only [step, hfix] at hs; exact maintPush_bound s s' hb hs
  | shutdownLock => simp [step] at hs; subst hs; exact shutdownLock_bound s
  | wait =>
    simp [step, waitEv] at hs; subst hs
    refine ⟨fun l hl => ?_, rfl⟩
    simp at hl
    obtain ⟨l0, h0, rfl⟩ := hl
    simpa using hb l0 h0

theorem bound_run (hfix : capFix = true) (es : List Ev) (s s' : St) (hb : Bound s) (hr : run s es = some s') : Bound s' := by
  induction es generalizing s with
  | nil => simp [run] at hr; subst hr; exact hb
  | cons e es ih =>
    simp only [run] at hr
    cases hst : step s e with
    | none => simp [hst] at hr
    | some s1 => simp [hst] at hr; exact ih s1 (bound_step hfix s s1 e hb hst).1 hr

theorem bound_init (a : Bool) (mx mn sd ns : Nat) (pl : List Plan) : Bound (init a mx mn sd ns pl) := by
  intro l hl; simp [init] at hl; subst hl; simp

/-! ## C09: shutdown closes what is parked -/

theorem getConn_updConn (s : St) (d c : Nat) (f : Conn → Conn) (hc : c < s.conns.length) :
    getConn (updConn s d f) c = if d = c then f (getConn s c) else getConn s c := by
  simp only [getConn, updConn, List.getD_eq_getElem?_getD, List.getElem?_modify]
  by_cases h : d = c
  · subst h; simp [hc]
  · simp [h]

@[simp] theorem updConn_conns_length (s : St) (d : Nat) (f : Conn → Conn) : (updConn s d f).conns.length = s.conns.length := by
  simp [updConn]

theorem abortConn_closed (k : Conn) : (abortConn k).closed = true ∧ ((abortConn k).broken = true ∨ k.closed = true) := by
  unfold abortConn
  by_cases h : k.closed <;> simp [h]

theorem abortConn_quit (k : Conn) (h1 : k.closed = false) (h2 : k.broken = false) (h3 : k.peerAlive = true) :
    (abortConn k).hist = .eof :: .quit :: k.hist := by
  simp [abortConn, h1, h2, h3, say]

theorem foldl_abort_closed (l : List (Nat × Bool)) (s : St) (c : Nat) (hc : c < s.conns.length) :
    ((getConn s c).closed = true ∨ c ∈ l.map (·.1)) →
      (getConn (l.foldl (fun s p => updConn s p.1 abortConn) s) c).closed = true := by
  induction l generalizing s with
  | nil => intro h; simpa using h
  | cons p l ih =>
    intro h
    simp only [List.foldl]
    apply ih (updConn s p.1 abortConn) (by simpa using hc)
    rw [getConn_updConn _ _ _ _ hc]
    by_cases hp : p.1 = c
    · left; simp [hp, (abortConn_closed _).1]
    · simp only [hp, if_false]
      rcases h with h | h
      · exact Or.inl h
      · simp at h
        rcases h with h | h
        · exact absurd h.symm (by simpa using hp)
        · right; simp; exact h

/-- shutdown closes every parked connection -/
theorem shutdown_closes_parked (s : St) (l : List (Nat × Bool)) (h : s.idle = some l) (c : Nat) (x : Bool)
    (hm : (c, x) ∈ l) (hc : c < s.conns.length) : (getConn (shutdownLock s) c).closed = true := by
  unfold shutdownLock
  simp only [h]
  have := foldl_abort_closed l { s with idle := none } c hc (Or.inr (List.mem_map.mpr ⟨(c, x), hm, rfl⟩))
  simpa [getConn] using this

/-- the fold of `abort` over the parked list leaves a connection that is not in the list alone -/
theorem foldl_abort_other (l : List (Nat × Bool)) (s : St) (c : Nat) (hc : c < s.conns.length)
    (hn : c ∉ l.map (·.1)) :
    getConn (l.foldl (fun s p => updConn s p.1 abortConn) s) c = getConn s c := by
  induction l generalizing s with
  | nil => rfl
  | cons p l ih =>
    simp only [List.map_cons, List.mem_cons, not_or] at hn
    simp only [List.foldl]
    rw [ih (updConn s p.1 abortConn) (by simpa using hc) hn.2, getConn_updConn _ _ _ _ hc]
    have : ¬ p.1 = c := fun h => hn.1 h.symm
    simp [this]

theorem foldl_abort_hist (l : List (Nat × Bool)) (s : St) (c : Nat) (hc : c < s.conns.length)
    (hn : (l.map (·.1)).Nodup) (hm : c ∈ l.map (·.1))
    (h1 : (getConn s c).closed = false) (h2 : (getConn s c).broken = false) (h3 : (getConn s c).peerAlive = true) :
    (getConn (l.foldl (fun s p => updConn s p.1 abortConn) s) c).hist = .eof :: .quit :: (getConn s c).hist := by
  induction l generalizing s with
  | nil => simp at hm
  | cons p l ih =>
    simp only [List.map_cons, List.nodup_cons] at hn
    simp only [List.foldl]
    by_cases hp : p.1 = c
    · rw [foldl_abort_other l _ c (by simpa using hc) (by rw [← hp]; exact hn.1), getConn_updConn _ _ _ _ hc]
      simp only [hp, if_true]
      exact abortConn_quit _ h1 h2 h3
    · have hm' : c ∈ l.map (·.1) := by
        simp only [List.map_cons, List.mem_cons] at hm
        rcases hm with hm | hm
        · exact absurd hm.symm hp
        · exact hm
      have hg : getConn (updConn s p.1 abortConn) c = getConn s c := by
        rw [getConn_updConn _ _ _ _ hc]; simp [hp]
      rw [ih (updConn s p.1 abortConn) (by simpa using hc) hn.2 hm' (by rw [hg]; exact h1) (by rw [hg]; exact h2)
        (by rw [hg]; exact h3), hg]

/-! ## C07: committed messages = successful sends -/

def isCommit : SEv → Bool | .commit _ _ => true | _ => false
def commitsOn (k : Conn) : Nat := k.hist.countP isCommit
def totalCommits (s : St) : Nat := (s.conns.map commitsOn).sum
def okCount (t : Sender) : Nat := t.results.count .ok
def totalOk (s : St) : Nat := (s.senders.map okCount).sum

theorem commitsOn_say (k : Conn) (e : SEv) : commitsOn (say k e) = commitsOn k + (if isCommit e then 1 else 0) := by
  simp [commitsOn, say, List.countP_cons]

theorem commitsOn_abort (k : Conn) : commitsOn (abortConn k) = commitsOn k := by
  unfold abortConn
  by_cases h1 : k.closed <;> by_cases h2 : k.broken <;> by_cases h3 : k.peerAlive <;>
    simp [h1, h2, h3, commitsOn, say, List.countP_cons, isCommit]

theorem commitsOn_drop (k : Conn) : commitsOn (dropConn k) = commitsOn k := by
  unfold dropConn
  by_cases h1 : k.closed <;> by_cases h3 : k.peerAlive <;>
    simp [h1, h3, commitsOn, say, List.countP_cons, isCommit]

theorem commitsOn_probe (k : Conn) : commitsOn (probe k).1 = commitsOn k := by
  unfold probe
  by_cases h3 : k.peerAlive
  · simp only [h3, Bool.not_true, Bool.false_eq_true, if_false]
    split
    · simp [commitsOn, say, List.countP_cons, isCommit]
    · split <;> simp [commitsOn, say, List.countP_cons, isCommit]
  · simp [h3]

theorem commitsOn_transact (k : Conn) (i m : Nat) :
    commitsOn (transact k i m).1 = commitsOn k + (if (transact k i m).2 = .ok then 1 else 0) := by
  unfold transact
  by_cases h3 : k.peerAlive
  · simp only [h3, Bool.not_true, Bool.false_eq_true, if_false]
    split
    · rw [commitsOn_abort]; simp [commitsOn, say, List.countP_cons, isCommit]
    · split
      · rw [commitsOn_abort]; simp [commitsOn, say, List.countP_cons, isCommit]
      · split
        · rw [commitsOn_abort]; simp [commitsOn, say, List.countP_cons, isCommit]
        · split <;> simp [commitsOn, say, List.countP_cons, isCommit]
  · simp [h3, commitsOn_abort]

theorem sum_map_modify {α : Type} (g : α → Nat) (f : α → α) (l : List α) (c : Nat) (x : α) (h : l[c]? = some x) :
    ((l.modify c f).map g).sum + g x = (l.map g).sum + g (f x) := by
  induction l generalizing c with
  | nil => simp at h
  | cons a l ih =>
    cases c with
    | zero => simp at h; subst h; simp [List.modify]; omega
    | succ c =>
      simp at h
      simp only [List.modify_succ_cons, List.map_cons, List.sum_cons]
      have := ih c h
      omega

theorem sum_map_modify_same {α : Type} (g : α → Nat) (f : α → α) (l : List α) (c : Nat)
    (h : ∀ x, g (f x) = g x) : ((l.modify c f).map g).sum = (l.map g).sum := by
  cases hc : l[c]? with
  | none =>
    have : l.modify c f = l := by
      apply List.ext_getElem?
      intro i
      rw [List.getElem?_modify]
      by_cases hi : c = i
      · subst hi; simp [hc]
      · simp [hi]
    rw [this]
  | some x => have := sum_map_modify g f l c x hc; rw [h x] at this; omega

theorem totalCommits_updConn_same (s : St) (c : Nat) (f : Conn → Conn) (h : ∀ k, commitsOn (f k) = commitsOn k) :
    totalCommits (updConn s c f) = totalCommits s := by
  simp only [totalCommits, updConn]; exact sum_map_modify_same commitsOn f s.conns c h

theorem totalOk_updConn (s : St) (c : Nat) (f : Conn → Conn) : totalOk (updConn s c f) = totalOk s := rfl
theorem totalCommits_updSender (s : St) (i : Nat) (f : Sender → Sender) : totalCommits (updSender s i f) = totalCommits s := rfl

/-- every connection id the pool or a thread holds refers to a connection that exists -/
structure Valid (s : St) : Prop where
  idle : ∀ l, s.idle = some l → ∀ p ∈ l, p.1 < s.conns.length
  hold : ∀ t ∈ s.senders, ∀ c, t.holding = some c → c < s.conns.length
  recy : ∀ c, some c ∈ s.recyclers → c < s.conns.length
  mnt : ∀ c m d, s.maint = .push c m d → c < s.conns.length ∧ ∀ x ∈ d, x < s.conns.length

def Count (s : St) : Prop := totalCommits s = totalOk s

theorem openConn_conns_length (s : St) : (openConn s).1.conns.length = s.conns.length + 1 := by
  simp [openConn]
theorem openConn_snd (s : St) : (openConn s).2 = s.conns.length := by simp [openConn]
theorem openConn_senders (s : St) : (openConn s).1.senders = s.senders := by simp [openConn]
theorem openConn_recyclers (s : St) : (openConn s).1.recyclers = s.recyclers := by simp [openConn]
theorem openConn_maint (s : St) : (openConn s).1.maint = s.maint := by simp [openConn]

theorem totalCommits_openConn (s : St) : totalCommits (openConn s).1 = totalCommits s := by
  simp only [totalCommits, openConn]
  split <;> simp [commitsOn, say, isCommit, List.countP_cons]
theorem totalOk_openConn (s : St) : totalOk (openConn s).1 = totalOk s := by simp [totalOk, openConn]

theorem mem_modify {α : Type} (l : List α) (i : Nat) (f : α → α) (y : α) (h : y ∈ l.modify i f) :
    y ∈ l ∨ ∃ x, l[i]? = some x ∧ y = f x := by
  rw [List.mem_iff_getElem?] at h
  obtain ⟨j, hj⟩ := h
  rw [List.getElem?_modify] at hj
  by_cases hij : i = j
  · subst hij
    simp at hj
    obtain ⟨x, hx, rfl⟩ := hj
    exact Or.inr ⟨x, hx, rfl⟩
  · simp [hij] at hj
    exact Or.inl (List.mem_of_getElem? hj)

theorem finishSend_conns (s : St) (i c : Nat) (r : Res) : (finishSend s i c r).conns = s.conns := by
  unfold finishSend
  by_cases h1 : s.isAsync <;> by_cases h2 : (getConn s c).broken <;> simp [h1, h2]

theorem totalOk_modify (s1 : St) (l : List Sender) (i : Nat) (t : Sender) (f : Sender → Sender) (r : Res)
    (ht : l[i]? = some t) (hs : s1.senders = l.modify i f) (hf : (f t).results = r :: t.results) :
    totalOk s1 = (l.map okCount).sum + (if r = .ok then 1 else 0) := by
  have := sum_map_modify okCount f l i t ht
  simp only [totalOk, hs]
  have h2 : okCount (f t) = okCount t + (if r = .ok then 1 else 0) := by
    simp only [okCount, hf, List.count_cons]
    cases r <;> simp
  omega

theorem finishSend_totalOk (s : St) (i c : Nat) (r : Res) (t : Sender) (ht : s.senders[i]? = some t) :
    totalOk (finishSend s i c r) = totalOk s + (if r = .ok then 1 else 0) := by
  unfold finishSend
  by_cases h1 : s.isAsync <;> by_cases h2 : (getConn s c).broken <;> simp only [h1, h2, if_true, if_false, Bool.false_eq_true]
  all_goals exact totalOk_modify _ s.senders i t _ r ht rfl rfl

/-- a transaction on an existing connection by an existing sender keeps the books balanced -/
theorem sendOn_count (s : St) (i c : Nat) (t : Sender) (ht : s.senders[i]? = some t) (hc : c < s.conns.length)
    (h : Count s) : Count (sendOn s i c) := by
  unfold Count at *
  unfold sendOn
  generalize (s.senders.getD i {}).next = m
  obtain ⟨k0, hk0⟩ : ∃ k0, s.conns[c]? = some k0 := ⟨s.conns[c], by simp [hc]⟩
  have hg : getConn s c = k0 := by simp [getConn, List.getD_eq_getElem?_getD, hk0]
  rw [hg]
  have hcm : totalCommits (updConn s c fun _ => (transact k0 i m).1) + commitsOn k0 =
      totalCommits s + commitsOn (transact k0 i m).1 := by
    simp only [totalCommits, updConn]
    exact sum_map_modify commitsOn (fun _ => (transact k0 i m).1) s.conns c k0 hk0
  rw [commitsOn_transact] at hcm
  have h1 : totalCommits (finishSend (updConn s c fun _ => (transact k0 i m).1) i c (transact k0 i m).2) =
      totalCommits (updConn s c fun _ => (transact k0 i m).1) := by
    simp only [totalCommits, finishSend_conns]
  have h2 := finishSend_totalOk (updConn s c fun _ => (transact k0 i m).1) i c (transact k0 i m).2 t (by simpa using ht)
  rw [h1, h2, totalOk_updConn]
  omega

theorem totalCommits_updConn_at (s : St) (c : Nat) (k' : Conn) (hc : c < s.conns.length)
    (h : commitsOn k' = commitsOn (getConn s c)) : totalCommits (updConn s c fun _ => k') = totalCommits s := by
  obtain ⟨k0, hk0⟩ : ∃ k0, s.conns[c]? = some k0 := ⟨s.conns[c], by simp [hc]⟩
  have hg : getConn s c = k0 := by simp [getConn, List.getD_eq_getElem?_getD, hk0]
  have := sum_map_modify commitsOn (fun _ => k') s.conns c k0 hk0
  simp only [totalCommits, updConn]
  rw [hg] at h
  omega

theorem totalOk_updSender_same (s : St) (i : Nat) (f : Sender → Sender) (h : ∀ t, okCount (f t) = okCount t) :
    totalOk (updSender s i f) = totalOk s := by
  simp only [totalOk, updSender]; exact sum_map_modify_same okCount f s.senders i h

theorem foldl_updConn_count {α : Type} (g : α → Nat) (f : Conn → Conn) (hf : ∀ k, commitsOn (f k) = commitsOn k)
    (l : List α) (s : St) :
    totalCommits (l.foldl (fun s p => updConn s (g p) f) s) = totalCommits s ∧
    totalOk (l.foldl (fun s p => updConn s (g p) f) s) = totalOk s := by
  induction l generalizing s with
  | nil => exact ⟨rfl, rfl⟩
  | cons a l ih =>
    simp only [List.foldl]
    obtain ⟨h1, h2⟩ := ih (updConn s (g a) f)
    exact ⟨by rw [h1, totalCommits_updConn_same _ _ _ hf], by rw [h2, totalOk_updConn]⟩

theorem foldl_updConn_count' (f : Conn → Conn) (hf : ∀ k, commitsOn (f k) = commitsOn k) (l : List Nat) (s : St) :
    totalCommits (l.foldl (fun s c => updConn s c f) s) = totalCommits s ∧
    totalOk (l.foldl (fun s c => updConn s c f) s) = totalOk s := foldl_updConn_count id f hf l s

theorem connectFresh_count (s : St) (i : Nat) (t : Sender) (ht : s.senders[i]? = some t) (h : Count s) :
    Count (connectFresh s i) := by
  unfold connectFresh
  apply sendOn_count _ _ _ t
  · rw [openConn_senders]; exact ht
  · rw [openConn_conns_length, openConn_snd]; omega
  · unfold Count; rw [totalCommits_openConn, totalOk_openConn]; exact h

theorem usePopped_count (s : St) (i c : Nat) (rest : List (Nat × Bool)) (t : Sender) (ht : s.senders[i]? = some t)
    (hc : c < s.conns.length) (h : Count s) : Count (usePopped s i c rest) := by
  unfold usePopped
  simp only []
  have hs1 : Count { s with idle := some rest } := h
  split
  · apply sendOn_count _ _ _ t (by simpa using ht) (by simpa using hc)
    unfold Count
    rw [totalCommits_updConn_at _ _ _ (by simpa using hc) (commitsOn_probe _), totalOk_updConn]
    exact hs1
  · unfold Count
    rw [totalCommits_updConn_at _ _ _ (by simpa using hc) (by rw [commitsOn_abort, commitsOn_probe]), totalOk_updConn]
    exact hs1

theorem recycleConn_count (s : St) (c : Nat) (h : Count s) : Count (recycleConn s c) := by
  unfold recycleConn Count at *
  split
  · rw [totalCommits_updConn_same _ _ _ commitsOn_abort, totalOk_updConn]; exact h
  · split
    · rw [totalCommits_updConn_same _ _ _ commitsOn_abort, totalOk_updConn]; exact h
    · exact h

theorem maintContinue_count (s : St) (more : Nat) (d : List Nat) (h : Count s) : Count (maintContinue s more d) := by
  unfold Count at *
  cases more with
  | zero =>
    simp only [maintContinue]
    have := foldl_updConn_count' abortConn commitsOn_abort d s
    exact (this.1.trans h).trans this.2.symm
  | succ n =>
    simp only [maintContinue]
    have h1 := totalCommits_openConn s
    have h2 := totalOk_openConn s
    simp only [totalCommits, totalOk] at *
    omega

theorem count_step (s s' : St) (e : Ev) (hv : Valid s) (h : Count s) (hs : step s e = some s') : Count s' := by
  cases e with
  | connectionLock i =>
    simp only [step, connectionLock] at hs
    split at hs
    · cases hs
    · rename_i t ht
      split at hs
      · cases hs
      · split at hs
        · injection hs with hs; subst hs
          unfold Count at *
          rw [totalCommits_updSender, totalOk_modify _ s.senders i t _ .shutdown ht rfl rfl]
          simpa [totalOk] using h
        · injection hs with hs; subst hs; exact connectFresh_count s i t ht h
        · rename_i c x rest hidle
          injection hs with hs; subst hs
          exact usePopped_count s i c rest t ht (hv.idle _ hidle (c, x) (by simp)) h
  | recycleLock w =>
    simp only [step, recycleLock] at hs
    split at hs
    · split at hs
      · injection hs with hs; subst hs; exact recycleConn_count _ _ h
      · cases hs
    · split at hs
      · cases hs
      · split at hs
        · cases hs
        · injection hs with hs; subst hs
          apply recycleConn_count
          unfold Count at *
          rw [totalCommits_updSender, totalOk_updSender_same s w (fun t => { t with holding := none, next := t.next + 1 }) (fun t => rfl)]; exact h
  | maintScan =>
    simp only [step, maintScan] at hs
    split at hs
    · cases hs
    · split at hs
      · injection hs with hs; subst hs; exact h
      · injection hs with hs; subst hs; exact maintContinue_count _ _ _ h
  | maintPush =>
    simp only [step, maintPush] at hs
    split at hs
    · split at hs
      · rename_i c more dropped _ _ _
        injection hs with hs; subst hs
        have := foldl_updConn_count' dropConn commitsOn_drop (c :: dropped) s
        unfold Count at *
        simp only [totalCommits, totalOk] at *
        omega
      · split at hs
        · injection hs with hs; subst hs
          apply maintContinue_count
          unfold Count at *
          rw [totalCommits_updConn_same _ _ _ commitsOn_abort, totalOk_updConn]; exact h
        · injection hs with hs; subst hs; exact maintContinue_count _ _ _ h
    · cases hs
  | shutdownLock =>
    simp only [step] at hs; injection hs with hs; subst hs
    unfold shutdownLock
    split
    · exact h
    · have := foldl_updConn_count (fun p : Nat × Bool => p.1) abortConn commitsOn_abort (by assumption) { s with idle := none }
      unfold Count at *
      simp only [totalCommits, totalOk] at *
      omega
  | wait => simp only [step, waitEv] at hs; injection hs with hs; subst hs; exact h

/-! ## `Valid` is preserved -/

/-- the part of `Valid` that does not talk about the maintenance worker -/
structure Valid3 (s : St) : Prop where
  idle : ∀ l, s.idle = some l → ∀ p ∈ l, p.1 < s.conns.length
  hold : ∀ t ∈ s.senders, ∀ c, t.holding = some c → c < s.conns.length
  recy : ∀ c, some c ∈ s.recyclers → c < s.conns.length

theorem Valid.to3 {s : St} (h : Valid s) : Valid3 s := ⟨h.idle, h.hold, h.recy⟩

theorem valid3_updConn (s : St) (c : Nat) (f : Conn → Conn) (h : Valid3 s) : Valid3 (updConn s c f) :=
  ⟨fun l hl p hp => by simpa using h.idle l hl p hp, fun t ht c hc => by simpa using h.hold t ht c hc,
   fun c hc => by simpa using h.recy c hc⟩

theorem valid3_foldl {α : Type} (g : α → Nat) (f : Conn → Conn) (l : List α) (s : St) (h : Valid3 s) :
    Valid3 (l.foldl (fun s p => updConn s (g p) f) s) ∧
      (l.foldl (fun s p => updConn s (g p) f) s).conns.length = s.conns.length := by
  induction l generalizing s with
  | nil => exact ⟨h, rfl⟩
  | cons a l ih =>
    simp only [List.foldl]
    obtain ⟨h1, h2⟩ := ih (updConn s (g a) f) (valid3_updConn s _ f h)
    exact ⟨h1, by simpa using h2⟩

theorem valid3_openConn (s : St) (h : Valid3 s) : Valid3 (openConn s).1 := by
  refine ⟨fun l hl p hp => ?_, fun t ht c hc => ?_, fun c hc => ?_⟩
  · rw [openConn_conns_length]; rw [openConn_idle] at hl; have := h.idle l hl p hp; omega
  · rw [openConn_conns_length]; rw [openConn_senders] at ht; have := h.hold t ht c hc; omega
  · rw [openConn_conns_length]; rw [openConn_recyclers] at hc; have := h.recy c hc; omega

theorem hold_modify (s : St) (i : Nat) (f : Sender → Sender) (h : Valid3 s) (n : Nat) (hn : s.conns.length ≤ n)
    (hf : ∀ x ∈ s.senders, ∀ c, (f x).holding = some c → c < n) :
    ∀ t ∈ s.senders.modify i f, ∀ c, t.holding = some c → c < n := by
  intro t ht c hc
  rcases mem_modify _ _ _ _ ht with ht | ⟨x, hx, rfl⟩
  · have := h.hold t ht c hc; omega
  · exact hf x (List.mem_of_getElem? hx) c hc

theorem valid3_finishSend (s : St) (i c : Nat) (r : Res) (h : Valid3 s) (hc : c < s.conns.length) :
    Valid3 (finishSend s i c r) ∧ (finishSend s i c r).conns.length = s.conns.length ∧
      (finishSend s i c r).maint = s.maint := by
  unfold finishSend
  by_cases h1 : s.isAsync <;> by_cases h2 : (getConn s c).broken <;> simp only [h1, h2, if_true, if_false, Bool.false_eq_true]
  · refine ⟨⟨h.idle, ?_, ?_⟩, rfl, rfl⟩
    · exact hold_modify s i _ h _ (Nat.le_refl _) (fun x hx c' hc' => h.hold x hx c' hc')
    · intro c' hc'
      simp only [updSender, List.mem_append, List.mem_singleton] at hc'
      rcases hc' with hc' | hc'
      · exact h.recy c' hc'
      · cases hc'
  · refine ⟨⟨h.idle, ?_, ?_⟩, rfl, rfl⟩
    · exact hold_modify s i _ h _ (Nat.le_refl _) (fun x hx c' hc' => h.hold x hx c' hc')
    · intro c' hc'
      simp only [updSender, List.mem_append, List.mem_singleton] at hc'
      rcases hc' with hc' | hc'
      · exact h.recy c' hc'
      · injection hc' with hc'; subst hc'; exact hc
  · refine ⟨⟨h.idle, ?_, h.recy⟩, rfl, rfl⟩
    exact hold_modify s i _ h _ (Nat.le_refl _) (fun x hx c' hc' => h.hold x hx c' hc')
  · refine ⟨⟨h.idle, ?_, h.recy⟩, rfl, rfl⟩
    exact hold_modify s i _ h _ (Nat.le_refl _) (fun x hx c' hc' => by simp at hc'; subst hc'; exact hc)

theorem valid3_sendOn (s : St) (i c : Nat) (h : Valid3 s) (hc : c < s.conns.length) :
    Valid3 (sendOn s i c) ∧ (sendOn s i c).conns.length = s.conns.length ∧ (sendOn s i c).maint = s.maint := by
  unfold sendOn
  have := valid3_finishSend (updConn s c fun _ => (transact (getConn s c) i (s.senders.getD i {}).next).1) i c
    (transact (getConn s c) i (s.senders.getD i {}).next).2 (valid3_updConn _ _ _ h) (by simpa using hc)
  simpa using this

theorem valid_of3 (s : St) (h : Valid3 s) (hm : ∀ c m d, s.maint = .push c m d → c < s.conns.length ∧ ∀ x ∈ d, x < s.conns.length) :
    Valid s := ⟨h.idle, h.hold, h.recy, hm⟩

theorem maintContinue_valid (s : St) (more : Nat) (d : List Nat) (h : Valid3 s) (hd : ∀ x ∈ d, x < s.conns.length) :
    Valid (maintContinue s more d) := by
  cases more with
  | zero =>
    simp only [maintContinue]
    obtain ⟨h1, _⟩ := valid3_foldl id abortConn d s h
    exact ⟨h1.idle, h1.hold, h1.recy, fun c m d' hm => by simp at hm⟩
  | succ n =>
    simp only [maintContinue]
    have h1 := valid3_openConn s h
    refine ⟨h1.idle, h1.hold, h1.recy, fun c m d' hm => ?_⟩
    simp only [MPc.push.injEq] at hm
    obtain ⟨rfl, _, rfl⟩ := hm
    simp only [openConn_conns_length, openConn_snd]
    exact ⟨by omega, fun x hx => by have := hd x hx; omega⟩

theorem recycleConn_valid3 (s : St) (c : Nat) (h : Valid3 s) (hc : c < s.conns.length) :
    Valid3 (recycleConn s c) ∧ (recycleConn s c).conns.length = s.conns.length ∧ (recycleConn s c).maint = s.maint := by
  unfold recycleConn
  split
  · exact ⟨valid3_updConn _ _ _ h, by simp, rfl⟩
  · split
    · exact ⟨valid3_updConn _ _ _ h, by simp, rfl⟩
    · rename_i l hl _
      refine ⟨⟨fun l' hl' p hp => ?_, h.hold, h.recy⟩, rfl, rfl⟩
      simp at hl'; subst hl'
      simp at hp
      rcases hp with rfl | hp
      · exact hc
      · exact h.idle l hl p hp

theorem foldl_updConn_maint {α : Type} (g : α → Nat) (f : Conn → Conn) (l : List α) (s : St) :
    (l.foldl (fun s p => updConn s (g p) f) s).maint = s.maint := by
  induction l generalizing s with
  | nil => rfl
  | cons a l ih => simp only [List.foldl]; rw [ih]; rfl

theorem valid_step (s s' : St) (e : Ev) (hv : Valid s) (hs : step s e = some s') : Valid s' := by
  have h3 := hv.to3
  cases e with
  | connectionLock i =>
    simp only [step, connectionLock] at hs
    split at hs
    · cases hs
    · split at hs
      · cases hs
      · split at hs
        · injection hs with hs; subst hs
          refine ⟨h3.idle, ?_, h3.recy, hv.mnt⟩
          exact hold_modify s i _ h3 _ (Nat.le_refl _) (fun x hx c hc => h3.hold x hx c hc)
        · injection hs with hs; subst hs
          unfold connectFresh
          obtain ⟨h1, h2, h4⟩ := valid3_sendOn (openConn s).1 i (openConn s).2 (valid3_openConn s h3)
            (by rw [openConn_conns_length, openConn_snd]; omega)
          refine valid_of3 _ h1 (fun c m d hm => ?_)
          rw [h4, openConn_maint] at hm
          rw [h2, openConn_conns_length]
          obtain ⟨a, b⟩ := hv.mnt c m d hm
          exact ⟨by omega, fun x hx => by have := b x hx; omega⟩
        · rename_i c x rest hidle
          injection hs with hs; subst hs
          have hc : c < s.conns.length := h3.idle _ hidle (c, x) (by simp)
          have h3' : Valid3 { s with idle := some rest } :=
            ⟨fun l hl p hp => by simp at hl; subst hl; exact h3.idle _ hidle p (by simp [hp]), h3.hold, h3.recy⟩
          unfold usePopped
          simp only []
          split
          · obtain ⟨h1, h2, h4⟩ := valid3_sendOn _ i c (valid3_updConn _ c _ h3') (by simpa using hc)
            refine valid_of3 _ h1 (fun c' m d hm => ?_)
            rw [h4] at hm; rw [h2]
            simpa using hv.mnt c' m d (by simpa using hm)
          · exact valid_of3 _ (valid3_updConn _ c _ h3') (fun c' m d hm => by simpa using hv.mnt c' m d (by simpa using hm))
  | recycleLock w =>
    simp only [step, recycleLock] at hs
    split at hs
    · split at hs
      · rename_i c hw
        injection hs with hs; subst hs
        have hc : c < s.conns.length := h3.recy c (List.mem_of_getElem? hw)
        have h3' : Valid3 { s with recyclers := s.recyclers.set w none } :=
          ⟨h3.idle, h3.hold, fun c' hc' => by
            simp only at hc'
            rcases List.mem_or_eq_of_mem_set hc' with hc' | hc'
            · exact h3.recy c' hc'
            · cases hc'⟩
        obtain ⟨h1, h2, h4⟩ := recycleConn_valid3 _ c h3' hc
        exact valid_of3 _ h1 (fun c' m d hm => by rw [h4] at hm; rw [h2]; exact hv.mnt c' m d hm)
      · cases hs
    · split at hs
      · cases hs
      · rename_i t ht
        split at hs
        · cases hs
        · rename_i c hc0
          injection hs with hs; subst hs
          have hc : c < s.conns.length := h3.hold t (List.mem_of_getElem? ht) c hc0
          have h3' : Valid3 (updSender s w fun t => { t with holding := none, next := t.next + 1 }) :=
            ⟨h3.idle, hold_modify s w _ h3 _ (Nat.le_refl _) (fun x hx c' hc' => by simp at hc'), h3.recy⟩
          obtain ⟨h1, h2, h4⟩ := recycleConn_valid3 _ c h3' (by simpa using hc)
          exact valid_of3 _ h1 (fun c' m d hm => by rw [h4] at hm; rw [h2]; exact hv.mnt c' m d hm)
  | maintScan =>
    simp only [step, maintScan] at hs
    split at hs
    · cases hs
    · split at hs
      · injection hs with hs; subst hs
        exact ⟨h3.idle, h3.hold, h3.recy, fun c m d hm => by simp at hm⟩
      · rename_i l hl
        injection hs with hs; subst hs
        apply maintContinue_valid
        · exact ⟨fun l' hl' p hp => by
            simp at hl'; subst hl'
            exact h3.idle l hl p (List.mem_filter.mp hp).1, h3.hold, h3.recy⟩
        · intro x hx
          simp only [List.mem_map, List.mem_filter] at hx
          obtain ⟨p, ⟨hp, _⟩, rfl⟩ := hx
          exact h3.idle l hl p hp
  | maintPush =>
    simp only [step, maintPush] at hs
    split at hs
    · rename_i c more dropped hm
      obtain ⟨hc, hd⟩ := hv.mnt c more dropped hm
      split at hs
      · injection hs with hs; subst hs
        obtain ⟨h1, h2⟩ := valid3_foldl id dropConn (c :: dropped) s h3
        exact ⟨h1.idle, h1.hold, h1.recy, fun c' m d hm' => by simp at hm'⟩
      · rename_i l hl
        split at hs
        · injection hs with hs; subst hs
          exact maintContinue_valid _ 0 dropped (valid3_updConn _ _ _ h3) (by simpa using hd)
        · injection hs with hs; subst hs
          refine maintContinue_valid _ more dropped ⟨fun l' hl' p hp => ?_, h3.hold, h3.recy⟩ (by simpa using hd)
          simp at hl'; subst hl'
          simp at hp
          rcases hp with rfl | hp
          · exact hc
          · exact h3.idle l hl p hp
    · cases hs
  | shutdownLock =>
    simp only [step] at hs; injection hs with hs; subst hs
    unfold shutdownLock
    split
    · exact hv
    · rename_i l hl
      obtain ⟨h1, h2⟩ := valid3_foldl (fun p : Nat × Bool => p.1) abortConn l { s with idle := none }
        ⟨fun l' hl' => by simp at hl', h3.hold, h3.recy⟩
      have hm := foldl_updConn_maint (fun p : Nat × Bool => p.1) abortConn l { s with idle := none }
      refine ⟨h1.idle, h1.hold, h1.recy, fun c m d hm' => ?_⟩
      simp only at hm'
      rw [hm] at hm'
      simp only at h2 ⊢
      rw [h2]
      split at hm'
      · cases hm'
      · exact hv.mnt c m d hm'
  | wait =>
    simp only [step, waitEv] at hs; injection hs with hs; subst hs
    refine ⟨fun l hl p hp => ?_, h3.hold, h3.recy, fun c m d hm => ?_⟩
    · simp at hl
      obtain ⟨l0, h0, rfl⟩ := hl
      obtain ⟨q, hq, rfl⟩ := List.mem_map.mp hp
      exact h3.idle l0 h0 q hq
    · simp only at hm
      split at hm
      · cases hm
      · exact hv.mnt c m d hm


theorem valid_init (a : Bool) (mx mn sd ns : Nat) (pl : List Plan) : Valid (init a mx mn sd ns pl) := by
  refine ⟨fun l hl p hp => ?_, fun t ht c hc => ?_, fun c hc => ?_, fun c m d hm => ?_⟩
  · simp [init] at hl; subst hl; simp at hp
  · simp [init] at ht; obtain ⟨_, rfl⟩ := ht; simp at hc
  · simp [init] at hc
  · simp [init] at hm

theorem count_init (a : Bool) (mx mn sd ns : Nat) (pl : List Plan) : Count (init a mx mn sd ns pl) := by
  simp [Count, totalCommits, totalOk, init, okCount]

theorem valid_count_run (es : List Ev) (s s' : St) (hv : Valid s) (hc : Count s) (hr : run s es = some s') :
    Valid s' ∧ Count s' := by
  induction es generalizing s with
  | nil => simp [run] at hr; subst hr; exact ⟨hv, hc⟩
  | cons e es ih =>
    simp only [run] at hr
    cases hst : step s e with
    | none => simp [hst] at hr
    | some s1 => simp [hst] at hr; exact ih s1 (valid_step s s1 e hv hst) (count_step s s1 e hv hc hst) hr

/-! ## C08: a parked connection is used again only after it answered a probe -/

theorem probe_dead (k : Conn) (hd : k.peerAlive = false) : probe k = (k, false) := by
  simp [probe, hd]

theorem dead_connection_not_reused (s : St) (i c : Nat) (rest : List (Nat × Bool)) (hc : c < s.conns.length)
    (hd : (getConn s c).peerAlive = false) :
    (usePopped s i c rest).senders = s.senders ∧ (getConn (usePopped s i c rest) c).closed = true ∧
      (usePopped s i c rest).idle = some rest := by
  have hg : getConn { s with idle := some rest } c = getConn s c := rfl
  unfold usePopped
  simp only [hg, probe_dead _ hd, Bool.false_eq_true, if_false]
  refine ⟨rfl, ?_, rfl⟩
  rw [getConn_updConn _ _ _ _ (by simpa using hc)]
  simp [(abortConn_closed _).1]

/-- a probe that reports success has put a NOOP in front of the peer (and nothing else) -/
theorem probe_ok_hist (k : Conn) (h : (probe k).2 = true) : (probe k).1.hist = .noop :: k.hist := by
  unfold probe at h ⊢
  by_cases h3 : k.peerAlive
  · simp only [h3, Bool.not_true, Bool.false_eq_true, if_false] at h ⊢
    split at h
    · simp at h
    · split at h
      · simp at h
      · rename_i h1 h2
        simp only [h1, h2, Bool.false_eq_true, if_false]
        rfl
  · simp [h3] at h

theorem live_connection_probed_first (s : St) (i c : Nat) (rest : List (Nat × Bool))
    (ha : (probe (getConn s c)).2 = true) :
    usePopped s i c rest = sendOn (updConn { s with idle := some rest } c fun _ => (probe (getConn s c)).1) i c ∧
      (probe (getConn s c)).1.hist = .noop :: (getConn s c).hist := by
  have hg : getConn { s with idle := some rest } c = getConn s c := rfl
  refine ⟨?_, probe_ok_hist _ ha⟩
  unfold usePopped
  simp only [hg, ha, if_true]

/-- a probe that fails (peer gone, `421`, or no answer within the timeout) ends in the connection being closed and
    the sender back at the top of the check-out loop -/
theorem failed_probe_closes (s : St) (i c : Nat) (rest : List (Nat × Bool)) (hc : c < s.conns.length)
    (hf : (probe (getConn s c)).2 = false) :
    (usePopped s i c rest).senders = s.senders ∧ (getConn (usePopped s i c rest) c).closed = true := by
  have hg : getConn { s with idle := some rest } c = getConn s c := rfl
  unfold usePopped
  simp only [hg, hf, Bool.false_eq_true, if_false]
  refine ⟨rfl, ?_⟩
  rw [getConn_updConn _ _ _ _ (by simpa using hc)]
  simp [(abortConn_closed _).1]

/-! ## C07: a connection is in one place at a time -/

def ind (b : Bool) : Nat := if b then 1 else 0

def idleOcc (s : St) (c : Nat) : Nat := ((s.idle.getD []).map fun p => ind (p.1 == c)).sum
def holdOcc (s : St) (c : Nat) : Nat := (s.senders.map fun t => ind (t.holding == some c)).sum
def recOcc (s : St) (c : Nat) : Nat := (s.recyclers.map fun r => ind (r == some c)).sum
def listOcc (d : List Nat) (c : Nat) : Nat := (d.map fun x => ind (x == c)).sum
def maintOcc (s : St) (c : Nat) : Nat :=
  match s.maint with
  | .push c' _ d => ind (c' == c) + listOcc d c
  | _ => 0

/-- in how many places connection `c` is: parked, held by a sender, waiting in a recycle task,
    held by the maintenance worker -/
def occ (s : St) (c : Nat) : Nat := idleOcc s c + holdOcc s c + recOcc s c + maintOcc s c

def Excl (s : St) : Prop := ∀ c, occ s c ≤ 1

theorem sum_ind_zero {α : Type} (l : List α) (p : α → Bool) (h : ∀ x ∈ l, p x = false) :
    (l.map fun x => ind (p x)).sum = 0 := by
  induction l with
  | nil => rfl
  | cons a l ih =>
    simp only [List.map_cons, List.sum_cons]
    rw [ih (fun x hx => h x (by simp [hx])), h a (by simp)]
    rfl

/-- ids that do not exist yet are nowhere -/
theorem occ_fresh (s : St) (hv : Valid s) (c : Nat) (hc : s.conns.length ≤ c) : occ s c = 0 := by
  have h1 : idleOcc s c = 0 := by
    unfold idleOcc
    apply sum_ind_zero
    intro p hp
    cases hi : s.idle with
    | none => simp [hi] at hp
    | some l =>
      simp [hi] at hp
      have := hv.idle l hi p hp
      simp; omega
  have h2 : holdOcc s c = 0 := by
    unfold holdOcc
    apply sum_ind_zero
    intro t ht
    cases hh : t.holding with
    | none => simp
    | some c' => have := hv.hold t ht c' hh; simp; omega
  have h3 : recOcc s c = 0 := by
    unfold recOcc
    apply sum_ind_zero
    intro r hr
    cases r with
    | none => simp
    | some c' => have := hv.recy c' hr; simp; omega
  have h4 : maintOcc s c = 0 := by
    unfold maintOcc
    split
    · rename_i c' m d hm
      obtain ⟨a, b⟩ := hv.mnt c' m d hm
      have : listOcc d c = 0 := by
        unfold listOcc; apply sum_ind_zero; intro x hx; have := b x hx; simp; omega
      rw [this]
      have : (c' == c) = false := by simp; omega
      simp [this, ind]
    · rfl
  simp [occ, h1, h2, h3, h4]

theorem occ_updConn (s : St) (c : Nat) (f : Conn → Conn) (d : Nat) : occ (updConn s c f) d = occ s d := rfl

theorem occ_foldl {α : Type} (g : α → Nat) (f : Conn → Conn) (l : List α) (s : St) (d : Nat) :
    occ (l.foldl (fun s p => updConn s (g p) f) s) d = occ s d := by
  induction l generalizing s with
  | nil => rfl
  | cons a l ih => simp only [List.foldl]; rw [ih]; rfl

theorem occ_foldl' (f : Conn → Conn) (l : List Nat) (s : St) (d : Nat) :
    occ (l.foldl (fun s c => updConn s c f) s) d = occ s d := occ_foldl id f l s d

theorem occ_openConn (s : St) (d : Nat) : occ (openConn s).1 d = occ s d := by
  simp [occ, idleOcc, holdOcc, recOcc, maintOcc, openConn]

theorem ind_le_one (b : Bool) : ind b ≤ 1 := by cases b <;> simp [ind]

theorem sum_modify_le {α : Type} (g : α → Nat) (f : α → α) (l : List α) (i : Nat) (k : Nat)
    (h : ∀ x, g (f x) ≤ g x + k) : ((l.modify i f).map g).sum ≤ (l.map g).sum + k := by
  cases hi : l[i]? with
  | none =>
    have : l.modify i f = l := by
      apply List.ext_getElem?
      intro j
      rw [List.getElem?_modify]
      by_cases hj : i = j
      · subst hj; simp [hi]
      · simp [hj]
    rw [this]; omega
  | some x =>
    have := sum_map_modify g f l i x hi
    have := h x
    omega

theorem occ_updSender_le (s0 : St) (i : Nat) (f : Sender → Sender) (d k : Nat)
    (hf : ∀ x : Sender, ind ((f x).holding == some d) ≤ ind (x.holding == some d) + k) :
    occ (updSender s0 i f) d ≤ occ s0 d + k := by
  have hh : holdOcc (updSender s0 i f) d ≤ holdOcc s0 d + k := by
    simp only [holdOcc, updSender]
    exact sum_modify_le _ _ _ _ k hf
  have : occ (updSender s0 i f) d = idleOcc s0 d + holdOcc (updSender s0 i f) d + recOcc s0 d + maintOcc s0 d := rfl
  simp only [occ] at *
  omega

theorem occ_addRecycler (s0 : St) (x : Option Nat) (d : Nat) :
    occ { s0 with recyclers := s0.recyclers ++ [x] } d = occ s0 d + ind (x == some d) := by
  have hr : recOcc { s0 with recyclers := s0.recyclers ++ [x] } d = recOcc s0 d + ind (x == some d) := by
    simp [recOcc]
  have : occ { s0 with recyclers := s0.recyclers ++ [x] } d =
      idleOcc s0 d + holdOcc s0 d + recOcc { s0 with recyclers := s0.recyclers ++ [x] } d + maintOcc s0 d := rfl
  simp only [occ] at *
  omega

/-- a sender that takes connection `c` for a transaction: `c` shows up in at most one more place -/
theorem occ_finishSend (s : St) (i c : Nat) (r : Res) (d : Nat) :
    occ (finishSend s i c r) d ≤ occ s d + ind (c == d) := by
  unfold finishSend
  simp only []
  split
  · -- tokio: a recycle task is spawned
    have h1 := occ_updSender_le { s with recyclers := s.recyclers ++ [if (getConn s c).broken = true then none else some c] } i
      (fun t => { t with next := t.next + 1, results := r :: t.results }) d 0 (fun x => by simp)
    have h2 := occ_addRecycler s (if (getConn s c).broken = true then none else some c) d
    have h3 : ind ((if (getConn s c).broken = true then none else some c) == some d) ≤ ind (c == d) := by
      split <;> simp [ind]
    omega
  · split
    · exact Nat.le_trans (occ_updSender_le s i _ d 0 (fun x => by simp)) (by omega)
    · apply occ_updSender_le
      intro x
      have : ind (some c == some d) = ind (c == d) := by simp [ind]
      simp only [this]; omega

theorem occ_sendOn (s : St) (i c d : Nat) : occ (sendOn s i c) d ≤ occ s d + ind (c == d) := by
  unfold sendOn
  have := occ_finishSend (updConn s c fun _ => (transact (getConn s c) i (s.senders.getD i {}).next).1) i c
    (transact (getConn s c) i (s.senders.getD i {}).next).2 d
  rw [occ_updConn] at this
  exact this

theorem occ_split (s : St) (d : Nat) : occ s d = idleOcc s d + holdOcc s d + recOcc s d + maintOcc s d := rfl

theorem occ_maintContinue (s2 : St) (more : Nat) (dropped : List Nat) (d : Nat) :
    occ (maintContinue s2 more dropped) d + maintOcc s2 d ≤ occ s2 d + ind (s2.conns.length == d) + listOcc dropped d := by
  cases more with
  | zero =>
    simp only [maintContinue]
    have h := occ_foldl' abortConn dropped s2 d
    have hm : maintOcc (dropped.foldl (fun s c => updConn s c abortConn) s2) d = maintOcc s2 d := by
      simp only [maintOcc, foldl_updConn_maint (fun c : Nat => c) abortConn dropped s2]
    generalize dropped.foldl (fun s c => updConn s c abortConn) s2 = s3 at *
    have e : occ { s3 with maint := .asleep } d + maintOcc s3 d = occ s3 d := by
      show idleOcc s3 d + holdOcc s3 d + recOcc s3 d + 0 + maintOcc s3 d = idleOcc s3 d + holdOcc s3 d + recOcc s3 d + maintOcc s3 d
      omega
    omega
  | succ n =>
    simp only [maintContinue]
    have h := occ_openConn s2 d
    have hl := openConn_snd s2
    have hm : maintOcc (openConn s2).1 d = maintOcc s2 d := by simp only [maintOcc, openConn_maint]
    generalize (openConn s2).1 = s3 at *
    generalize (openConn s2).2 = c3 at *
    subst hl
    have e : occ { s3 with maint := .push s2.conns.length n dropped } d + maintOcc s3 d =
        occ s3 d + (ind (s2.conns.length == d) + listOcc dropped d) := by
      show idleOcc s3 d + holdOcc s3 d + recOcc s3 d + (ind (s2.conns.length == d) + listOcc dropped d) + maintOcc s3 d = idleOcc s3 d + holdOcc s3 d + recOcc s3 d + maintOcc s3 d + _
      omega
    omega

theorem idleOcc_cons (s : St) (c : Nat) (x : Bool) (rest : List (Nat × Bool)) (h : s.idle = some ((c, x) :: rest)) (d : Nat) :
    idleOcc s d = ind (c == d) + idleOcc { s with idle := some rest } d := by
  simp [idleOcc, h]

theorem filter_partition (l : List (Nat × Bool)) (d : Nat) :
    (l.map fun p => ind (p.1 == d)).sum =
      ((l.filter (!·.2)).map fun p => ind (p.1 == d)).sum + listOcc ((l.filter (·.2)).map (·.1)) d := by
  induction l with
  | nil => simp [listOcc]
  | cons a l ih =>
    cases ha : a.2 <;> simp [List.filter, ha, listOcc] at * <;> omega

theorem ind_eq_of (a b : Nat) (h : a = b) : ind (a == b) = 1 := by simp [ind, h]
theorem ind_ne_of (a b : Nat) (h : a ≠ b) : ind (a == b) = 0 := by simp [ind, h]

/-- a fresh id adds at most one place, and only for itself, where nothing was before -/
theorem fresh_bound (s : St) (hv : Valid s) (he : Excl s) (d : Nat) : occ s d + ind (s.conns.length == d) ≤ 1 := by
  by_cases h : s.conns.length = d
  · have := occ_fresh s hv d (by omega); rw [ind_eq_of _ _ h]; omega
  · rw [ind_ne_of _ _ h]; exact he d

theorem recycleConn_occ (s2 : St) (c d : Nat) : occ (recycleConn s2 c) d ≤ occ s2 d + ind (c == d) := by
  unfold recycleConn
  split
  · rw [occ_updConn]; omega
  · split
    · rw [occ_updConn]; omega
    · rename_i l hl _
      have : idleOcc { s2 with idle := some ((c, false) :: l) } d = ind (c == d) + idleOcc s2 d := by
        simp [idleOcc, hl]
      have e : occ { s2 with idle := some ((c, false) :: l) } d =
          idleOcc { s2 with idle := some ((c, false) :: l) } d + holdOcc s2 d + recOcc s2 d + maintOcc s2 d := rfl
      simp only [occ_split] at *
      omega

theorem set_eq_modify' {α : Type} (l : List α) (i : Nat) (v : α) : l.set i v = l.modify i (fun _ => v) := by
  induction l generalizing i with
  | nil => simp
  | cons a l ih => cases i with
    | zero => simp [List.modify]
    | succ i => simp [List.modify_succ_cons, ih]

theorem excl_step (s s' : St) (e : Ev) (hv : Valid s) (he : Excl s) (hs : step s e = some s') : Excl s' := by
  intro d
  have hd := he d
  cases e with
  | connectionLock i =>
    simp only [step, connectionLock] at hs
    split at hs
    · cases hs
    · split at hs
      · cases hs
      · split at hs
        · injection hs with hs; subst hs
          exact Nat.le_trans (occ_updSender_le s i _ d 0 (fun x => by simp)) (by omega)
        · injection hs with hs; subst hs
          unfold connectFresh
          have h1 := occ_sendOn (openConn s).1 i (openConn s).2 d
          rw [occ_openConn] at h1
          rw [openConn_snd] at h1 ⊢
          have := fresh_bound s hv he d
          omega
        · rename_i c x rest hidle
          injection hs with hs; subst hs
          have hi := idleOcc_cons s c x rest hidle d
          have e1 : occ { s with idle := some rest } d + ind (c == d) = occ s d := by
            have : occ { s with idle := some rest } d = idleOcc { s with idle := some rest } d + holdOcc s d + recOcc s d + maintOcc s d := rfl
            simp only [occ_split] at *
            omega
          unfold usePopped
          simp only []
          split
          · have h1 := occ_sendOn (updConn { s with idle := some rest } c fun _ => (probe (getConn { s with idle := some rest } c)).1) i c d
            rw [occ_updConn] at h1
            omega
          · rw [occ_updConn]; omega
  | recycleLock w =>
    simp only [step, recycleLock] at hs
    split at hs
    · split at hs
      · rename_i c hw
        injection hs with hs; subst hs
        have h1 := recycleConn_occ { s with recyclers := s.recyclers.set w none } c d
        have h2 : recOcc { s with recyclers := s.recyclers.set w none } d + ind (c == d) = recOcc s d := by
          simp only [recOcc, set_eq_modify']
          have := sum_map_modify (fun r : Option Nat => ind (r == some d)) (fun _ => none) s.recyclers w (some c) hw
          have e : ind ((none : Option Nat) == some d) = 0 := by simp [ind]
          have e2 : ind (some c == some d) = ind (c == d) := by simp [ind]
          simp only [e, e2] at this
          omega
        have e3 : occ { s with recyclers := s.recyclers.set w none } d =
            idleOcc s d + holdOcc s d + recOcc { s with recyclers := s.recyclers.set w none } d + maintOcc s d := rfl
        simp only [occ_split] at *
        omega
      · cases hs
    · split at hs
      · cases hs
      · rename_i t ht
        split at hs
        · cases hs
        · rename_i c hc0
          injection hs with hs; subst hs
          have h1 := recycleConn_occ (updSender s w fun t => { t with holding := none, next := t.next + 1 }) c d
          have h2 : holdOcc (updSender s w fun t => { t with holding := none, next := t.next + 1 }) d + ind (c == d) = holdOcc s d := by
            simp only [holdOcc, updSender]
            have := sum_map_modify (fun t : Sender => ind (t.holding == some d)) (fun t => { t with holding := none, next := t.next + 1 }) s.senders w t ht
            have e : ind ((none : Option Nat) == some d) = 0 := by simp [ind]
            have e2 : ind (t.holding == some d) = ind (c == d) := by rw [hc0]; simp [ind]
            simp only [e, e2] at this
            omega
          have e3 : occ (updSender s w fun t => { t with holding := none, next := t.next + 1 }) d =
              idleOcc s d + holdOcc (updSender s w fun t => { t with holding := none, next := t.next + 1 }) d + recOcc s d + maintOcc s d := rfl
          simp only [occ_split] at *
          omega
  | maintScan =>
    simp only [step, maintScan] at hs
    split at hs
    · cases hs
    · rename_i hmode
      have hm0 : maintOcc s d = 0 := by
        unfold maintOcc
        split
        · rename_i hm; simp [hm] at hmode
        · rfl
      split at hs
      · injection hs with hs; subst hs
        have : occ { s with maint := .exited } d = idleOcc s d + holdOcc s d + recOcc s d + 0 := rfl
        simp only [occ_split] at *; omega
      · rename_i l hl
        injection hs with hs; subst hs
        have h1 := occ_maintContinue { s with idle := some (l.filter (!·.2)) } (s.minIdle - (l.filter (!·.2)).length) ((l.filter (·.2)).map (·.1)) d
        have hp := filter_partition l d
        have e1 : idleOcc s d = (l.map fun p => ind (p.1 == d)).sum := by simp [idleOcc, hl]
        have e2 : idleOcc { s with idle := some (l.filter (!·.2)) } d = ((l.filter (!·.2)).map fun p => ind (p.1 == d)).sum := by simp [idleOcc]
        have e3 : occ { s with idle := some (l.filter (!·.2)) } d = idleOcc { s with idle := some (l.filter (!·.2)) } d + holdOcc s d + recOcc s d + maintOcc s d := rfl
        have e4 : maintOcc { s with idle := some (l.filter (!·.2)) } d = maintOcc s d := rfl
        have hf := fresh_bound s hv he d
        simp only [occ_split] at *
        omega
  | maintPush =>
    simp only [step, maintPush] at hs
    split at hs
    · rename_i c more dropped hm
      have hmo : maintOcc s d = ind (c == d) + listOcc dropped d := by simp [maintOcc, hm]
      split at hs
      · injection hs with hs; subst hs
        have h1 := occ_foldl' dropConn (c :: dropped) s d
        generalize (c :: dropped).foldl (fun s c => updConn s c dropConn) s = s3 at *
        have : occ { s3 with maint := .exited } d + maintOcc s3 d = occ s3 d := by
          show idleOcc s3 d + holdOcc s3 d + recOcc s3 d + 0 + maintOcc s3 d = idleOcc s3 d + holdOcc s3 d + recOcc s3 d + maintOcc s3 d
          omega
        omega
      · rename_i l hl
        split at hs
        · injection hs with hs; subst hs
          have h1 := occ_maintContinue (updConn s c abortConn) 0 dropped d
          simp only [maintContinue] at h1 ⊢
          have h2 := occ_foldl' abortConn dropped (updConn s c abortConn) d
          generalize dropped.foldl (fun s c => updConn s c abortConn) (updConn s c abortConn) = s3 at *
          have : occ { s3 with maint := .asleep } d ≤ occ s3 d := by
            show idleOcc s3 d + holdOcc s3 d + recOcc s3 d + 0 ≤ idleOcc s3 d + holdOcc s3 d + recOcc s3 d + maintOcc s3 d
            omega
          rw [occ_updConn] at h2
          omega
        · injection hs with hs; subst hs
          have h1 := occ_maintContinue { s with idle := some ((c, false) :: l) } more dropped d
          have e1 : idleOcc { s with idle := some ((c, false) :: l) } d = ind (c == d) + idleOcc s d := by simp [idleOcc, hl]
          have e3 : occ { s with idle := some ((c, false) :: l) } d = idleOcc { s with idle := some ((c, false) :: l) } d + holdOcc s d + recOcc s d + maintOcc s d := rfl
          have e4 : maintOcc { s with idle := some ((c, false) :: l) } d = maintOcc s d := rfl
          have hf := fresh_bound s hv he d
          simp only [occ_split] at *
          omega
    · cases hs
  | shutdownLock =>
    simp only [step] at hs; injection hs with hs; subst hs
    unfold shutdownLock
    split
    · exact hd
    · rename_i l hl
      simp only []
      have h1 := occ_foldl (fun p : Nat × Bool => p.1) abortConn l { s with idle := none } d
      have hm := foldl_updConn_maint (fun p : Nat × Bool => p.1) abortConn l { s with idle := none }
      generalize l.foldl (fun s p => updConn s p.1 abortConn) { s with idle := none } = s3 at *
      have e0 : occ { s with idle := none } d ≤ occ s d := by
        show 0 + holdOcc s d + recOcc s d + maintOcc s d ≤ idleOcc s d + holdOcc s d + recOcc s d + maintOcc s d
        omega
      have : occ { s3 with maint := if s3.maint == .asleep then .exited else s3.maint } d ≤ occ s3 d := by
        by_cases ha : s3.maint = .asleep
        · have : occ { s3 with maint := if s3.maint == .asleep then .exited else s3.maint } d = idleOcc s3 d + holdOcc s3 d + recOcc s3 d + 0 := by
            simp only [ha]; rfl
          simp only [occ_split] at *; omega
        · have hne : (s3.maint == .asleep) = false := by simpa using ha
          simp only [hne]
          exact Nat.le_refl _
      omega
  | wait =>
    simp only [step, waitEv] at hs; injection hs with hs; subst hs
    have e1 : idleOcc { s with idle := s.idle.map (·.map fun p => (p.1, true)), maint := if s.maint == .asleep then .scan else s.maint } d = idleOcc s d := by
      cases hi : s.idle with
      | none => simp [idleOcc, hi]
      | some l => simp [idleOcc, hi, List.map_map, Function.comp_def]
    have e2 : maintOcc { s with idle := s.idle.map (·.map fun p => (p.1, true)), maint := if s.maint == .asleep then .scan else s.maint } d ≤ maintOcc s d := by
      by_cases ha : s.maint = .asleep
      · simp [maintOcc, ha]
      · have hne : (s.maint == .asleep) = false := by simpa using ha
        simp only [maintOcc, hne]; exact Nat.le_refl _
    have e3 : occ { s with idle := s.idle.map (·.map fun p => (p.1, true)), maint := if s.maint == .asleep then .scan else s.maint } d =
        idleOcc { s with idle := s.idle.map (·.map fun p => (p.1, true)), maint := if s.maint == .asleep then .scan else s.maint } d + holdOcc s d + recOcc s d +
        maintOcc { s with idle := s.idle.map (·.map fun p => (p.1, true)), maint := if s.maint == .asleep then .scan else s.maint } d := rfl
    simp only [occ_split] at *
    omega


theorem excl_init (a : Bool) (mx mn sd ns : Nat) (pl : List Plan) : Excl (init a mx mn sd ns pl) := by
  intro d
  have h2 : holdOcc (init a mx mn sd ns pl) d = 0 := by
    unfold holdOcc
    apply sum_ind_zero
    intro t ht
    simp [init] at ht
    obtain ⟨_, rfl⟩ := ht
    rfl
  simp only [occ_split, h2]
  simp [idleOcc, recOcc, maintOcc, init]

theorem valid_excl_run (es : List Ev) (s s' : St) (hv : Valid s) (he : Excl s) (hr : run s es = some s') :
    Valid s' ∧ Excl s' := by
  induction es generalizing s with
  | nil => simp [run] at hr; subst hr; exact ⟨hv, he⟩
  | cons e es ih =>
    simp only [run] at hr
    cases hst : step s e with
    | none => simp [hst] at hr
    | some s1 => simp [hst] at hr; exact ih s1 (valid_step s s1 e hv hst) (excl_step s s1 e hv he hst) hr

end LV.PoolLts
