import LettreVerif.Props.C13
#print axioms LV.C13.body_hash_input_agrees
#print axioms LV.C13.body_transport_invariant
#print axioms LV.C13.relaxed_header_canon_agrees
#print axioms LV.C13.relaxed_value_fold_invariant
#print axioms LV.C13.signed_fields_input_agrees
#print axioms LV.C13.sig_field_canon_agrees
#print axioms LV.C13.header_input_agrees_relaxed
#print axioms LV.C13.sign_keeps_body_and_part_headers
#print axioms LV.C13.sign_adds_one_field
#print axioms LV.C13.h_lists_signed_fields
#print axioms LV.C13.body_alteration_changes_input
#print axioms LV.C13.simple_sig_field_witness
#print axioms LV.C13.simple_sig_field_short_agrees
