import LettreVerif.Model.XText
import LettreVerif.Spec.XTextSpec
namespace LV.XText
open LV LV.XTextSpec

theorem hexVal_hexUp (n : Nat) (h : n < 16) : hexDigitVal (hexUp n) = some n := by
  have : n < 10 ∨ (10 ≤ n ∧ n < 16) := by omega
  rcases this with h1 | h1
  · have e : hexUp n = UInt8.ofNat (48 + n) := by simp [hexUp, h1]
    have t : (UInt8.ofNat (48 + n)).toNat = 48 + n := by simp only [UInt8.toNat_ofNat']; omega
    simp only [hexDigitVal, e, t]
    rw [if_pos (by omega)]
    congr 1; omega
  · have e : hexUp n = UInt8.ofNat (55 + n) := by simp [hexUp, show ¬ n < 10 by omega]
    have t : (UInt8.ofNat (55 + n)).toNat = 55 + n := by simp only [UInt8.toNat_ofNat']; omega
    simp only [hexDigitVal, e, t]
    rw [if_neg (by omega), if_pos (by omega)]
    congr 1; omega

/-- with the repaired encoder, a receiver decodes exactly the value: every `+XX` has two
    upper-case hex digits, every other octet is an xchar (or non-ASCII) -/
theorem decode_encode (v : Bytes) : decode (encode true true v) = some v := by
  induction v with
  | nil => rfl
  | cons b bs ih =>
    have hb := b.toNat_lt
    simp only [encode, List.map_cons, List.flatten_cons] at ih ⊢
    by_cases he : (decide (b.toNat < 33) || b.toNat == 43 || b.toNat == 61 || (true && b.toNat == 127)) = true
    · simp only [encByte, he, if_true, Bool.true_or, List.cons_append, List.nil_append, decode]
      simp only [hexVal_hexUp (b.toNat / 16) (by omega), hexVal_hexUp (b.toNat % 16) (by omega), ih]
      congr 2
      have : b.toNat / 16 * 16 + b.toNat % 16 = b.toNat := by omega
      rw [this]; exact UInt8.ofNat_toNat
    · have he' := he
      simp only [Bool.or_eq_true, Bool.and_eq_true, decide_eq_true_eq, beq_iff_eq, true_and, not_or] at he'
      simp only [encByte, he, Bool.false_eq_true, if_false, List.cons_append, List.nil_append, decode]
      have h43 : ¬ b = 43 := fun e => he'.1.1.2 (by rw [e]; rfl)
      unfold decode
      rw [if_neg h43]
      have hx : isXchar b = true := by
        simp only [isXchar, Bool.or_eq_true, Bool.and_eq_true, decide_eq_true_eq]
        omega
      simp [hx, ih]

end LV.XText
