-- Root of the `LettreVerif` library (models, specifications, proofs, property theorems).
import LettreVerif.Props.C03
import LettreVerif.Props.C15
import LettreVerif.Props.C16
import LettreVerif.Props.C04
import LettreVerif.Props.C05
import LettreVerif.Props.C14
import LettreVerif.Props.C06
import LettreVerif.Props.C20
import LettreVerif.Props.C18
import LettreVerif.Props.C10
import LettreVerif.Props.C02
import LettreVerif.Props.C12
import LettreVerif.Props.C17
import LettreVerif.Props.C01
import LettreVerif.Props.C11
