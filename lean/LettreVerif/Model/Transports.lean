import LettreVerif.Model.Client
/-!
# M: what each transport hands to its sink (stub, file, sendmail; SMTP is `Model/Client.lean`)

`Transport::send(message)` is `send_raw(message.envelope(), message.formatted())` for every
transport; the models below are `send_raw`.
-/
namespace LV.Transports
open LV

structure Envelope where
  from? : Option Bytes
  to : List Bytes
deriving Repr, DecidableEq

/-- stub: the log entry's text. The code stores `String::from_utf8_lossy(email)`: equal to the
    octets exactly when they are UTF-8; otherwise `none` (not the octets: a known finding) -/
def stubLog (msg : Bytes) : Option Bytes := if utf8Valid msg then some msg else none

/-- `serde_json` string escaping for the characters an address can contain -/
def jsonEscapeByte (b : Byte) : Bytes := if b = 34 then [92, 34] else if b = 92 then [92, 92] else [b]

def jsonString (s : Bytes) : Bytes := [34] ++ s.flatMap jsonEscapeByte ++ [34]

/-- the reader's side of the escaping: `\"` and `\\` -/
def jsonUnescape : Bytes → Option Bytes
  | [] => some []
  | b :: rest =>
    if b = 92 then
      match rest with
      | e :: rest' => if e = 34 ∨ e = 92 then (jsonUnescape rest').map (e :: ·) else none
      | [] => none
    else if b = 34 then none else (jsonUnescape rest).map (b :: ·)

def joinComma : List Bytes → Bytes
  | [] => []
  | [x] => x
  | x :: xs => x ++ [44] ++ joinComma xs

/-- the `.json` file written next to the `.eml` file -/
def envelopeJson (e : Envelope) : Bytes :=
  str "{\"forward_path\":[" ++ joinComma (e.to.map jsonString) ++ str "],\"reverse_path\":" ++
    (match e.from? with | some f => jsonString f | none => str "null") ++ str "}"

/-- file transport: `<id>.eml` holds the octets, `<id>.json` the envelope -/
def fileContents (e : Envelope) (msg : Bytes) : Bytes × Bytes := (msg, envelopeJson e)

/-- sendmail: argument vector and standard input -/
def sendmailArgv (e : Envelope) : List Bytes :=
  [str "-i"] ++ (match e.from? with | some f => [str "-f", f] | none => []) ++ [str "--"] ++ e.to

inductive SendmailResult
  | ok
  | clientError (stderr : Bytes)     -- non-zero exit: the diagnostics
  | responseError                    -- non-zero exit and diagnostics that are not UTF-8
deriving Repr, DecidableEq

def sendmailResult (exitOk : Bool) (stderr : Bytes) : SendmailResult :=
  if exitOk then .ok else if utf8Valid stderr then .clientError stderr else .responseError

end LV.Transports
