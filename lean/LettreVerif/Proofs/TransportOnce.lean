import LettreVerif.Model.Transport
import LettreVerif.Proofs.Client
/-!
# `send_raw` hands the message over at most once (C05, transport level)

`dcount c` counts the `DATA` commands written on a connection; `Pool.dataCommands` sums it over every connection the
transport ever opened.  One `send_raw` — check-out with its NOOP probes, possibly a new connection, the transaction,
the return of the connection — raises the sum by at most one, and by exactly one when it reports success: there is no
second attempt on another connection.
-/
namespace LV.Transport
open LV LV.Client LV.Response

def dcount (c : Conn) : Nat := c.sent.count dataLine
def Pool.dataCommands (p : Pool) : Nat := (p.conns.map dcount).sum

theorem quit_ne_data : quitLine ≠ dataLine := by decide
theorem noop_ne_data : noopLine ≠ dataLine := by decide
theorem ehlo_ne_data (h : Bytes) : ehloLine h ≠ dataLine := by
  intro e; have := congrArg List.head? e; simp [ehloLine, dataLine] at this
theorem rcpt_ne_data (a : Bytes) : rcptLine a ≠ dataLine := by
  intro e
  have h1 : str "RCPT TO:<" = [82, 67, 80, 84, 32, 84, 79, 58, 60] := by decide
  simp [rcptLine, dataLine, h1] at e
theorem mail_ne_data (f : Option Bytes) (u e8 : Bool) : mailLine f u e8 ≠ dataLine := by
  intro e
  have h1 : str "MAIL FROM:<" = [77, 65, 73, 76, 32, 70, 82, 79, 77, 58, 60] := by decide
  simp [mailLine, dataLine, h1] at e
theorem wire_ne_data (m : Bytes) : Codec.wire m ≠ dataLine := by
  intro e
  have := congrArg (fun l => l.reverse.take 3) e
  simp [Codec.wire, Codec.terminator, dataLine] at this

theorem dcount_deliver (c : Conn) : dcount c.deliver = dcount c := by simp [dcount, (deliver_fields c).1]
theorem dcount_read (c : Conn) : dcount c.read.1 = dcount c := by simp [dcount, (read_fields c).1]

theorem dcount_write (c : Conn) (u : Bytes) (hu : u ≠ dataLine) : dcount (c.write u) = dcount c := by
  unfold Conn.write
  split
  · rfl
  · rw [dcount_deliver]; simp [dcount, List.count_cons, hu]

theorem dcount_write_le (c : Conn) (u : Bytes) : dcount (c.write u) ≤ dcount c + 1 := by
  unfold Conn.write
  split
  · omega
  · rw [dcount_deliver]; simp only [dcount, List.count_cons]; split <;> omega

theorem dcount_command (c : Conn) (l : Bytes) (hl : l ≠ dataLine) : dcount (c.command l).1 = dcount c := by
  simp [Conn.command, dcount_read, dcount_write _ _ hl]

theorem dcount_command_le (c : Conn) (l : Bytes) : dcount (c.command l).1 ≤ dcount c + 1 := by
  simp only [Conn.command, dcount_read]; exact dcount_write_le c l

theorem dcount_abort (c : Conn) : dcount c.abort = dcount c := by
  unfold Conn.abort
  by_cases hp : c.panic = true
  · simp [hp, dcount]
  · have := dcount_command { c with panic := true } quitLine quit_ne_data
    simp only [hp, Bool.false_eq_true, if_false]
    simpa [dcount] using this

theorem dcount_tryAbort (r : Conn × Res) : dcount (tryAbort r).1 = dcount r.1 := by
  unfold tryAbort
  split
  · simp [dcount_abort]
  · rfl

theorem dcount_rcpts (c : Conn) (to : List Bytes) : dcount (rcpts c to).1 = dcount c := by
  induction to generalizing c with
  | nil => rfl
  | cons a as ih =>
    have h0 := dcount_tryAbort (c.command (rcptLine a))
    rw [dcount_command _ _ (rcpt_ne_data a)] at h0
    unfold rcpts
    split
    · rename_i c' e heq; rw [heq] at h0; exact h0
    · rename_i c' r heq; rw [heq] at h0; rw [ih c']; exact h0

theorem dcount_message (c : Conn) (m : Bytes) : dcount (c.message m).1 = dcount c := by
  simp [Conn.message, dcount_read, dcount_write _ _ (wire_ne_data m)]

/-- one `send`: at most one DATA command -/
theorem dcount_send_le (c : Conn) (f : Option Bytes) (to : List Bytes) (m : Bytes) :
    dcount (c.send f to m).1 ≤ dcount c + 1 := by
  unfold Conn.send
  split
  · exact Nat.le_succ _
  · split
    · exact Nat.le_succ _
    · have h0 := dcount_tryAbort (c.command (mailLine f (needsUtf8 f to) (needsEight m)))
      rw [dcount_command _ _ (mail_ne_data _ _ _)] at h0
      split
      · rename_i c1 e heq; rw [heq] at h0; simp only at h0 ⊢; omega
      · rename_i c1 r heq; rw [heq] at h0; simp only at h0
        have h1 := dcount_rcpts c1 to
        split
        · rename_i c2 e heq2; rw [heq2] at h1; simp only at h1 ⊢; omega
        · rename_i c2 heq2; rw [heq2] at h1; simp only at h1
          have h2 := dcount_tryAbort (c2.command dataLine)
          have h2' := dcount_command_le c2 dataLine
          split
          · rename_i c3 e heq3; rw [heq3] at h2; simp only at h2 ⊢; omega
          · rename_i c3 r3 heq3; rw [heq3] at h2; simp only at h2
            rw [dcount_tryAbort, dcount_message]; omega

/-- a successful `send` on an open connection: exactly one -/
theorem dcount_send_ok (c : Conn) (f : Option Bytes) (to : List Bytes) (m : Bytes) (h : c.shut = false) (r : Resp)
    (hok : (c.send f to m).2 = .ok r) : dcount (c.send f to m).1 = dcount c + 1 := by
  rcases send_shape c f to m h with ⟨h1, _⟩ | ⟨c1, r', h1, _, _, h4, h5⟩ | ⟨c', e, us, h1, _⟩
  · rw [h1] at hok; cases hok
  · rw [h1]
    simp only [dcount, h5, h4]
    have hz : ((to.map rcptLine).reverse).count dataLine = 0 := by
      rw [List.count_eq_zero]
      intro hm
      rcases List.mem_map.mp (List.mem_reverse.mp hm) with ⟨a, _, ha⟩
      exact rcpt_ne_data a ha
    simp [List.count_cons, List.count_append, hz, wire_ne_data m, mail_ne_data]
  · rw [h1] at hok; cases hok

/-! ### the pool -/

theorem sum_set (l : List Conn) (i : Nat) (c c0 : Conn) (h : l[i]? = some c0) :
    ((l.set i c).map dcount).sum + dcount c0 = (l.map dcount).sum + dcount c := by
  induction l generalizing i with
  | nil => simp at h
  | cons a l ih =>
    cases i with
    | zero => simp at h; subst h; simp; omega
    | succ i =>
      simp at h
      have := ih i h
      simp only [List.set_cons_succ, List.map_cons, List.sum_cons]
      omega

theorem data_setConn (p : Pool) (i : Nat) (c c0 : Conn) (h : p.conns[i]? = some c0) :
    (p.setConn i c).dataCommands + dcount c0 = p.dataCommands + dcount c := by
  simpa [Pool.setConn, Pool.dataCommands] using sum_set p.conns i c c0 h

theorem data_setConn_same (p : Pool) (i : Nat) (c c0 : Conn) (h : p.conns[i]? = some c0) (hd : dcount c = dcount c0) :
    (p.setConn i c).dataCommands = p.dataCommands := by
  have := data_setConn p i c c0 h; omega

theorem dcount_ehlo (c : Conn) (hello : Bytes) : dcount (c.ehlo hello).1 = dcount c := by
  have h0 := dcount_tryAbort (c.command (ehloLine hello))
  rw [dcount_command _ _ (ehlo_ne_data hello)] at h0
  unfold Conn.ehlo
  split
  · rename_i c1 e heq; rw [heq] at h0; exact h0
  · rename_i c1 r heq; rw [heq] at h0; simp only at h0
    split
    · simpa [dcount] using h0
    · simp only [dcount_abort]; exact h0

theorem dcount_testConnected (c : Conn) : dcount c.testConnected.1 = dcount c := by
  have h0 := dcount_command c noopLine noop_ne_data
  unfold Conn.testConnected
  split <;> (rename_i heq; rw [heq] at h0; exact h0)

@[simp] theorem data_idle (p : Pool) (l : List Nat) : ({ p with idle := l } : Pool).dataCommands = p.dataCommands := rfl

theorem open_data (p : Pool) : p.open.1.dataCommands = p.dataCommands := by
  unfold Pool.open
  split
  · rfl
  · rename_i s rest hs
    -- the new connection has not written DATA
    have hc : ∀ c0 : Conn, dcount c0 = 0 →
        dcount (match c0.read with
          | (c, .error e) => (c, (.error e : Except Err Unit))
          | (c, .ok _) => c.ehlo p.hello).1 = 0 := by
      intro c0 h0
      have hr := dcount_read c0
      split
      · rename_i c e heq; rw [heq] at hr; simp only at hr ⊢; omega
      · rename_i c r heq; rw [heq] at hr; simp only at hr; rw [dcount_ehlo]; omega
    simp only
    split <;>
    · simp only [Pool.dataCommands, List.map_append, List.sum_append, List.map_cons, List.map_nil, List.sum_cons,
        List.sum_nil]
      rw [Nat.add_zero]
      apply Nat.add_eq_left.mpr
      exact hc _ (by rw [dcount_deliver]; simp [dcount, Conn.fresh])

theorem acquire_data (p : Pool) (l : List Nat) : (p.acquire l).1.dataCommands = p.dataCommands := by
  induction l generalizing p with
  | nil => simp [Pool.acquire, open_data]
  | cons i rest ih =>
    unfold Pool.acquire
    split
    · exact ih p
    · rename_i c hc
      have ht := dcount_testConnected c
      cases htc : c.testConnected with
      | mk c' ok =>
        rw [htc] at ht
        simp only at ht ⊢
        by_cases hok : ok = true
        · simp only [hok, if_true, data_idle]
          exact data_setConn_same p i c' c hc ht
        · have hok' : ok = false := by simpa using hok
          simp only [hok', Bool.false_eq_true, if_false]
          rw [ih]
          exact data_setConn_same p i _ c hc (by rw [dcount_abort]; exact ht)

theorem recycle_data (p : Pool) (i : Nat) : (p.recycle i).dataCommands = p.dataCommands := by
  unfold Pool.recycle
  split
  · rfl
  · rename_i c hc
    split
    · exact data_setConn_same p i _ c hc (dcount_abort c)
    · split
      · exact data_setConn_same p i _ c hc (dcount_abort c)
      · rfl

/-- one `send_raw`: at most one DATA command more, over all connections of the transport -/
theorem sendRaw_data_le (p : Pool) (f : Option Bytes) (to : List Bytes) (m : Bytes) :
    (p.sendRaw f to m).1.dataCommands ≤ p.dataCommands + 1 := by
  have ha := acquire_data p p.idle
  unfold Pool.sendRaw
  split
  · rename_i p1 _ e heq; rw [heq] at ha; simp only at ha ⊢; omega
  · rename_i p1 heq; rw [heq] at ha; simp only at ha ⊢; omega
  · rename_i p1 i heq; rw [heq] at ha; simp only at ha
    split
    · simp only; omega
    · rename_i c hc
      simp only [recycle_data]
      have := data_setConn p1 i (c.send f to m).1 c hc
      have := dcount_send_le c f to m
      omega

/-! ### a connection handed out by the pool is open -/

theorem command_ok_open (c : Conn) (l : Bytes) (r : Resp) (h : (c.command l).2 = .ok r) :
    c.shut = false ∧ (c.command l).1.shut = false := by
  have hs : c.shut = false := by
    by_cases hs : c.shut = true
    · simp [Conn.command, Conn.write, Conn.read, hs] at h
    · simpa using hs
  exact ⟨hs, (command_open c l hs).2.1⟩

theorem testConnected_ok_open (c : Conn) (h : c.testConnected.2 = true) : c.testConnected.1.shut = false := by
  unfold Conn.testConnected at h ⊢
  split at h
  · rename_i c' r heq
    have := command_ok_open c noopLine r (by rw [heq])
    rw [heq] at this; simpa [heq] using this.2
  · simp at h

theorem ehlo_ok_open (c : Conn) (hello : Bytes) (h : (c.ehlo hello).2 = .ok ()) : (c.ehlo hello).1.shut = false := by
  unfold Conn.ehlo at h ⊢
  split at h
  · simp at h
  · rename_i c1 r heq
    have hc1 : c1.shut = false := by
      unfold tryAbort at heq
      split at heq
      · cases heq
      · rename_i x hx
        have := command_ok_open c (ehloLine hello) r (by rw [heq])
        rw [heq] at this; exact this.2
    split
    · simpa using hc1
    · rename_i hne
      split at h
      · rename_i i hi; exact absurd hi (hne i)
      · simp at h

theorem open_some_open (p p1 : Pool) (i : Nat) (h : p.open = (p1, some i, .ok ())) :
    ∃ c, p1.conns[i]? = some c ∧ c.shut = false := by
  unfold Pool.open at h
  split at h
  · cases h
  · rename_i s rest hs
    simp only at h
    split at h
    · rename_i hr
      simp only [Prod.mk.injEq, Option.some.injEq, and_true] at h
      obtain ⟨hp, hi⟩ := h
      subst hp; subst hi
      apply Exists.intro
      constructor
      · simp only [List.length_append, List.length_singleton, Nat.add_sub_cancel]
        exact List.getElem?_concat_length ..
      -- the connection came out of `ehlo` with `ok`
      split at hr
      · cases hr
      · rename_i c r heq
        exact ehlo_ok_open c p.hello hr
    · simp at h

theorem acquire_some_open (p p1 : Pool) (l : List Nat) (i : Nat) (h : p.acquire l = (p1, some i, .ok ())) :
    ∃ c, p1.conns[i]? = some c ∧ c.shut = false := by
  induction l generalizing p with
  | nil => exact open_some_open _ p1 i (by simpa [Pool.acquire] using h)
  | cons j rest ih =>
    unfold Pool.acquire at h
    split at h
    · exact ih p h
    · rename_i c hc
      cases htc : c.testConnected with
      | mk c' ok =>
        simp only [htc] at h
        by_cases hok : ok = true
        · simp only [hok, if_true, Prod.mk.injEq, Option.some.injEq, and_true] at h
          obtain ⟨hp, hi⟩ := h
          subst hp; subst hi
          have hlt : j < p.conns.length := by
            rcases Nat.lt_or_ge j p.conns.length with h | h
            · exact h
            · simp [List.getElem?_eq_none h] at hc
          refine ⟨c', by simp [Pool.setConn, hlt], ?_⟩
          have := testConnected_ok_open c (by rw [htc]; exact hok)
          rw [htc] at this; exact this
        · have hok' : ok = false := by simpa using hok
          simp only [hok', Bool.false_eq_true, if_false] at h
          exact ih _ h

/-- a successful `send_raw`: exactly one DATA command more, over all connections of the transport -/
theorem sendRaw_data_ok (p : Pool) (f : Option Bytes) (to : List Bytes) (m : Bytes) (r : Resp)
    (hok : (p.sendRaw f to m).2 = .ok r) : (p.sendRaw f to m).1.dataCommands = p.dataCommands + 1 := by
  have ha := acquire_data p p.idle
  unfold Pool.sendRaw at hok ⊢
  split
  · rename_i p1 _ e heq; simp only [heq] at hok; cases hok
  · rename_i p1 heq; simp only [heq] at hok; cases hok
  · rename_i p1 i heq
    rw [heq] at ha; simp only at ha
    simp only [heq] at hok
    obtain ⟨c, hc, hs⟩ := acquire_some_open p p1 p.idle i heq
    simp only [hc] at hok ⊢
    simp only [recycle_data]
    have h1 := data_setConn p1 i (c.send f to m).1 c hc
    have h2 := dcount_send_ok c f to m hs r hok
    omega

end LV.Transport
