import LettreVerif.Props.C18
#print axioms LV.C18.smtp_sink_gets_exactly
#print axioms LV.C18.sendmail_argv_exact
#print axioms LV.C18.sendmail_nonzero_is_error
#print axioms LV.C18.file_eml_exact
#print axioms LV.C18.json_escape_lossless
#print axioms LV.C18.stub_exact_partial
#print axioms LV.C18.stub_lossy_witness
#print axioms LV.C18.envelope_file_reads_back
