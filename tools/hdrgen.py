"""Generators of header names and text values (shared by C02, C12, C17)."""
from tools.lv import hexs

WORDS = ["a", "word", "hello", "x" * 30, "y" * 75, "z" * 80, "w" * 200, "é", "ééé", "naïve", "日本語", "😀", "𝔘𝔫𝔦", "a😀b", "é" * 20, "😀" * 12,
         "=?utf-8?b?aGk=?=", "=?", "?=", "=?UTF-8?B?w6k=?=", "\"quoted\"", "back\\slash", "(paren)", "a:b", "key=value", "\t", "a\tb",
         "\r", "\n", "\r\n", "\r\n ", "\r\nX-Injected: 1", "\x00", "\x01", "\x7f", "\x0b", "\x1f", " ", " ", "\u0085"]
NAMES = ["Subject", "X", "To", "X-Custom-Header", "Comments", "x-lower", "A" * 40, "B" * 74, "C" * 76]


def text(rng, maxwords=12):
    n = rng.choice([0, 1, 1, 2, 3, 5, 8, maxwords])
    parts = []
    for _ in range(n):
        w = rng.choice(WORDS)
        if rng.random() < 0.2:
            w = "".join(rng.choice("abc éü😀=?\"\\") for _ in range(rng.randint(1, 40)))
        parts.append(w)
        parts.append(rng.choice([" ", " ", " ", "  ", "   ", "", " \t ", "\t"]))
    s = "".join(parts)
    if rng.random() < 0.5:
        s = s.rstrip(" ")
    return s


def alignment_texts():
    """1-4 byte characters at every offset against the fold column and the base64 groups"""
    out = []
    for ch in ["é", "日", "😀", "a"]:
        for pre in range(0, 80):
            out.append("a" * pre + ch * 3 + " tail")
            out.append(("b" * pre) + " " + ch * 30)
            out.append(ch * pre)
    return out


def hval_cases(rng, n, op="hval"):
    cases = []
    for t in alignment_texts():
        cases.append(f"{op}\t{hexs(rng.choice(NAMES))}\t{hexs(t)}")
    for nl in range(1, 77):
        cases.append(f"{op}\t{hexs('N' * nl)}\t{hexs('é' * 10 + ' plain ' + '😀' * 5)}")
        cases.append(f"{op}\t{hexs('N' * nl)}\t{hexs('word ' * 20)}")
    for _ in range(n):
        cases.append(f"{op}\t{hexs(rng.choice(NAMES))}\t{hexs(text(rng))}")
    for v in ["a" + " " * 1000 + "b", "a" + " " * 1000 + "é", "a" + " " * 30 + "é" * 30, "word" + " " * 12 + "é" * 40 + " x"]:
        cases.append(f"{op}\t{hexs('Subject')}\t{hexs(v)}")
    # the class of theorem C02.text_value_folded: visible-ASCII words of 1..75 octets separated by single spaces, the first
    # one fitting after the name (the model must agree octet for octet, and the 78-octet oracle has no excuse here)
    vis = "".join(chr(c) for c in range(33, 127))
    for _ in range(max(20, n // 10)):
        nm = "N" * rng.choice([1, 7, 20, 40, 60, 74])
        k = rng.choice([1, 2, 3, 10, 40, 150])
        hi = rng.choice([3, 10, 30, 75, 77, 300, 890])      # up to 77: C02.text_value_folded; up to 900: C02.text_value_within_998
        ws = ["".join(rng.choice(vis if rng.random() < 0.5 else "abcxyz") for _ in range(rng.randint(1, hi))) for _ in range(k)]
        ws[0] = ws[0][:max(1, 78 - len(nm) - 2)]
        cases.append(f"{op}\t{hexs(nm)}\t{hexs(' '.join(ws))}")
    for size in (1000, 10000, 65536):
        cases.append(f"{op}\t{hexs('Subject')}\t{hexs(('é word ' * size)[:size])}")
    return cases


def cdisp_cases(rng, n):
    """Content-Disposition with a file name: every ASCII length 1..100 (folding windows of the RFC 2231 writer), names that need
    quoted-pairs, non-ASCII names, random mixtures"""
    cases = []
    for k in ("attachment", "inline"):
        for ln in range(1, 101):
            cases.append(f"typed\tcdisp\t{k}\t{hexs(('file-%03d-' % ln + 'x' * 100)[:ln])}")
        for nm in ['report "final".pdf', 'C:\\temp\\new.txt', 'x".txt; filename="evil.exe', '"', '\\', 'a"b\\c', 'semi;colon.txt', "it's", 'tab\tname',
                   'résumé.pdf', '日本語.txt', 'a b c ' * 15, 'q"' * 12, 'trailing\\']:
            cases.append(f"typed\tcdisp\t{k}\t{hexs(nm)}")
    for _ in range(n):
        fnm = "".join(rng.choice("abcdefgh-_. \"\\é;=*'%") for _ in range(rng.randint(1, 80)))
        cases.append(f"typed\tcdisp\t{rng.choice(['attachment', 'inline'])}\t{hexs(fnm)}")
    return cases


def hdrs_cases(rng, n):
    """insert / remove / get sequences on `Headers` with names that differ in letter case only"""
    names = ["Subject", "subject", "SUBJECT", "X-A", "x-a", "To", "Comments", "Bcc", "BCC", "bcc"]
    cases = []
    for _ in range(n):
        ops = []
        for _ in range(rng.randint(1, 8)):
            r = rng.random()
            nmx = rng.choice(names)
            if r < 0.6:
                ops.append(f"i:{hexs(nmx)}:{hexs(text(rng, 4))}")
            elif r < 0.8:
                ops.append(f"r:{hexs(nmx)}")
            else:
                ops.append(f"g:{hexs(nmx)}")
        cases.append("hdrs\t" + ";".join(ops))
    return cases
