import LettreVerif.Proofs.C16
import LettreVerif.Model.Builder
/-!
# C16 — Only safe, well-formed addresses are accepted, and they round-trip exactly

`parse` models `Address::from_str` / `TryFrom<String>` / string deserialisation, `new` models
`Address::new` / `TryFrom<(U, D)>` / `{user, domain}` deserialisation.  `EnvOk e` are the
assumptions A1–A3 on `char::is_alphanumeric`, `idna::domain_to_ascii` and `IpAddr` parsing.
-/
namespace LV.C16
open LV LV.Address LV.AddressSafe

/-- The reported user and domain rejoin to the original string; `Display` prints it. -/
theorem rejoin (e : Env) (s : List Char) (a : Addr) (h : parse e s = .ok a) : a.serialized = s := by
  simp only [parse] at h
  split at h
  · cases h
  · rename_i u d hs
    split at h
    · cases h
    · split at h
      · cases h
      · simp only [Except.ok.injEq] at h
        subst h
        have := split_rejoin [] s u d hs
        simpa [Addr.serialized] using this.symm

/-- An accepted address contains no control character (CR, LF, NUL, HTAB, …), no `@` in its
    domain, and space / angle brackets / `@` only inside a quoted local part. -/
theorem accepted_safe (e : Env) (he : EnvOk e) (s : List Char) (a : Addr) (h : parse e s = .ok a) :
    safe a.user a.domain = true := by
  simp only [parse] at h
  split at h
  · cases h
  · rename_i u d hs
    split at h
    · cases h
    · rename_i hu
      split at h
      · cases h
      · rename_i hd
        simp only [Except.ok.injEq] at h
        subst h
        simp only [Bool.not_eq_true, Bool.not_eq_false'] at hu hd
        have h1 := domain_good e he d hd
        have h2 := user_safe e he u hu
        simp only [safe, Bool.and_eq_true]
        refine ⟨List.all_eq_true.mpr h1, ?_⟩
        split <;> simp_all

/-- `new(user, domain)` accepts only what parsing `user@domain` accepts, with the same parts. -/
theorem new_then_parse (e : Env) (he : EnvOk e) (u d : List Char) (a : Addr) (h : new e u d = .ok a) :
    a = ⟨u, d⟩ ∧ parse e (u ++ '@' :: d) = .ok a := by
  simp only [new] at h
  split at h
  · cases h
  · rename_i hu
    split at h
    · cases h
    · rename_i hd
      simp only [Except.ok.injEq] at h
      subst h
      simp only [Bool.not_eq_true, Bool.not_eq_false'] at hu hd
      have hat := no_at_of_good d (domain_good e he d hd)
      refine ⟨rfl, ?_⟩
      simp [parse, split_join [] u d hat, hu, hd]

/-- Conversely, if parsing `user@domain` accepts it as that user and that domain, `new` accepts.
    (When `domain` contains an `@`, `user@domain` may parse with a different split —
    `("\"a", "b\"@c.d")` — and `new` rightly refuses the pair.) -/
theorem parse_then_new (e : Env) (u d : List Char) (h : parse e (u ++ '@' :: d) = .ok ⟨u, d⟩) :
    new e u d = .ok ⟨u, d⟩ := by
  simp only [parse] at h
  split at h
  · cases h
  · rename_i u' d' hs
    split at h
    · cases h
    · rename_i hu
      split at h
      · cases h
      · rename_i hd
        simp only [Except.ok.injEq, Addr.mk.injEq] at h
        obtain ⟨rfl, rfl⟩ := h
        simp only [Bool.not_eq_true, Bool.not_eq_false'] at hu hd
        simp [new, hu, hd]

/-- Displaying an accepted address and parsing it again gives an equal value. -/
theorem display_parse (e : Env) (s : List Char) (a : Addr) (h : parse e s = .ok a) :
    parse e a.serialized = .ok a := by rw [rejoin e s a h]; exact h

theorem serialized_no_crlf (e : Env) (he : EnvOk e) (s : List Char) (a : Addr) (h : parse e s = .ok a) :
    ∀ c ∈ a.serialized, c ≠ '\r' ∧ c ≠ '\n' := by
  have hs := accepted_safe e he s a h
  simp only [safe, Bool.and_eq_true] at hs
  have hctl : ∀ c ∈ a.serialized, isControl c = false := by
    intro c hc
    simp only [Addr.serialized, List.mem_append, List.mem_cons] at hc
    rcases hc with hc | rfl | hc
    · have := hs.2
      split at this
      · simpa using (List.all_eq_true.mp this) c hc
      · have := (List.all_eq_true.mp this) c hc
        simp only [good, plainChar, Bool.and_eq_true, Bool.not_eq_true'] at this
        exact this.1.1.1.1
    · decide
    · have := (List.all_eq_true.mp hs.1) c hc
      simp only [good, plainChar, Bool.and_eq_true, Bool.not_eq_true'] at this
      exact this.1.1.1.1
  intro c hc
  have := hctl c hc
  constructor <;> (intro e0; subst e0; revert this; decide)

/-- MAIL FROM / RCPT TO lines rendered from accepted addresses contain exactly one CRLF, at
    the end: an address cannot inject a command. -/
theorem command_lines_single_crlf (e : Env) (he : EnvOk e) (s : List Char) (a : Addr)
    (h : parse e s = .ok a) :
    singleCrlfLine (rcptLine a) = true ∧ singleCrlfLine (mailLine (some a)) = true ∧
    singleCrlfLine (mailLine none) = true := by
  have hn := serialized_no_crlf e he s a h
  have key : ∀ pre : List Char, (∀ c ∈ pre, c ≠ '\r' ∧ c ≠ '\n') →
      singleCrlfLine (pre ++ a.serialized ++ lineEnd) = true := by
    intro pre hpre
    simp only [singleCrlfLine, lineEnd, List.reverse_append, List.reverse_cons, List.reverse_nil,
      List.nil_append, List.cons_append, List.all_cons, List.all_append, List.all_reverse,
      Bool.and_eq_true, bne_iff_ne, ne_eq]
    refine ⟨⟨by decide, by decide⟩, ?_, ?_⟩
    · apply List.all_eq_true.mpr; intro c hc; simpa using hn c hc
    · apply List.all_eq_true.mpr; intro c hc; simpa using hpre c hc
  refine ⟨key rcptPrefix (by decide), key mailPrefix (by decide), by decide⟩

/-- The sendmail argument vector is `-i`, optionally `-f sender`, `--`, then exactly the
    recipients, one element each: a recipient can never be read as an option. -/
theorem argv_safe (f : Option Addr) (to : List Addr) :
    ∃ pre, sendmailArgv f to = pre ++ [dashDash] ++ to.map Addr.serialized ∧
      (pre = [optI] ∨ ∃ a, f = some a ∧ pre = [optI, optF, a.serialized]) := by
  cases f with
  | none => exact ⟨[optI], by simp [sendmailArgv], Or.inl rfl⟩
  | some a => exact ⟨[optI, optF, a.serialized], by simp [sendmailArgv], Or.inr ⟨a, rfl, rfl⟩⟩

/-- An envelope never has an empty recipient list. -/
theorem envelope_nonempty (f : Option Addr) (to : List Addr) :
    (envelopeNew f to = none ↔ to = []) ∧ (∀ r, envelopeNew f to = some r → r.2 ≠ []) := by
  cases to with
  | nil => simp [envelopeNew]
  | cons x xs => simp [envelopeNew]

/-- … also when the envelope is derived from the header map (`Envelope::try_from(&Headers)`, behind every message builder):
    whatever the stored headers are — a recipient field may be present with an empty list — an envelope that is produced
    has a recipient, and it is refused with `MissingTo` exactly when To, Cc and Bcc together hold no address. (Round 7 of the
    seeded changes: C16/m19 tested the presence of a header instead; the `envhdrs` cases exercise this on the real code.) -/
theorem header_envelope_nonempty (e : Env) (s : Builder.St) :
    (∀ ev, s.headerEnvelope e = .ok ev → ev.recipients ≠ []) ∧
    (s.headerEnvelope e = .error .missingTo ↔
      (s.reversePath e ≠ none ∧ s.addrs e .to ++ s.addrs e .cc ++ s.addrs e .bcc = [])) := by
  unfold Builder.St.headerEnvelope
  cases hr : s.reversePath e with
  | none => simp
  | some rp =>
    by_cases h : (s.addrs e .to ++ s.addrs e .cc ++ s.addrs e .bcc).isEmpty = true
    · simp only [h, if_true]
      have : s.addrs e .to ++ s.addrs e .cc ++ s.addrs e .bcc = [] := by simpa using h
      simp [this]
    · simp only [h]
      have hne : s.addrs e .to ++ s.addrs e .cc ++ s.addrs e .bcc ≠ [] := by simpa using h
      refine ⟨?_, ?_⟩
      rotate_left
      · constructor
        · intro hh; simp at hh
        · intro hh; exact absurd hh.2 hne
      intro ev hev
      simp only [Bool.false_eq_true, if_false, Except.ok.injEq] at hev
      subst hev
      exact hne

/-- non-vacuity: an environment satisfying A1–A3 exists and accepts a quoted local part with a
    space and an IPv6 literal. -/
def demoEnv : Env where
  isAlnum c := (48 ≤ c.toNat && c.toNat ≤ 57) || (97 ≤ c.toNat && c.toNat ≤ 122)
  idna _ := none
  isIp s := s == [':', ':', '1']

example : parse demoEnv ['"', 'a', ' ', 'b', '"', '@', '[', 'I', 'P', 'v', '6', ':', ':', ':', '1', ']'] =
    .ok ⟨['"', 'a', ' ', 'b', '"'], ['[', 'I', 'P', 'v', '6', ':', ':', ':', '1', ']']⟩ := by rfl

example : parse demoEnv ['a', '@', '[', '>', ']'] = .error .invalidDomain := by rfl

end LV.C16
