"""C02 — Header section is well-formed and injection-proof for any supplied text."""
import itertools
import re
from tools import hdrgen, mboxgen
from tools.lv import hexs, unhex

LEVEL = "proof"
CORRESPONDENCE = ("Model/HeaderEnc.lean (EmailWriter, folding writer, rfc2047 encoder, HeaderValueEncoder, allowed_char, header-name check) "
                  "vs HeaderValue::new, HeaderName::new_from_ascii, Headers (insert_raw / remove_raw / get_raw / Display)")
RULE = ("hval: header names of every length 1..76 x texts built from words of 1..200 characters, 1-4 byte code points at every offset "
        "0..79 against the fold column and the base64 groups, runs of spaces and tabs, CR, LF, CRLF+SP, CRLF+injected field, NUL, C0 "
        "controls, DEL, ':' , '=?', quotes, up to 64 KiB; hname: every string over the 128 ASCII values up to length 2 plus structured "
        "names (control characters, spaces, colons, non-ASCII, lengths 0/1/76/77) [exhaustive to length 2]; hdrs: random sequences of "
        "insert/remove/get with names differing in letter case; typed: the nine text headers and Content-Type through their own display() "
        "(single tokens carrying CR / LF / NUL / an injected field, encoded-word look-alikes, non-ASCII quoted parameters), compared with the "
        "encoder model and read back; build: header counts (one Date, one From) of built messages, incl. a Sender without a From. Non-trivial = the value needs encoding or folding, or contains a "
        "control character; distinct = distinct case lines.")
TRUSTED_BASE = ["Lean 4 kernel", "axioms: propext, Quot.sound, Classical.choice at most (see axioms per theorem)",
                "Spec/HeaderReader.lean as the reading of RFC 5322 2.2 (field splitting, unfolding, line rules)",
                "harness lvh + line protocol + this orchestrator"]
ASSUMPTIONS = ["the base64 crate's STANDARD engine is RFC 4648 (tied through every encoded-word of the correspondence)"]
EXHAUSTIVE_PARTS = ["hname: all ASCII strings up to length 2", "allowed_char: all 256 octet values, each as a one-character value (valid UTF-8 ones)"]


def gen(tier, rng):
    n = {"quick": 4000, "search": 15000, "thorough": 80000}[tier]
    cases = hdrgen.hval_cases(rng, n)
    cases += hdrgen.cdisp_cases(rng, {"quick": 200, "search": 1000, "thorough": 5000}[tier])
    for b in range(128):
        cases.append(f"hval\t{hexs('X')}\t{hexs('a' + chr(b) + 'b')}")
        cases.append(f"hname\t{bytes([b]).hex()}")
        for c in range(128):
            cases.append(f"hname\t{bytes([b, c]).hex()}")
    for nm in ["", "X-A\r\nInjected", "X\tA", "Xé", "X A", "X:A", "X" * 76, "X" * 77, "X~", "X-Ok", "x\x00y", "\x7f"]:
        cases.append(f"hname\t{hexs(nm) if nm else '-'}")
        cases.append(f"hval\t{hexs(nm) if nm else '-'}\t{hexs('value')}")
    # names that differ in letter case only are one field; names that differ in a punctuation character whose codes differ by
    # 0x20 ('[' / '{', ']' / '}', '^' / '~', '@' / '`', '\\' / '|') are two (round 7: C02/m19 folded the case bit of every octet)
    names = ["Subject", "subject", "SUBJECT", "X-A", "x-a", "To", "Comments", "X-Slot[1]", "X-Slot{1}", "x-slot[1]", "X-K^", "X-K~", "X-At@", "X-At`", "X-B\\", "X-B|"]
    nh = {"quick": 600, "search": 2000, "thorough": 10000}[tier]
    for _ in range(nh):
        ops = []
        for _ in range(rng.randint(1, 8)):
            r = rng.random()
            nmx = rng.choice(names)
            if r < 0.6:
                ops.append(f"i:{hexs(nmx)}:{hexs(hdrgen.text(rng, 4))}")
            elif r < 0.8:
                ops.append(f"r:{hexs(nmx)}")
            else:
                ops.append(f"g:{hexs(nmx)}")
        cases.append("hdrs\t" + ";".join(ops))
    # the typed text headers through their own `display()` (Subject, Comments, Keywords, In-Reply-To, References, Message-ID,
    # User-Agent, Content-ID, Content-Location): single tokens without a space that carry CR / LF / NUL / an injected field,
    # encoded-word look-alikes, long unbreakable tokens, and random texts
    sels = ["subject", "comments", "keywords", "in-reply-to", "references", "message-id", "user-agent", "content-id", "content-location"]
    tokens = ["a\r\nX-Injected:1", "a\r\n\r\nbody", "a\nb", "a\rb", "a\x00b", "\r\n", "\r\n X", "<id@host>\r\nBcc:x@y.z", "plain", "x" * 100, "x" * 890,
              "=?utf-8?q?x?=", "=?utf-8?b?aGk=?=", "a\tb", "\x7f", "é", "a:b", "<1234@local.machine.example>", "tok\x0bv", "a\x1fb"]
    for sel in sels:
        for t in tokens:
            cases.append(f"typed\ttext\t{hexs(t)}\t{sel}")
    for _ in range({"quick": 400, "search": 1500, "thorough": 8000}[tier]):
        t = hdrgen.text(rng, 6)
        r = rng.random()
        if r < 0.4:
            t = t.replace(" ", "").replace("\t", "")          # one token
        if r < 0.25 or r > 0.9:
            k = rng.randint(0, len(t))
            t = t[:k] + rng.choice(["\r\n", "\n", "\r", "\x00", "\r\nX:1", "\r\n\r\n"]) + t[k:]
        if t:
            cases.append(f"typed\ttext\t{hexs(t)}\t{rng.choice(sels)}")
    # Content-Type through its own `display()`: short and long values, non-ASCII and blanks inside quoted parameters
    for ct in ["text/plain", "text/plain; charset=utf-8", "application/pdf; name=\"résumé.pdf\"", "application/pdf; name=\"é\"", "image/png; name=\"日本語.png\"",
               "application/octet-stream; name=\"" + "é" * 40 + "\"", "application/octet-stream; name=\"" + "x" * 90 + "\"", "multipart/mixed; boundary=\"a b\"",
               "text/plain; a=\"b c\"; d=\"é f\"", "multipart/mixed; boundary=\"a =?b?= c\"", "multipart/related; boundary=\"=?utf-8?q?x?= y\"; type=\"text/html\"",
               "application/x-t; name=\"=?utf-8?b?aGk=?= é\"", "a/b; c=\"\\\"\"", "text/plain; charset=utf-8; format=flowed; delsp=yes; x-long=" + "y" * 60]:
        cases.append(f"typed\tctype\t{hexs(ct)}\t-")
    for _ in range({"quick": 150, "search": 500, "thorough": 3000}[tier]):
        val = "".join(rng.choice("ab .éü日-_") for _ in range(rng.randint(1, 70)))
        cases.append(f"typed\tctype\t{hexs(rng.choice(['text/plain', 'application/x-' + 'z' * rng.randint(1, 40)]) + '; name=' + chr(34) + val + chr(34))}\t-")
    # a built message: exactly one Date and one From, whatever the calls (incl. a Sender without any From)
    cases += ["build\t" + ",".join(p) for p in (
        [f"S:-:{hexs('s@x.y')}", f"T:-:{hexs('t@x.y')}"], [f"S:-:{hexs('s@x.y')}"], [f"T:-:{hexs('t@x.y')}"],
        [f"F:-:{hexs('f@x.y')}", f"S:-:{hexs('s@x.y')}", f"T:-:{hexs('t@x.y')}"],
        [f"F:-:{hexs('f@x.y')}", f"F:-:{hexs('g@x.y')}", f"T:-:{hexs('t@x.y')}"],
        [f"F:-:{hexs('f@x.y')}", f"F:-:{hexs('g@x.y')}", f"S:-:{hexs('s@x.y')}", f"T:-:{hexs('t@x.y')}"])]
    cases += mboxgen.build_cases(rng, {"quick": 300, "search": 1000, "thorough": 5000}[tier])
    # every way of finishing a message: a raw body (also an empty one) has no MIME-Version, a MIME body exactly one; the header
    # section ends with an empty line in every case
    for fin in "xesmh":
        for pre in ([f"F:-:{hexs('f@x.y')}", f"T:-:{hexs('t@x.y')}"], [f"F:{hexs('Né')}:{hexs('f@x.y')}", f"C:-:{hexs('t@x.y')}", "D"],
                    [f"S:-:{hexs('s@x.y')}", f"F:-:{hexs('f@x.y')}", f"F:-:{hexs('g@x.y')}", f"B:-:{hexs('t@x.y')}"],
                    [f"T:-:{hexs('t@x.y')}"], [f"F:-:{hexs('f@x.y')}", f"T:-:{hexs('t@x.y')}", f"E:-:{hexs('o@x.y')}"]):
            cases.append("build\t" + ",".join(pre + [f"Z:{fin}"]))
    # mailbox headers on the wire: one mailbox under every header kind, and lists of 1..50 mailboxes (folding, the 998 limit)
    cases += mboxgen.mbox_cases(rng, {"quick": 200, "search": 600, "thorough": 3000}[tier])
    cases += mboxgen.list_cases(rng, {"quick": 300, "search": 1000, "thorough": 5000}[tier])
    for k in (20, 60, 120):
        cases.append("mboxlist\t" + ",".join(f"-:{hexs('recipient%d@example.org' % i)}" for i in range(k)))
        cases.append("mboxlist\t" + ",".join(f"{hexs('Name %d' % i)}:{hexs('recipient%d@example.org' % i)}" for i in range(k)))
        cases.append("build\t" + ",".join([f"F:-:{hexs('f@x.y')}"] + [f"{'TCB'[i % 3]}:-:{hexs('recipient%d@example.org' % i)}" for i in range(k)]))
    return cases


def nontrivial(case):
    f = case.split("\t")
    if f[0] == "hval":
        v = unhex(f[2])
        return any(b > 126 or b < 32 for b in v) or len(v) > 60
    return True


def shrinkable(case):
    op = case.split("\t")[0]
    if op == "typed":
        return [3]
    if op in ("mbox", "mboxlist", "build"):
        return [1] if op == "mbox" else []
    return [1, 2] if op.startswith("hval") else [1]


def distribution(cases):
    d = {}
    for c in cases:
        f = c.split("\t")
        d[f[0]] = d.get(f[0], 0) + 1
        if f[0] == "hval":
            v = unhex(f[2])
            k = "hval_needs_encoding" if any(b > 126 or b < 32 for b in v) else "hval_plain"
            d[k] = d.get(k, 0) + 1
    return d


def _hv(f):
    """cases whose output is one `HeaderValue::new` field: hval / hvalrt, and a typed text header (its display() is HeaderValue::new)"""
    return f[0] in ("hval", "hvalrt") or (f[0] == "typed" and f[1] == "text")


def _cdisp_escaped(f, o, v):
    """Content-Disposition: a name with double quotes / backslashes; a line sized before the quoted-pair escaping exceeds 78 after it"""
    if f[0] != "typed" or f[1] != "cdisp" or "line-over-78-that-could-have-been-folded" not in v:
        return False
    name = unhex(f[3])
    return b'"' in name or b"\\" in name


def _tab_not_fold_point(f, o, v):
    """an over-78 line whose token contains HTAB but no SP: lettre (email-encoding's folding
    writer) only folds at SP"""
    if not _hv(f) or "line-over-78-that-could-have-been-folded" not in v:
        return False
    try:
        block = unhex(o[4])
    except Exception:
        return False
    for i, line in enumerate(block.split(b"\r\n")):
        if len(line) <= 78:
            continue
        if line[:1] in (b" ", b"\t"):
            start = line.lstrip(b" \t")
        else:
            start = line.split(b":", 1)[1].lstrip(b" \t") if b":" in line else line
        tok = start.rstrip(b" \t")
        if b" " in tok:
            return False
    return True


def _trailing_ws_past_78(f, o, v):
    """every over-78 line is within 78 once its trailing white space is removed: the value ends
    with spaces that the writer appends to a full last line"""
    if not _hv(f) or "line-over-78-that-could-have-been-folded" not in v:
        return False
    try:
        block = unhex(o[4])
    except Exception:
        return False
    long_lines = [l for l in block.split(b"\r\n") if len(l) > 78]
    return bool(long_lines) and all(len(l.rstrip(b" \t")) <= 78 or b" " not in l.strip(b" \t").split(b": ", 1)[-1] for l in long_lines) \
        and any(len(l.rstrip(b" \t")) <= 78 for l in long_lines)


def _block(f, o):
    try:
        return unhex(o[4])
    except Exception:
        return None


def _spaces_before_encoded_word(f, o, v):
    """rfc2047::encode (email-encoding) computes the room left on the line from line_len(), without the
    spaces still pending: an encoded-word written after a run of k >= 2 spaces overshoots by up to k"""
    if not _hv(f) or "line-over-78-that-could-have-been-folded" not in v:
        return False
    block = _block(f, o)
    if block is None:
        return False
    hit = False
    for l in block.split(b"\r\n"):
        if len(l) <= 78:
            continue
        body = l.rstrip(b" \t")
        tok = body.lstrip(b" \t") if l[:1] in (b" ", b"\t") else body.split(b": ", 1)[-1]
        if b" " not in tok or len(body) <= 78:
            continue          # single token / only trailing white space: other classes or legitimate
        m = [len(x.group(1)) for x in re.finditer(rb"( {2,})=\?utf-8\?b\?", l)]
        if not m or len(l) - 78 > max(m) + 2:
            return False
        hit = True
    return hit


def _space_run_over_998(f, o, v):
    """a run of 900+ consecutive spaces is written on one line"""
    if not _hv(f) or "over-998" not in v:
        return False
    block = _block(f, o)
    if block is None:
        return False
    lines = block.split(b"\r\n")
    if any(not all(b == 9 or 32 <= b <= 126 for b in l) for l in lines):
        return False
    long_lines = [l for l in lines if len(l) > 998]
    return bool(long_lines) and all(b" " * 900 in l for l in long_lines)


def _mailbox_block(o):
    """the header block of a mailbox header in an `mbox` / `mboxlist` output line"""
    for x in reversed(o):
        if "|wire:" in x:
            x = x.split("|wire:", 1)[1].split(";", 1)[0]
        elif ":" in x:
            x = x.split(":", 1)[0]
        try:
            b = unhex(x)
        except Exception:
            continue
        if b.endswith(b"\r\n") and b": " in b[:20]:
            return b
    return None


def _name_start_not_folded(f, o, v):
    """a mailbox header: the first word of a display name (a plain atom, the opening quote with its first word, the first
    encoded-word) is written without looking at the room left on the line (quoted_string::encode of the email-encoding
    crate); the line would have been within 78 octets had it been folded before that word"""
    if f[0] not in ("mbox", "mboxlist") or "line-over-78-without-a-token-that-long" not in v:
        return False
    block = _mailbox_block(o)
    if block is None:
        return False
    import re as _re
    name_start = _re.compile(rb'^("[A-Za-z0-9 \-_.\\"]*|[A-Za-z0-9\-_.]+|=\?utf-8\?b\?[A-Za-z0-9+/=]+\?=)$')
    hit = False
    for line in block.split(b"\r\n"):
        if len(line) <= 78:
            continue
        # a line with a token that cannot fit on any line is not what the oracle complains about
        cont = line[:1] in (b" ", b"\t")
        pre = 1 if cont else line.find(b":") + 2
        body = line if cont else line[line.find(b":") + 1:]
        if any(pre + len(t) > 78 for t in _re.split(rb"[ \t]", body)):
            continue
        # the last mailbox separator that is still within the limit: what follows it on this line is the start of a
        # display name (an atom, an opening quote with the words up to the fold, or one encoded-word) and nothing else
        i = line.rfind(b", ", 0, 78)
        if i < 0:
            return False
        seg = line[i + 2:].rstrip(b" \t")
        if not seg or not name_start.match(seg):
            return False
        hit = True
    return hit


FINDING_CLASSES = {"mailbox-name-start-not-folded": _name_start_not_folded, "content-disposition-escaped-name-over-78": _cdisp_escaped, "tab-not-a-fold-point": _tab_not_fold_point, "trailing-white-space-past-78": _trailing_ws_past_78,
                   "spaces-before-encoded-word": _spaces_before_encoded_word, "space-run-over-998": _space_run_over_998}
