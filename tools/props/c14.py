"""C14 — Authentication picks an offered mechanism and encodes credentials exactly."""
from tools import smtpgen
from tools.props import c05
from tools.lv import unhex

LEVEL = "proof"
RETRY_TIMING = True
CORRESPONDENCE = ("Model/Client.lean (chooseMech, authFirstLine, mechResponse, challengeAnswer, authLoop, auth), Model/Base64.lean vs "
                  "SmtpConnection::auth / AsyncSmtpConnection::auth, Auth, Mechanism::response, Credentials over the scripted peer")
RULE = ("auth cases: user names / passwords (empty, NUL, non-ASCII, CR/LF, 1 KiB) x AUTH advertisements (subsets of PLAIN, LOGIN, XOAUTH2, "
        "unknown mechanisms, any order / case, 0..2 AUTH lines, `AUTH=PLAIN`) x all preference lists x challenge scripts (prompt "
        "spelling variants in any letter case, invalid base64, non-UTF-8, unknown prompts, empty 334, 9..13 challenges in a row, "
        "4xx/5xx/garbage/close at each step) x programs A, AQ, AS; sync (Credentials::new) and tokio (tuple conversion) alternating; plus all subsets of offered "
        "mechanisms x all preference lists of length <= 3 (exhaustive); urlcred: connection URLs carrying credentials, well-formed and refused "
        "(unknown scheme / tls parameter, bad port, percent-encoded non-UTF-8 in user name or password, no host), the error and Debug text "
        "searched for every spelling of the secret. Non-trivial = a mechanism is chosen and at least one "
        "challenge is sent, or none is offered; distinct = distinct case lines.")
TRUSTED_BASE = c05.TRUSTED_BASE + ["Spec/AuthSpec.lean (PLAIN / LOGIN / XOAUTH2 wire formats)", "Base64 model: dec (enc x) = some x is proved; "
                                   "enc/dec are tied to the base64 crate through every AUTH line of the correspondence"]
ASSUMPTIONS = c05.ASSUMPTIONS + ["EHLO keywords are matched case-sensitively by the client (an `auth plain` line is ignored: fails safe, not demanded)"]
EXHAUSTIVE_PARTS = ["mechanism choice: all 8 subsets of {PLAIN, LOGIN, XOAUTH2} offered x all preference lists of length <= 3"]


from tools.lv import hexs


def gen(tier, rng):
    n = {"quick": 2500, "search": 8000, "thorough": 40000}[tier]
    cases = smtpgen.auth_cases(rng, n)
    import itertools
    mechs = ["PLAIN", "LOGIN", "XOAUTH2"]
    letters = {"PLAIN": "P", "LOGIN": "L", "XOAUTH2": "X"}
    i = 0
    for k in range(4):
        for offered in itertools.combinations(mechs, k):
            for plen in range(4):
                for prefs in itertools.product("PLX", repeat=plen):
                    feats = (["AUTH " + " ".join(offered)] if offered else [])
                    steps = [smtpgen.step(b"220 srv\r\n"), smtpgen.step(smtpgen.ehlo_reply(rng, feats)),
                             smtpgen.step(b"334 VXNlcm5hbWU6\r\n"), smtpgen.step(b"334 UGFzc3dvcmQ6\r\n"), smtpgen.step(b"235 ok\r\n"),
                             smtpgen.step(b"221 bye\r\n")]
                    cases.append(smtpgen.client_case("sa"[i % 2], "c.example", "AQ", "a@b.c", ["x@y.z"], b"m", "".join(prefs), "user", "secretpw", steps))
                    i += 1
    # the transports (SmtpTransport / AsyncSmtpTransport, TLS off) with credentials configured: every subset of advertised
    # mechanisms x short preference lists; with no usable mechanism the send fails before any credential, MAIL or DATA
    from tools.props import c06
    for k in range(4):
        for offered in list(itertools.combinations(mechs + ["CRAM-MD5"], k)) + (
                [("PLAIN-CLIENTTOKEN",), ("LOGIN-TOKEN", "XOAUTH2-BETA"), ("PLAINX", "XLOGIN"), ("plain-x", "LOGIN"), ("XOAUTH2X", "PLAIN")] if k == 1 else []):
            for prefs in ("P", "L", "X", "PL", "LP", "XP", "PLX"):
                ehlo = b"250-srv\r\n" + (b"250-SIZE 1000\r\n" if i % 3 == 0 else b"") + (b"250 AUTH " + " ".join(offered).encode() + b"\r\n" if offered else b"250 8BITMIME\r\n")
                clear = [smtpgen.step(b"220 srv ESMTP\r\n"), smtpgen.step(ehlo)]
                usable = any(letters.get(o, "?") in prefs for o in offered)
                if usable:
                    first = next(p for p in prefs if any(letters.get(o) == p for o in offered))
                    clear += {"P": [smtpgen.step(b"235 ok\r\n")], "X": [smtpgen.step(b"235 ok\r\n")],
                              "L": [smtpgen.step(b"334 VXNlcm5hbWU6\r\n"), smtpgen.step(b"334 UGFzc3dvcmQ6\r\n"), smtpgen.step(b"235 ok\r\n")]}[first]
                clear += c06.SEND_OK
                cases.append("\t".join(["tls", "sa"[i % 2], "n", "g", "1000", prefs, hexs("user"), hexs("secretpw"), hexs(b"secret-message\r\n"),
                                        smtpgen.script_field(clear), smtpgen.script_field([])]))
                i += 1
    # credentials in a connection URL are used as written, percent-decoded: `+`, `%2B`, `%40`, `%3A`, `%20`, non-ASCII
    for cl in "sa":
        for u, p in [("user", "pass"), ("bob+tag", "app+pass+word"), ("u%40example.org", "p%3Aw%2Fd"), ("a%2Bb", "c%20d"), ("%C3%A9t%C3%A9", "s%C3%A9cret"),
                     ("user", "%FF"), ("%C3", "pw"), ("u-._~", "p-._~!$&'()*,;="), ("", "api-key"), ("%20user%20", "%20pw%20")]:
            cases.append(f"urlauth\t{cl}\t{hexs(u)}\t{hexs(p)}")
    cases.append("ctor\tmech")
    cases += urlcred_cases(rng, {"quick": 150, "search": 500, "thorough": 3000}[tier])
    return cases


def urlcred_cases(rng, n):
    """connection URLs with credentials: well-formed ones and ones `from_url` refuses (unknown scheme or tls parameter, bad
    port, percent-encoded octets that are not UTF-8 in the user name or the password, no host): no spelling of the password
    or of the secret user name may appear in the error text or in the builder's Debug text"""
    from tools.lv import hexs
    out = []

    def pct(b):
        return "".join(chr(c) if (48 <= c < 58 or 65 <= c < 91 or 97 <= c < 123) else "%%%02X" % c for c in b)
    for i in range(n):
        pw = bytes(rng.choice(b"abcdefXYZ0189 :/@%#?&=\xc3\xa9") for _ in range(rng.randint(4, 12)))
        if rng.random() < 0.5:
            pw = pw.replace(b"\xc3", b"s").replace(b"\xa9", b"t")
        user = rng.choice([b"user", b"u@example.org", b"hunter" + bytes([rng.randrange(97, 123)]) * 3])
        raw_pw, raw_user = pct(pw), pct(user)
        kind = rng.choice(["ok", "ok", "scheme", "tlsparam", "port", "baduserpct", "badpwpct", "nohost", "smtps", "starttls"])
        if kind == "baduserpct":
            raw_user = raw_user + "%FF"
        if kind == "badpwpct":
            raw_pw = raw_pw + rng.choice(["%FF", "%C3", "%E2%82"])
        scheme = {"scheme": rng.choice(["http", "imap", "smtpx"]), "smtps": "smtps"}.get(kind, "smtp")
        host = "" if kind == "nohost" else "mail.example.org"
        port = {"port": ":99999"}.get(kind, rng.choice(["", ":2525"]))
        q = {"tlsparam": "?tls=bogus", "starttls": "?tls=required"}.get(kind, "")
        url = f"{scheme}://{raw_user}:{raw_pw}@{host}{port}/client.example{q}"
        secrets = [pw, raw_pw.encode()]
        if user.startswith(b"hunter"):
            secrets += [user]
        out.append("urlcred\t" + hexs(url) + "\t" + ",".join(hexs(x) for x in dict.fromkeys(secrets)))
    return out


def timing_dependent(case):
    # a real client against a real peer with read timeouts: a disagreement is re-run alone before it counts
    return case.split("\t")[0] in ("pool", "wstall", "client", "tls", "sched", "urlauth")


def nontrivial(case):
    f = case.split("\t")
    if f[0] in ("urlcred", "ctor", "urlauth"):
        return True
    return "333334" in f[10] or f[7] == "-" or ":c" in f[10]


def shrinkable(case):
    if case.startswith("urlcred") or case.startswith("ctor"):
        return []
    if case.startswith("tls"):
        return [6, 7]
    return [8, 9]


def distribution(cases):
    d = c05.distribution([c for c in cases if c.split("\t")[0] in ("client", "pool", "tconn")])
    for c in cases:
        f = c.split("\t")
        if f[0] != "client":
            d[f[0]] = d.get(f[0], 0) + 1
            continue
        d["prefs_" + f[7]] = d.get("prefs_" + f[7], 0) + 1
    return d
