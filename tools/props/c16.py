"""C16 — Only safe, well-formed addresses are accepted, and they round-trip exactly."""
import itertools
from tools.lv import hexs, hexlist, unhex, unhexlist

LEVEL = "proof"
CORRESPONDENCE = ("Model/Address.lean (checkUser, checkDomain, parse, new, mailLine, rcptLine, sendmailArgv, envelopeNew) vs "
                  "Address::from_str / Address::new / TryFrom<String> / serde / Envelope::new / Mail+Rcpt Display / SendmailTransport argv; "
                  "char::is_alphanumeric, idna::domain_to_ascii and IpAddr parsing are parameters answered by the real functions")
RULE = ("addr: every string over {a @ . \" \\ SP [ ] < CR e-acute fullwidth-@} up to length 4 (quick) / 5 (thorough) [exhaustive] plus "
        "random strings over it up to length 8, and structured addresses (dot-atom / quoted / UTF-8 local parts, length limits "
        "63/64/65/254/255, IPv4/IPv6 literals with and without brackets, IDN and full-width look-alikes, controls, 0..3 '@'); addrnew: "
        "(user, domain) pairs from the same parts (also through the object form of the deserializer, which may refuse but never accepts more); addrrt: display/reparse/rejoin/serde round trips of accepted addresses; envelope: "
        "0..4 recipients, with/without reverse path, constructed and deserialised; mailcmd: MAIL/RCPT lines; argv: fake sendmail "
        "dumping its arguments. Non-trivial = contains a quote, bracket, non-ASCII, control or more than one '@'; distinct = distinct case lines.")
TRUSTED_BASE = ["Lean 4 kernel", "axioms: propext, Quot.sound, Classical.choice at most (see axioms per theorem)",
                "Spec/AddressSafe.lean as the definition of a safe address and of a single-CRLF command line",
                "assumptions A1-A3 about char::is_alphanumeric, idna::domain_to_ascii and IpAddr::from_str (hypotheses of the theorems; "
                "their answers are taken from the real functions in every case)",
                "harness lvh + fake sendmail + line protocol + this orchestrator"]
ASSUMPTIONS = ["A1: char::is_alphanumeric is false on control characters, white space, '<', '>', '@', '[', ']', '\"' and '\\\\'",
               "A2: domain_to_ascii(d) = Ok(a) implies every control/space/'<'/'>'/'@' character of d occurs in a",
               "A3: a string that parses as IpAddr consists of hex digits, ':' and '.' only",
               "A9: std::process::Command passes each arg as exactly one argv element (observed through the fake sendmail)"]
EXHAUSTIVE_PARTS = ["envcheck: A1 over all 1 112 064 code points, A2 over every control/space/<>@ character in 6 domain templates", "addr: all strings over a 12-symbol alphabet up to length 4 (quick) / 5 (thorough)"]

ALPHA = ["a", "@", ".", "\"", "\\", " ", "[", "]", "<", "\r", "é", "＠"]

LOCALS = ["a", "user", "first.last", "a.b.c", "-x", "-oQ/tmp", "a+b", "\"a b\"", "\"a@b\"", "\"a\\\"b\"", "\"\"", "\"", "\"a\tb\"", "\"<x>\"",
          "\"a\\ b\"", "用户", "üser", ".a", "a.", "a..b", "a b", "a<b", "a>b", "a\rb", "a\nb", "a\x00b", "a\x7fb", "a\u0085b", "😀",
          "x" * 63, "x" * 64, "x" * 65, "\"" + "x" * 62 + "\"", "\"" + "x" * 63 + "\"", "a\\b", "a(b)", "a,b", "a;b", "a:b", "", "é" * 32, "é" * 33]
DOMAINS = ["b.c", "example.com", "localhost", "a-b.com", "-a.com", "a-.com", "a..com", ".com", "com.", "1.1.1.1", "[1.1.1.1]", "[127.0.0.1]",
           "::1", "[::1]", "[IPv6:::1]", "[2606:4700:4700::1111]", "[>]", "[<x>]", "[a@b]", "[]", "[", "]", "[example.com]", "[1.1.1.1",
           "bücher.de", "例え.jp", "xn--bcher-kva.de", "a＠b.com", "a＜b.com", "a。com", "a．com", "a　b.com", "a​b.com", "a­b.com",
           "a\u0085b.com", "a\rb.com", "a\nb.com", "a b.com", "a\tb.com", "a<b.com", "a>b.com", "a!b.com", "b!c.com", "a_b.com", "😀.com",
           "x" * 63 + ".com", "x" * 64 + ".com", ("x" * 60 + ".") * 4 + "com", ("x" * 62 + ".") * 4 + "xx", "", "é" * 31 + ".fr", "é" * 32 + ".fr",
           # the overall length limit of a domain with every label within 63 octets (round 7: C16/m20): 253, 254, 255, 256 octets
           ".".join(["x" * 63] * 3 + ["y" * 61]), ".".join(["x" * 63] * 3 + ["y" * 62]), ".".join(["x" * 63] * 4), ".".join(["x" * 63] * 4) + "z",
           ".".join(["ab1"] * 64), ".".join(["ab1"] * 63) + ".yz",
           "A.B", "a.b.", "1", "a@b.c", "[1.1.1.1]x", "x[1.1.1.1]", "[IPv6:1::]", "[ipv6:::1]", "999.1.1.1", "[999.1.1.1]",
           "[IPv6:IPv6:::1]", "[IPv6:IPv6:2001:db8::1]", "[IPv6:]", "[IPv6:IPv6:]", "[192.0.2.1", "[192.0.2.1]]", "[[192.0.2.1]", "[[192.0.2.1]]", "[IPv6:::1]]", "[::1]]"]


def gen(tier, rng):
    cases = ["envcheck"]
    maxlen = {"quick": 4, "search": 5, "thorough": 5}[tier]
    for n in range(maxlen + 1):
        for t in itertools.product(ALPHA, repeat=n):
            cases.append("addr\t" + hexs("".join(t)))
    nrand, nstruct = {"quick": (25000, 6000), "search": (100000, 20000), "thorough": (400000, 80000)}[tier]
    for _ in range(nrand):
        n = rng.randint(maxlen + 1, 8)
        cases.append("addr\t" + hexs("".join(rng.choice(ALPHA) for _ in range(n))))
    for u in LOCALS:
        for d in DOMAINS:
            cases.append("addr\t" + hexs(u + "@" + d))
            cases.append(f"addrnew\t{hexs(u)}\t{hexs(d)}")
    accepted_like = []
    for _ in range(nstruct):
        u = rng.choice(LOCALS)
        d = rng.choice(DOMAINS)
        r = rng.random()
        if r < 0.15:
            u = mutate(rng, u)
        elif r < 0.3:
            d = mutate(rng, d)
        k = rng.random()
        s = u + "@" + d if k < 0.85 else (u + d if k < 0.9 else u + "@" + rng.choice(LOCALS) + "@" + d)
        cases.append("addr\t" + hexs(s))
        cases.append("addrrt\t" + hexs(s))
        if rng.random() < 0.3:
            cases.append(f"addrnew\t{hexs(u)}\t{hexs(d)}")
        accepted_like.append(s)
    good = ["a@b.c", "-x@o.c", "-oQ@o.c", "\"a b\"@z.z", "用户@例え.jp", "u@[127.0.0.1]", "first.last@example.com", "\"<x>\"@e.org", "a+b@x.y"]
    nenv, nargv = {"quick": (400, 60), "search": (1000, 100), "thorough": (4000, 600)}[tier]
    for i in range(nenv):
        k = rng.choice([0, 0, 1, 1, 2, 3, 4])
        to = [rng.choice(good) for _ in range(k)]
        f = rng.choice(good + ["-"])
        cases.append(f"envelope\t{hexs(f) if f != '-' else '-'}\t{hexlist([t.encode() for t in to])}")
        if to:
            cases.append(f"mailcmd\t{hexs(f) if f != '-' else '-'}\t{hexs(to[0])}")
    # envelopes derived from a header map / by the message builder when a recipient field is absent, present but empty, or a list
    # (round 7: C16/m19 checked the presence of a header instead of the presence of a recipient)
    for f in ("a@b.c", "-"):
        for to in ("x", "-", "one", "two"):
            for cc in ("x", "-", "one"):
                for bcc in ("x", "-", "one"):
                    fld = {"x": "x", "-": "-", "one": hexlist([b"r1@x.y"]), "two": hexlist([b"r1@x.y", b"r2@x.y"])}
                    cases.append(f"envhdrs\t{hexs(f) if f != '-' else '-'}\t{fld[to]}\t{fld[cc]}\t{fld[bcc]}")
    # envelopes that do not come from Envelope::new: JSON with keys missing, null, empty, of the wrong type, repeated
    import json as _json
    fwd = ['[]', '["a@b.c"]', '["a@b.c","x@y.z"]', 'null', '""', '"a@b.c"', '[null]', '{}', '[[]]', '["not an address"]']
    rev = ['null', '"a@b.c"', '""', '[]', '"<>"']
    docs = ['{}', '[]', 'null', '{"reverse_path":null}', '{"reverse_path":"a@b.c"}', '{"forward_path":[]}', '{"forward_path":null}',
            '{"forward_path":[],"forward_path":["a@b.c"]}', '{"forward_path":["a@b.c"],"forward_path":[]}', '[["a@b.c"],null]', '[[],null]', '[[]]',
            '{"FORWARD_PATH":["a@b.c"]}', '{"to":["a@b.c"]}']
    for fw in fwd:
        for rv in rev:
            docs.append('{"forward_path":%s,"reverse_path":%s}' % (fw, rv))
            docs.append('{"reverse_path":%s,"forward_path":%s}' % (rv, fw))
            docs.append('{"reverse_path":%s,"forward_path":%s,"extra":1}' % (rv, fw))
    for dct in docs:
        cases.append(f"envjson\t{hexs(dct)}")
    for i in range(nargv):
        k = rng.choice([1, 1, 2, 3])
        to = [rng.choice(good) for _ in range(k)]
        f = rng.choice(good + ["-"])
        cases.append(f"argv\t{hexs(f) if f != '-' else '-'}\t{hexlist([t.encode() for t in to])}")
    return cases


def mutate(rng, s):
    ins = ["@", "\"", "\\", " ", "\r", "\n", "\t", "<", ">", "[", "]", ".", "é", "＠", "\x00", "\x7f", "(", ","]
    if not s:
        return rng.choice(ins)
    i = rng.randrange(len(s) + 1)
    k = rng.randint(0, 2)
    if k == 0:
        return s[:i] + rng.choice(ins) + s[i:]
    if k == 1 and i < len(s):
        return s[:i] + s[i + 1:]
    return s[:i] + rng.choice(ins) + s[i + 1:]


def text_of(case):
    f = case.split("\t")
    try:
        if f[0] in ("addr", "addrrt"):
            return unhex(f[1]).decode()
        if f[0] == "addrnew":
            return unhex(f[1]).decode() + "@" + unhex(f[2]).decode()
    except Exception:
        pass
    return ""


def nontrivial(case):
    f = case.split("\t")
    if f[0] in ("envelope", "envjson", "mailcmd", "argv", "envcheck"):
        return True
    t = text_of(case)
    return t.count("@") > 1 or any(c in t for c in "\"[]<>\\ \r\n\t") or any(ord(c) > 127 or ord(c) < 32 for c in t)


def shrinkable(case):
    f = case.split("\t")
    return {"addr": [1], "addrrt": [1], "addrnew": [1, 2]}.get(f[0], [])


def distribution(cases):
    d = {}
    for c in cases:
        op = c.split("\t", 1)[0]
        d[op] = d.get(op, 0) + 1
        if op == "addr":
            t = text_of(c)
            k = "addr_at_count_%s" % min(t.count("@"), 3)
            d[k] = d.get(k, 0) + 1
    return d
