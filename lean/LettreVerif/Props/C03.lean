import LettreVerif.Proofs.C03
/-!
# C03 — SMTP DATA phase is transparent

Property theorems only. `wire m` is everything the client writes for message `m`
(`ClientCodec::encode` from `StartOfNewLine`, then `CRLF . CRLF`); `serverRun` is the
RFC 5321 §4.5.2 receiver of `Spec/DataServer.lean`.
-/
namespace LV.C03
open LV.Codec LV.DataServer

/-- The server reconstructs exactly the message followed by one CRLF and is then done. -/
theorem transparency (m : Bytes) : serverRun (wire m) = (.done, m ++ CRLF) := by
  simpa [serverRun, wire, rel, CRLF] using transparency_gen .sol m

/-- The end of the DATA phase is not recognised before the last octet sent: no proper prefix
    of what is written puts the server in state `done` — so no content can end the phase
    early and no content octet can be read as a command. -/
theorem no_early_end (m p : Bytes) (hp : p <+: wire m) (hne : p ≠ wire m) :
    (serverRun p).1 ≠ .done := by
  have := ndb_wire .sol m
  exact ndb_prefix .sol (wire m) p (by simpa [rel, wire] using this) hp hne

/-- The marker is the last five octets sent. -/
theorem marker_last (m : Bytes) : ∃ pre, wire m = pre ++ [13, 10, 46, 13, 10] :=
  ⟨encode .sol m, rfl⟩

/-- The marker occurs exactly once: wherever `CRLF . CRLF` occurs in what is written, nothing
    follows it. (Together with `marker_last`: its only occurrence is the last five octets.) -/
theorem marker_once (m pre suf : Bytes) (h : wire m = pre ++ terminator ++ suf) : suf = [] := by
  by_cases hs : suf = []
  · exact hs
  · exfalso
    have hp : (pre ++ terminator) <+: wire m := ⟨suf, h.symm⟩
    have hne : pre ++ terminator ≠ wire m := by
      intro e
      have := congrArg List.length e
      rw [h] at this
      cases suf with
      | nil => exact hs rfl
      | cons a t => simp at this
    have hd : (serverRun (pre ++ terminator)).1 = .done := by
      have h1 := term_done_any (decode .sol pre).1
      simp only [serverRun, decode_append]
      exact h1
    exact no_early_end m _ hp hne hd

/-- Writing a message in several frames through one codec equals writing it in one piece. -/
theorem frames_assoc (fs : List Bytes) : encodeFrames .sol fs = encode .sol fs.flatten :=
  frames_flatten .sol fs

/-- Stuffing at most doubles the content and never removes an octet. -/
theorem stuffing_bounds (m : Bytes) :
    m.length ≤ (encode .sol m).length ∧ (encode .sol m).length ≤ 2 * m.length :=
  encode_len .sol m

/-- non-vacuity: a message with a leading dot, a dot after CRLF, a bare CR and an embedded
    `CRLF . CRLF` is reconstructed; its wire form has the dots doubled. -/
example :
    let m : Bytes := [46, 97, 13, 10, 46, 13, 10, 13, 46, 10, 46]
    wire m = [46, 46, 97, 13, 10, 46, 46, 13, 10, 13, 46, 10, 46, 13, 10, 46, 13, 10]
      ∧ serverRun (wire m) = (.done, m ++ CRLF) := by decide

/-- non-vacuity of `marker_once`: the hypothesis is met (with `suf = []`) by a message that
    itself contains `CRLF . CRLF`; the stuffed copy inside is not an occurrence. -/
example : wire [97, 13, 10, 46, 13, 10] = [97, 13, 10, 46, 46, 13, 10] ++ terminator ++ [] := by
  decide

end LV.C03
