import LettreVerif.Proofs.MailboxEnc
import LettreVerif.Proofs.Rfc2047Enc
import LettreVerif.Model.Rfc2231Enc
import LettreVerif.Proofs.C12Roundtrip
import LettreVerif.Spec.StructuredDec
/-!
# What a reader makes of structured fields on the wire

`LV.MailboxEnc`: `name_wire` (what `quoted_string::encode` writes for a display name, unfolded, is shown as exactly the
name), `named_mailbox_wire`, `mailboxes_wire` (a whole mailbox header).
`LV.Rfc2231Enc`: `cdisp_wf` (no file name can break a Content-Disposition value), `filename_roundtrip` (an RFC 2231 reader
finds exactly the file name: first-line, continuation and percent-encoded forms), over `Model/Rfc2231Enc.lean`.
-/
namespace LV.MailboxEnc
open LV LV.HeaderEnc LV.Rfc2047Dec LV.StructuredDec

/-! ## what a reader shows for a display name on the wire -/

/-- `utils::write_escaped`: the text with a backslash before every backslash and double quote -/
def esc : Bytes → Bytes
  | [] => []
  | b :: bs => (if b == 92 then [92, 92] else if b == 34 then [92, 34] else [b]) ++ esc bs

theorem quotedGo_esc : ∀ (v acc after : Bytes), quotedGo acc (esc v ++ 34 :: after) = some (acc.reverse ++ v, after)
  | [], acc, after => by simp [esc, quotedGo]
  | b :: bs, acc, after => by
    have ih := quotedGo_esc bs (b :: acc) after
    by_cases h92 : b = 92
    · subst h92
      simp only [esc, beq_self_eq_true, if_true, List.cons_append, List.nil_append]
      rw [quotedGo.eq_3, ih]; simp
    · by_cases h34 : b = 34
      · subst h34
        have : ((34 : Byte) == 92) = false := by decide
        simp only [esc, this, Bool.false_eq_true, if_false, beq_self_eq_true, if_true, List.cons_append, List.nil_append]
        rw [quotedGo.eq_3, ih]; simp
      · have e1 : (b == 92) = false := by simpa using h92
        have e2 : (b == 34) = false := by simpa using h34
        simp only [esc, e1, e2, Bool.false_eq_true, if_false, List.cons_append, List.nil_append]
        rw [quotedGo.eq_4, ih]; simp
        · intro h; exact h34 h
        · intro _ _ h _; exact h92 h

def nws (b : Byte) : Prop := (b == 32 || b == 9) = false

theorem trimWs_id (s : Bytes) (h1 : ∀ x, s.head? = some x → nws x) (h2 : ∀ x, s.getLast? = some x → nws x) :
    trimWs s = s := by
  unfold trimWs
  simp only
  have e1 : s.dropWhile (fun b => b == 32 || b == 9) = s := by
    cases s with
    | nil => rfl
    | cons x r => have := h1 x rfl; simp only [nws] at this; simp [List.dropWhile, this]
  rw [e1]
  have e2 : s.reverse.dropWhile (fun b => b == 32 || b == 9) = s.reverse := by
    cases hr : s.reverse with
    | nil => rfl
    | cons x r =>
      have hl : s.getLast? = some x := by
        have : s = (x :: r).reverse := by rw [← hr, List.reverse_reverse]
        rw [this]; simp
      have := h2 x hl; simp only [nws] at this; simp [List.dropWhile, this]
  rw [e2, List.reverse_reverse]

/-- a reader shows the text of a quoted string -/
theorem phraseDecode_quoted (v : Bytes) : phraseDecode (34 :: (esc v ++ [34])) = some v := by
  have ht : trimWs (34 :: (esc v ++ [34])) = 34 :: (esc v ++ [34]) := by
    apply trimWs_id
    · intro x hx; simp at hx; subst hx; simp [nws]
    · intro x hx
      have : (34 :: (esc v ++ [34])).getLast? = some 34 := by
        rw [show (34 : Byte) :: (esc v ++ [34]) = (34 :: esc v) ++ [34] by simp, List.getLast?_append]; simp
      rw [this] at hx; injection hx with hx; subst hx; simp [nws]
  unfold phraseDecode
  simp only [ht]
  have := quotedGo_esc v [] []
  simp only [List.reverse_nil, List.nil_append] at this
  simp [this, trimWs]

theorem wsTokens_mem : ∀ (s cur u : Bytes), u ∈ wsTokens cur s → ∀ b ∈ u, b ∈ cur ∨ b ∈ s
  | [], cur, u, hu, b, hb => by
    simp only [wsTokens, List.mem_singleton] at hu
    subst hu; left; exact List.mem_reverse.mp hb
  | x :: xs, cur, u, hu, b, hb => by
    simp only [wsTokens] at hu
    split at hu
    · rcases List.mem_cons.mp hu with e | e
      · subst e; left; exact List.mem_reverse.mp hb
      · rcases wsTokens_mem xs [] u e b hb with h | h
        · simp at h
        · right; simp [h]
    · rcases wsTokens_mem xs (x :: cur) u hu b hb with h | h
      · rcases List.mem_cons.mp h with e | e
        · right; simp [e]
        · left; exact e
      · right; simp [h]

/-- text without `?` is shown as it is -/
theorem decode_no_qmark (v : Bytes) (h : ∀ b ∈ v, b ≠ 63) : decToks (tokens v [] false) false = v := by
  have hf : LV.C12Proof.EncFree' v := by
    intro u hu
    apply LV.C12Proof.not_marker_not_enc
    have hu63 : ∀ b ∈ u, b ≠ 63 := by
      intro b hb
      rcases wsTokens_mem v [] u hu b hb with h' | h'
      · simp at h'
      · exact h b h'
    cases hp : [61, 63].isPrefixOf u with
    | false => simp
    | true =>
      exfalso
      match u, hp, hu63 with
      | [], hp, _ => simp [List.isPrefixOf] at hp
      | [_], hp, _ => simp [List.isPrefixOf] at hp
      | a :: c :: rest, hp, hu63 =>
        simp only [List.isPrefixOf, Bool.and_eq_true, beq_iff_eq] at hp
        exact hu63 c (by simp) hp.2.1.symm
  rw [dec_lit_all _ _ (LV.C12Proof.encFree_of v hf), tokens_flat]
  simp

theorem plain_class (b : Byte) (h : (isAlnum b || isPlus b) = true) : b ≠ 63 ∧ b ≠ 34 ∧ nws b := by
  simp only [isAlnum, isPlus, Bool.or_eq_true, Bool.and_eq_true, decide_eq_true_eq, beq_iff_eq] at h
  refine ⟨?_, ?_, ?_⟩
  · intro e; subst e; revert h; decide
  · intro e; subst e; revert h; decide
  · simp only [nws, Bool.or_eq_false_iff, beq_eq_false_iff_ne]
    constructor <;> (intro e; subst e; revert h; decide)

theorem phraseDecode_plain (v : Bytes) (h : ∀ b ∈ v, (isAlnum b || isPlus b) = true) : phraseDecode v = some v := by
  have ht : trimWs v = v := by
    apply trimWs_id
    · intro x hx; exact (plain_class x (h x (List.mem_of_mem_head? hx))).2.2
    · intro x hx; exact (plain_class x (h x (List.mem_of_getLast? hx))).2.2
  unfold phraseDecode
  simp only [ht]
  have hd := decode_no_qmark v (fun b hb => (plain_class b (h b hb)).1)
  cases v with
  | nil => simp [tokens, decToks]
  | cons x r =>
    have hx : x ≠ 34 := (plain_class x (h x (by simp))).2.1
    split
    · rename_i rest e; injection e with e _; exact absurd e hx
    · rw [hd]

open LV.C12Proof in
/-- a run of encoded-words one space apart is shown as the text they carry -/
theorem phraseDecode_run (ds : List Bytes) (hne : ds ≠ []) (hgood : ∀ d ∈ ds, d ≠ [] ∧ d.length ≤ 45) :
    phraseDecode (run1 ds) = some ds.flatten := by
  obtain ⟨mid, dl, e, hl, hm, hr, hsem⟩ := runPairs_split ds [] hne
  have hdl : dl ∈ ds := List.mem_of_getLast? hl
  have hmid : ∀ q ∈ mid, MidOK q := by
    intro q hq
    obtain ⟨h2, h1⟩ := hm q hq
    have := midOK_space q.1 (hgood _ h1).1 (hgood _ h1).2
    rw [← h2] at this; exact this
  have hnil : EncFree' [] := by
    intro u hu
    simp only [wsTokens, List.reverse_nil, List.mem_singleton] at hu
    subst hu; rfl
  have wfc := wfc_snoc mid dl [] hmid (hgood _ hdl).1 (hgood _ hdl).2 hnil (Or.inl rfl)
  have hdec := decode_chain (mid ++ [(dl, [])]) false wfc
  rw [semC_snoc, List.append_nil, hsem] at hdec
  have hrend : renderC (mid ++ [(dl, [])]) = run1 ds := by rw [← e, hr]; simp
  rw [hrend] at hdec
  -- the run starts and ends with `=`
  have hform : run1 ds = renderC mid ++ encw dl := by rw [← hrend, renderC_append]; simp [renderC]
  have hhead : ∀ x, (run1 ds).head? = some x → x = 61 := by
    intro x hx
    cases ds with
    | nil => exact absurd rfl hne
    | cons d ds' => simp [run1, ew, encPrefix] at hx; exact hx.symm
  have hlast : ∀ x, (run1 ds).getLast? = some x → x = 61 := by
    intro x hx
    rw [hform] at hx
    have : (renderC mid ++ encw dl).getLast? = some 61 := by
      have : encw dl = (encPrefix ++ Base64.enc dl ++ [63]) ++ [61] := by simp [encw, encSuffix]
      rw [this, ← List.append_assoc, List.getLast?_append]; simp
    rw [this] at hx; injection hx with hx; exact hx.symm
  have ht : trimWs (run1 ds) = run1 ds := by
    apply trimWs_id
    · intro x hx; rw [hhead x hx]; simp [nws]
    · intro x hx; rw [hlast x hx]; simp [nws]
  obtain ⟨r, hrun⟩ : ∃ r, run1 ds = 61 :: r := by
    cases hrun : run1 ds with
    | nil =>
      exfalso
      cases ds with
      | nil => exact hne rfl
      | cons d ds' => simp [run1, ew, encPrefix] at hrun
    | cons x r => exact ⟨r, by rw [hhead x (by rw [hrun]; rfl)]⟩
  unfold phraseDecode
  simp only [ht]
  rw [hrun] at hdec ⊢
  split
  · rename_i rest e; injection e with e _; exact absurd e (by decide)
  · rw [hdec]

theorem view_writeChar {w : W} (h : Inv w) (c : Byte) (hc : printable c = true) : (writeChar w c).view = w.view ++ [c] :=
  view_writeStr h [c] (by intro b hb; simp at hb; subst hb; exact hc)

theorem view_writeEscaped : ∀ (v : Bytes) {w : W}, Inv w → Plain v → (writeEscaped w v).view = w.view ++ esc v
  | [], _, _, _ => by simp [writeEscaped, esc]
  | b :: bs, w, h, hv => by
    have hb := hv b (by simp)
    have hbs : Plain bs := fun x hx => hv x (by simp [hx])
    have key : ∀ piece : Bytes, Plain piece →
        (writeEscaped (foldWrite w piece) bs).view = w.view ++ (piece ++ esc bs) := by
      intro piece hp
      rw [view_writeEscaped bs (inv_foldWrite h piece hp) hbs, view_foldWrite h piece hp, List.append_assoc]
    unfold writeEscaped esc
    simp only
    split
    · exact key _ (by intro x hx; simp at hx; subst hx; decide)
    · split
      · exact key _ (by intro x hx; simp at hx; rcases hx with e | e <;> (subst e; decide))
      · exact key _ (by intro x hx; simp at hx; subst hx; exact hb)

theorem esc_id : ∀ (v : Bytes), (∀ b ∈ v, b ≠ 92 ∧ b ≠ 34) → esc v = v
  | [], _ => rfl
  | b :: bs, h => by
    have hb := h b (by simp)
    have e1 : (b == 92) = false := by simpa using hb.1
    have e2 : (b == 34) = false := by simpa using hb.2
    simp [esc, e1, e2, esc_id bs (fun x hx => h x (by simp [hx]))]

/-- the classes of the three scanning loops -/
def q1 (b : Byte) : Bool := isAlnum b || isPlus b
def q2 (b : Byte) : Bool := isAlnum b || b == 32 || isPlus b

theorem strategy_cases (v : Bytes) :
    (strategy v = .plain ∧ ∀ b ∈ v, q1 b = true) ∨
    (strategy v = .quoted ∧ ∀ b ∈ v, q2 b = true) ∨
    (strategy v = .quotedEscaped) ∨ (strategy v = .rfc2047 ∧ v ≠ []) := by
  have s12 : ∀ x, q1 x = true → q2 x = true := by
    intro x hx; simp only [q1, q2, Bool.or_eq_true] at hx ⊢
    rcases hx with h | h
    · exact Or.inl (Or.inl h)
    · exact Or.inr h
  by_cases e1 : (v.dropWhile q1).isEmpty = true
  · left
    refine ⟨?_, all_of_dropWhile_nil q1 v e1⟩
    have e1' : (List.dropWhile (fun b => isAlnum b || isPlus b) v).isEmpty = true := e1
    simp only [strategy, e1', if_true]
  · right
    have e1' : ¬ (List.dropWhile (fun b => isAlnum b || isPlus b) v).isEmpty = true := e1
    by_cases e2 : ((v.dropWhile q1).dropWhile q2).isEmpty = true
    · left
      have e2' : (List.dropWhile (fun b => isAlnum b || b == 32 || isPlus b)
          (List.dropWhile (fun b => isAlnum b || isPlus b) v)).isEmpty = true := e2
      refine ⟨by simp only [strategy, e1', e2', if_false, if_true, Bool.false_eq_true], ?_⟩
      intro b hb
      rcases mem_of_dropWhile q1 v b hb with h | h
      · exact s12 b h
      · exact all_of_dropWhile_nil q2 _ e2 b h
    · right
      have e2' : ¬ (List.dropWhile (fun b => isAlnum b || b == 32 || isPlus b)
          (List.dropWhile (fun b => isAlnum b || isPlus b) v)).isEmpty = true := e2
      by_cases e3 : (((v.dropWhile q1).dropWhile q2).dropWhile p3).isEmpty = true
      · left
        have e3' : (List.dropWhile (fun b => isAlnum b || b == 92 || b == 34 || b == 32 || isPlus b)
            (List.dropWhile (fun b => isAlnum b || b == 32 || isPlus b)
              (List.dropWhile (fun b => isAlnum b || isPlus b) v))).isEmpty = true := e3
        simp only [strategy, e1', e2', e3', if_false, if_true, Bool.false_eq_true]
      · right
        have e3' : ¬ (List.dropWhile (fun b => isAlnum b || b == 92 || b == 34 || b == 32 || isPlus b)
            (List.dropWhile (fun b => isAlnum b || b == 32 || isPlus b)
              (List.dropWhile (fun b => isAlnum b || isPlus b) v))).isEmpty = true := e3
        refine ⟨by simp only [strategy, e1', e2', e3', if_false, Bool.false_eq_true], ?_⟩
        intro hv; subst hv; simp at e1

/-- **A display name on the wire is shown as the name.** Whatever the name (any Rust string) and wherever on the line
    the writer stands: what `quoted_string::encode` appends — a plain atom, a quoted string with quoted-pairs, folded
    inside or not, or a run of encoded-words — is, once unfolded, a phrase that an RFC 5322 / RFC 2047 reader shows as
    exactly the name. -/
theorem name_wire (w : W) (hi : Inv w) (v : Bytes) (hu : ContRunsLe3 v) :
    ∃ R, (quotedStringEncode w v).view = w.view ++ R ∧ phraseDecode R = some v := by
  unfold quotedStringEncode
  rcases strategy_cases v with ⟨hs, hc⟩ | ⟨hs, hc⟩ | hs | ⟨hs, hne⟩
  · -- an atom
    rw [hs]
    refine ⟨v, view_writeStr hi v (strategy_plain v (by rw [hs]; decide)), phraseDecode_plain v hc⟩
  · -- a quoted string without quoted-pairs
    rw [hs]
    have hp := strategy_plain v (by rw [hs]; decide)
    have i1 := inv_writeChar hi 34 (by decide)
    have i2 := inv_foldWrite i1 v hp
    have he : esc v = v := esc_id v (by
      intro b hb
      have := hc b hb
      simp only [q2, isAlnum, isPlus, Bool.or_eq_true, Bool.and_eq_true, decide_eq_true_eq, beq_iff_eq] at this
      constructor <;> (intro e; subst e; revert this; decide))
    refine ⟨34 :: (esc v ++ [34]), ?_, phraseDecode_quoted v⟩
    rw [view_writeChar i2 34 (by decide), view_foldWrite i1 v hp, view_writeChar hi 34 (by decide), he]
    simp [List.append_assoc]
  · -- a quoted string with quoted-pairs
    rw [hs]
    have hp := strategy_plain v (by rw [hs]; decide)
    have i1 := inv_writeChar hi 34 (by decide)
    have i2 := inv_writeEscaped v i1 hp
    refine ⟨34 :: (esc v ++ [34]), ?_, phraseDecode_quoted v⟩
    rw [view_writeChar i2 34 (by decide), view_writeEscaped v i1 hp, view_writeChar hi 34 (by decide)]
    simp [List.append_assoc]
  · -- encoded-words
    rw [hs]
    obtain ⟨ds, hflat, hgood, _, hview⟩ := rfc_view (2 * v.length + 4) w v false (by split <;> omega) hu hi (by intro h; cases h)
    have hds : ds ≠ [] := by intro e; subst e; simp at hflat; exact hne hflat
    refine ⟨run1 ds, by simpa using hview, ?_⟩
    rw [← hflat]
    exact phraseDecode_run ds hds hgood

theorem view_writeUnbreakable {w : W} (h : Inv w) (word : Bytes) (hw : Plain word) :
    (writeUnbreakable w word).view = w.view ++ word := by
  unfold writeUnbreakable
  simp only
  split
  · rename_i hc
    simp only [Bool.and_eq_true, decide_eq_true_eq] at hc
    rcases h with h | ⟨_, _, _, h4⟩
    · rw [view_writeStr (inv_newLine h (by omega)) word hw, view_newLine h (by omega)]
    · omega
  · exact view_writeStr h word hw

/-- **One named mailbox on the wire.** Unfolded, the header value is a phrase, one blank, and the address in angle
    brackets; a reader shows the phrase as exactly the name, whatever the name. -/
theorem named_mailbox_wire (nameLen : Nat) (n e : Bytes) (hu : ContRunsLe3 n) (he : Plain e) :
    ∃ R, HeaderReader.unfold (headerValue nameLen [(some n, e)]) = R ++ [32, 60] ++ e ++ [62] ∧ phraseDecode R = some n := by
  have h0 : Inv (⟨[], nameLen + 2, 0, false⟩ : W) := Or.inl rfl
  obtain ⟨R, hv, hd⟩ := name_wire ⟨[], nameLen + 2, 0, false⟩ h0 n hu
  have i1 := inv_quotedStringEncode h0 n hu
  have hplain : Plain ([60] ++ e ++ [62]) := by
    intro b hb
    simp only [List.mem_append, List.mem_cons, List.not_mem_nil, or_false] at hb
    rcases hb with (e1 | e1) | e1
    · subst e1; decide
    · exact he b e1
    · subst e1; decide
  refine ⟨R, ?_, hd⟩
  have hview : (mailboxesEncode ⟨[], nameLen + 2, 0, false⟩ [(some n, e)] true).view = R ++ [32, 60] ++ e ++ [62] := by
    simp only [mailboxesEncode, if_true, mailboxEncode]
    rw [view_writeUnbreakable (inv_space i1) _ hplain, view_space i1, hv]
    simp [W.view, W.out, W.bytes, HeaderReader.unfold, List.append_assoc]
  unfold headerValue
  rw [out_flush]
  exact hview

/-! ## a whole list on the wire -/

/-- what one mailbox looks like once the header is unfolded: the address, or a phrase that is shown as the name, a blank,
    and the address in angle brackets -/
def ItemOf (m : Option Bytes × Bytes) (t : Bytes) : Prop :=
  match m.1 with
  | none => t = m.2
  | some n => ∃ R, t = R ++ [32, 60] ++ m.2 ++ [62] ∧ phraseDecode R = some n

/-- the unfolded header value of a list: the items, `, ` between them -/
inductive Shown : List (Option Bytes × Bytes) → Bytes → Prop
  | nil : Shown [] []
  | one (m : Option Bytes × Bytes) (t : Bytes) : ItemOf m t → Shown [m] t
  | cons (m : Option Bytes × Bytes) (t : Bytes) (ms : List (Option Bytes × Bytes)) (ts : Bytes) : ms ≠ [] →
      ItemOf m t → Shown ms ts → Shown (m :: ms) (t ++ [44, 32] ++ ts)

theorem item_view {w : W} (hi : Inv w) (m : Option Bytes × Bytes) (hn : ∀ n, m.1 = some n → ContRunsLe3 n) (he : Plain m.2) :
    ∃ t, (mailboxEncode w m.1 m.2).view = w.view ++ t ∧ ItemOf m t := by
  obtain ⟨n?, e⟩ := m
  cases n? with
  | none => exact ⟨e, by simpa [mailboxEncode] using view_writeUnbreakable hi e he, rfl⟩
  | some n =>
    obtain ⟨R, hv, hd⟩ := name_wire w hi n (hn n rfl)
    have i1 := inv_quotedStringEncode hi n (hn n rfl)
    have hplain : Plain ([60] ++ e ++ [62]) := by
      intro b hb
      simp only [List.mem_append, List.mem_cons, List.not_mem_nil, or_false] at hb
      rcases hb with (e1 | e1) | e1
      · subst e1; decide
      · exact he b e1
      · subst e1; decide
    refine ⟨R ++ [32, 60] ++ e ++ [62], ?_, R, rfl, hd⟩
    simp only [mailboxEncode]
    rw [view_writeUnbreakable (inv_space i1) _ hplain, view_space i1, hv]
    simp [List.append_assoc]

theorem list_view : ∀ (ms : List (Option Bytes × Bytes)) {w : W} (first : Bool), Inv w →
    (∀ m ∈ ms, (∀ n, m.1 = some n → ContRunsLe3 n) ∧ Plain m.2) → ms ≠ [] →
    ∃ ts, Shown ms ts ∧ (mailboxesEncode w ms first).view = w.view ++ (if first then [] else [44, 32]) ++ ts
  | [], _, _, _, _, h => absurd rfl h
  | m :: rest, w, first, hi, hm, _ => by
    have h0 := hm m (by simp)
    -- the separator
    have hw' : Inv (if first then w else (writeChar w 44).space) ∧
        (if first then w else (writeChar w 44).space).view = w.view ++ (if first then [] else [44, 32]) := by
      cases first with
      | true => exact ⟨hi, by simp⟩
      | false =>
        have ic := inv_writeChar hi 44 (by decide)
        refine ⟨inv_space ic, ?_⟩
        simp only [Bool.false_eq_true, if_false]
        rw [view_space ic, view_writeChar hi 44 (by decide)]
        simp [List.append_assoc]
    obtain ⟨iw', vw'⟩ := hw'
    obtain ⟨t, hv, hit⟩ := item_view iw' m h0.1 h0.2
    have hstep : mailboxesEncode w (m :: rest) first =
        mailboxesEncode (mailboxEncode (if first then w else (writeChar w 44).space) m.1 m.2) rest false := by
      obtain ⟨n, e⟩ := m
      simp only [mailboxesEncode]
    cases rest with
    | nil =>
      refine ⟨t, Shown.one m t hit, ?_⟩
      rw [hstep]
      simp only [mailboxesEncode]
      rw [hv, vw']
    | cons m2 rest2 =>
      have i2 := inv_mailboxEncode iw' m.1 m.2 h0.1 h0.2
      obtain ⟨ts, hsh, hvs⟩ := list_view (m2 :: rest2) false i2 (fun x hx => hm x (by simp [hx])) (by simp)
      refine ⟨t ++ [44, 32] ++ ts, Shown.cons m t (m2 :: rest2) ts (by simp) hit hsh, ?_⟩
      rw [hstep, hvs, hv, vw']
      simp [List.append_assoc]

/-- **A mailbox header on the wire, read back.** For every list of mailboxes (any names, printable-ASCII addresses):
    unfolded, the header value is the items separated by `, `, each item the address, or a phrase that a reader shows as
    exactly the name followed by ` <address>`. -/
theorem mailboxes_wire (nameLen : Nat) (ms : List (Option Bytes × Bytes))
    (hm : ∀ m ∈ ms, (∀ n, m.1 = some n → ContRunsLe3 n) ∧ Plain m.2) :
    Shown ms (HeaderReader.unfold (headerValue nameLen ms)) := by
  unfold headerValue
  rw [out_flush]
  cases ms with
  | nil => simpa [mailboxesEncode, W.out, W.bytes, HeaderReader.unfold] using Shown.nil
  | cons m rest =>
    obtain ⟨ts, hsh, hv⟩ := list_view (m :: rest) true (w := ⟨[], nameLen + 2, 0, false⟩) (Or.inl rfl) hm (by simp)
    have e0 : (⟨[], nameLen + 2, 0, false⟩ : W).view = [] := by simp [W.view, W.out, W.bytes, HeaderReader.unfold]
    have : (mailboxesEncode ⟨[], nameLen + 2, 0, false⟩ (m :: rest) true).view = ts := by rw [hv, e0]; simp
    show Shown (m :: rest) (mailboxesEncode ⟨[], nameLen + 2, 0, false⟩ (m :: rest) true).view
    rw [this]; exact hsh

end LV.MailboxEnc

namespace LV.Rfc2231Enc
open LV LV.HeaderEnc LV.MailboxEnc LV.StructuredDec

theorem trimEnd_single (c : Byte) (h : c ≠ 32) : trimEnd [c] = [c] := by
  have : (c == 32) = false := by simpa using h
  simp [trimEnd, List.dropWhile, this]

theorem writeCharB_eq (w : W) (c : Byte) (h : c ≠ 32) : writeCharB w c = w.writeStr [c] := by
  have hc : (c == 32) = false := by simpa using h
  simp [writeCharB, hc, W.writeStr, trimEnd_single c h, W.flushSpaces]

theorem inv_writeCharB {w : W} (h : Inv w) (c : Byte) (hc : printable c = true) : Inv (writeCharB w c) := by
  by_cases e : c = 32
  · subst e; simpa [writeCharB] using inv_space h
  · rw [writeCharB_eq w c e]; exact writeStr_inv h [c] (by intro b hb; simp at hb; subst hb; exact hc)

/-- after a character that is not a space the text written so far ends inside a line -/
theorem norm_writeCharB {w : W} (h : Inv w) (c : Byte) (hc : printable c = true) (e : c ≠ 32) :
    scan .norm (writeCharB w c).bytes = some .norm ∧ (writeCharB w c).spaces = 0 := by
  rw [writeCharB_eq w c e]
  refine ⟨inv_writeStr h [c] (by intro b hb; simp at hb; subst hb; exact hc), ?_⟩
  simp [W.writeStr, trimEnd_single c e, W.flushSpaces]

theorem inv_writeEscapedW : ∀ (v : Bytes) {w : W}, Inv w → Plain v → Inv (writeEscapedW w v)
  | [], _, h, _ => h
  | b :: bs, w, h, hv => by
    have hb := hv b (by simp)
    have hbs : Plain bs := fun x hx => hv x (by simp [hx])
    unfold writeEscapedW
    apply inv_writeEscapedW bs _ hbs
    split
    · exact writeStr_inv h _ (by intro x hx; simp at hx; subst hx; decide)
    · split
      · exact writeStr_inv h _ (by intro x hx; simp at hx; rcases hx with e | e <;> (subst e; decide))
      · exact inv_writeCharB h b hb

theorem digit_byte (d : Nat) (h : d < 10) : (48 + d).toUInt8.toNat = 48 + d := by
  have : ∀ k : Fin 10, (48 + k.val).toUInt8.toNat = 48 + k.val := by decide
  exact this ⟨d, h⟩

theorem plain_digits (n : Nat) : Plain (digits n) ∧ ∀ b ∈ digits n, b ≠ 32 := by
  induction n using Nat.strongRecOn with
  | _ n ih =>
    unfold digits
    split
    · rename_i h
      have hb := digit_byte n h
      constructor
      · intro b hb'
        have hb' := List.mem_singleton.mp hb'
        subst hb'
        simp only [printable, Bool.or_eq_true, Bool.and_eq_true, decide_eq_true_eq, beq_iff_eq]
        right; omega
      · intro b hb' e
        have hb' := List.mem_singleton.mp hb'
        subst hb'; rw [e] at hb; simp at hb; omega
    · rename_i h
      have hb := digit_byte (n % 10) (by omega)
      have ih' := ih (n / 10) (by omega)
      constructor
      · intro b hb'
        simp only [List.mem_append, List.mem_singleton] at hb'
        rcases hb' with hb' | hb'
        · exact ih'.1 b hb'
        · subst hb'
          simp only [printable, Bool.or_eq_true, Bool.and_eq_true, decide_eq_true_eq, beq_iff_eq]
          right; omega
      · intro b hb' e
        simp only [List.mem_append, List.mem_singleton] at hb'
        rcases hb' with hb' | hb'
        · exact ih'.2 b hb' e
        · subst hb'; rw [e] at hb; simp at hb; omega

theorem digits_ne (n : Nat) : digits n ≠ [] := by
  unfold digits; split <;> simp

theorem digits_len : ∀ (k n : Nat), 1 ≤ k → n < 10 ^ k → (digits n).length ≤ k
  | 0, _, h, _ => by omega
  | k + 1, n, _, hn => by
    unfold digits
    split
    · simp
    · rename_i h
      have hk : 1 ≤ k := by
        cases k with
        | zero => simp at hn; omega
        | succ k => omega
      have : n / 10 < 10 ^ k := by
        rw [Nat.pow_succ] at hn
        exact Nat.div_lt_of_lt_mul (by omega)
      have := digits_len k (n / 10) hk this
      simp; omega

theorem printable_hexDigit (n : Nat) (h : n < 16) : printable (hexDigit n) = true ∧ hexDigit n ≠ 32 := by
  have : ∀ k : Fin 16, printable (hexDigit k.val) = true ∧ hexDigit k.val ≠ 32 := by decide
  exact this ⟨n, h⟩

/-- the start of a continuation line: right after a CRLF, nothing pending -/
def AtLineStart (w : W) : Prop :=
  scan .norm w.bytes = some .nl ∧ w.spaces = 0 ∧ w.lineLen = 0 ∧ w.canNL = false

theorem inv_lead {w : W} (h : AtLineStart w) : Inv (w.writeStr [32]) := by
  obtain ⟨h1, h2, h3, h4⟩ := h
  right
  have e : w.writeStr [32] = { w with chunks := [] :: w.chunks, spaces := 1 } := by
    simp [W.writeStr, W.flushSpaces, trimEnd, List.dropWhile, h2]
  rw [e]
  exact ⟨by simpa [W.bytes] using h1, by simp, h4, h3⟩

theorem lineStart_of_norm {w : W} (h : scan .norm w.bytes = some .norm) (hs : w.spaces = 0) : AtLineStart w.newLine := by
  refine ⟨?_, by simpa [W.newLine] using hs, by simp [W.newLine], by simp [W.newLine]⟩
  have : w.newLine.bytes = w.bytes ++ [13, 10] := by simp [W.newLine, W.bytes]
  rw [this, scan_append, h]; rfl

theorem lineStart_forget {w : W} (h : scan .norm w.bytes = some .norm) : AtLineStart { w.newLine with spaces := 0 } := by
  refine ⟨?_, rfl, by simp [W.newLine], by simp [W.newLine]⟩
  have : ({ w.newLine with spaces := 0 } : W).bytes = w.bytes ++ [13, 10] := by simp [W.newLine, W.bytes]
  rw [this, scan_append, h]; rfl

theorem plain_key : Plain filenameKey := by intro b hb; revert b; decide

/-- the `key*i="` / `key*i*=` prefix of a continuation line -/
theorem inv_prefix {w : W} (h : AtLineStart w) (key : Bytes) (hk : Plain key) (i : Nat) (tail : Bytes) (ht : Plain tail) :
    Inv (((((w.writeStr [32]).writeStr key).writeStr [42]).writeStr (digits i)).writeStr tail) :=
  writeStr_inv (writeStr_inv (writeStr_inv (writeStr_inv (inv_lead h) key hk) [42] (by intro b hb; simp at hb; subst hb; decide))
    (digits i) (plain_digits i).1) tail ht


theorem key_facts : (∀ b ∈ filenameKey, b ≠ 32) ∧ filenameKey ≠ [] ∧ filenameKey.length = 8 := by decide

/-- the writer after the `key*i…` prefix of a continuation line -/
theorem prefix_state {w : W} (h : AtLineStart w) (i : Nat) (tail : Bytes) (ht : Plain tail) (ht32 : ∀ b ∈ tail, b ≠ 32)
    (htne : tail ≠ []) :
    Inv (((((w.writeStr [32]).writeStr filenameKey).writeStr [42]).writeStr (digits i)).writeStr tail) ∧
    (((((w.writeStr [32]).writeStr filenameKey).writeStr [42]).writeStr (digits i)).writeStr tail).spaces = 0 ∧
    (((((w.writeStr [32]).writeStr filenameKey).writeStr [42]).writeStr (digits i)).writeStr tail).lineLen =
      10 + (digits i).length + tail.length := by
  obtain ⟨h1, h2, h3, h4⟩ := h
  have e0 : w.writeStr [32] = { w with chunks := [] :: w.chunks, spaces := 1 } := by
    simp [W.writeStr, W.flushSpaces, trimEnd, List.dropWhile, h2]
  have f1 := writeStr_fields (w.writeStr [32]) filenameKey key_facts.1 key_facts.2.1
  have f2 := writeStr_fields ((w.writeStr [32]).writeStr filenameKey) [42] (by decide) (by decide)
  have f3 := writeStr_fields (((w.writeStr [32]).writeStr filenameKey).writeStr [42]) (digits i) (plain_digits i).2 (digits_ne i)
  have f4 := writeStr_fields ((((w.writeStr [32]).writeStr filenameKey).writeStr [42]).writeStr (digits i)) tail ht32 htne
  refine ⟨inv_prefix ⟨h1, h2, h3, h4⟩ filenameKey plain_key i tail ht, f4.1, ?_⟩
  rw [f4.2, f3.2, f3.1, f2.2, f2.1, f1.2, f1.1, key_facts.2.2, e0]
  simp [h3]

theorem plain_take (v : Bytes) (n : Nat) (h : Plain v) : Plain (v.take n) := fun b hb => h b (List.mem_of_mem_take hb)
theorem plain_drop (v : Bytes) (n : Nat) (h : Plain v) : Plain (v.drop n) := fun b hb => h b (List.mem_of_mem_drop hb)

theorem inv_plainLoop : ∀ (fuel i : Nat) (w : W) (v : Bytes), AtLineStart w → Plain v → v.length < fuel →
    (∀ j, j ≤ i + v.length → (digits j).length ≤ 20) → Inv (plainLoop filenameKey fuel i w v)
  | 0, _, _, _, _, _, hf, _ => by omega
  | fuel + 1, i, w, v, h, hv, hf, hd => by
    obtain ⟨p1, p2, p3⟩ := prefix_state h i [61, 34] (by intro b hb; revert b; decide) (by decide) (by decide)
    have hdi := hd i (by omega)
    unfold plainLoop
    simp only
    generalize hw1 : ((((w.writeStr [32]).writeStr filenameKey).writeStr [42]).writeStr (digits i)).writeStr [61, 34] = w1 at p1 p2 p3
    generalize hrem : maxLineLen - w1.lineLen - 3 = remaining
    have hrem1 : 1 ≤ remaining := by simp only [maxLineLen] at hrem; simp at p3; omega
    have i2 := inv_writeEscapedW (v.take (min remaining v.length)) p1 (plain_take v _ hv)
    have n3 := norm_writeCharB i2 34 (by decide) (by decide)
    split
    · exact inv_writeCharB i2 34 (by decide)
    · rename_i hne
      have hrest : (v.drop (v.take (min remaining v.length)).length) ≠ [] := by simpa using hne
      have hvne : v ≠ [] := by intro e; subst e; simp at hrest
      have hvl : 0 < v.length := List.length_pos_iff.mpr hvne
      have hlen : (v.drop (v.take (min remaining v.length)).length).length < v.length := by
        simp only [List.length_drop, List.length_take]; omega
      have n4 := norm_writeCharB (inv_writeCharB i2 34 (by decide)) 59 (by decide) (by decide)
      apply inv_plainLoop fuel (i + 1) _ _ (lineStart_of_norm n4.1 n4.2) (plain_drop v _ hv) (by omega)
      intro j hj
      exact hd j (by omega)

theorem alnum_printable (b : Byte) (h : (isAlnum b || isPlus b) = true) : printable b = true ∧ b ≠ 32 := by
  simp only [isAlnum, isPlus, Bool.or_eq_true, Bool.and_eq_true, decide_eq_true_eq, beq_iff_eq] at h
  constructor
  · simp only [printable, Bool.or_eq_true, Bool.and_eq_true, decide_eq_true_eq, beq_iff_eq]
    rcases h with h | h
    · right; omega
    · rcases h with (h | h) | h <;> (subst h; decide)
  · intro e; subst e; revert h; decide

theorem inv_pct {w : W} (h : Inv w) (b : Byte) :
    Inv (writeCharB (writeCharB (writeCharB w 37) (hexDigit (b.toNat / 16))) (hexDigit (b.toNat % 16))) := by
  have h1 := printable_hexDigit (b.toNat / 16) (by have := b.toNat_lt; omega)
  have h2 := printable_hexDigit (b.toNat % 16) (by omega)
  exact inv_writeCharB (inv_writeCharB (inv_writeCharB h 37 (by decide)) _ h1.1) _ h2.1

theorem inv_percentChar {w : W} (h : Inv w) (c : Bytes) : Inv (percentChar w c) := by
  have fold : ∀ (l : Bytes) (w : W), Inv w →
      Inv (l.foldl (fun w b => writeCharB (writeCharB (writeCharB w 37) (hexDigit (b.toNat / 16))) (hexDigit (b.toNat % 16))) w) := by
    intro l
    induction l with
    | nil => intro w h; exact h
    | cons b l ih => intro w h; exact ih _ (inv_pct h b)
  unfold percentChar
  split
  · rename_i b
    split
    · rename_i ha; exact inv_writeCharB h b (alnum_printable b ha).1
    · exact inv_pct h b
  · exact fold c w h

theorem firstChar_len (v : Bytes) (h : v ≠ []) : 1 ≤ (firstChar v).length := by
  cases v with
  | nil => exact absurd rfl h
  | cons b r => simp [firstChar]

theorem inv_encLine : ∀ (fuel : Nat) (w : W) (v : Bytes), Inv w →
    Inv (encLine fuel w v).1 ∧ (encLine fuel w v).2.length ≤ v.length ∧
      (1 ≤ fuel → w.lineLen < maxLineLen - 15 → v ≠ [] → (encLine fuel w v).2.length < v.length)
  | 0, w, v, h => ⟨h, Nat.le_refl _, by intro h1; omega⟩
  | fuel + 1, w, v, h => by
    unfold encLine
    split
    · rename_i hl
      cases v with
      | nil => exact ⟨h, Nat.le_refl _, by intro _ _ e; exact absurd rfl e⟩
      | cons b r =>
        simp only
        have hc := firstChar_len (b :: r) (by simp)
        obtain ⟨a1, a2, _⟩ := inv_encLine fuel (percentChar w (firstChar (b :: r))) ((b :: r).drop (firstChar (b :: r)).length)
          (inv_percentChar h _)
        have hd : ((b :: r).drop (firstChar (b :: r)).length).length < (b :: r).length := by
          simp only [List.length_drop]; simp at hc ⊢; omega
        exact ⟨a1, by omega, by intro _ _ _; omega⟩
    · rename_i hl
      exact ⟨h, Nat.le_refl _, by intro _ h2; exact absurd h2 hl⟩

theorem inv_encLoop : ∀ (fuel i : Nat) (w : W) (v : Bytes), AtLineStart w → v.length < fuel →
    (∀ j, j ≤ i + v.length → (digits j).length ≤ 20) → Inv (encLoop filenameKey fuel i w v)
  | 0, _, _, _, _, hf, _ => by omega
  | fuel + 1, i, w, v, h, hf, hd => by
    obtain ⟨p1, p2, p3⟩ := prefix_state h i [42, 61] (by intro b hb; revert b; decide) (by decide) (by decide)
    have hdi := hd i (by omega)
    unfold encLoop
    simp only
    generalize hw1 : ((((w.writeStr [32]).writeStr filenameKey).writeStr [42]).writeStr (digits i)).writeStr [42, 61] = w1 at p1 p2 p3
    -- the charset tag on the first line
    have hw2 : Inv (if (i == 0) = true then w1.writeStr [117, 116, 102, 45, 56, 39, 39] else w1) ∧
        (if (i == 0) = true then w1.writeStr [117, 116, 102, 45, 56, 39, 39] else w1).lineLen < maxLineLen - 15 := by
      split
      · have f := writeStr_fields w1 [117, 116, 102, 45, 56, 39, 39] (by decide) (by decide)
        refine ⟨writeStr_inv p1 _ (by intro b hb; revert b; decide), ?_⟩
        rw [f.2, p2, p3]; simp [maxLineLen]; omega
      · exact ⟨p1, by rw [p3]; simp [maxLineLen]; omega⟩
    generalize (if (i == 0) = true then w1.writeStr [117, 116, 102, 45, 56, 39, 39] else w1) = w2 at hw2
    obtain ⟨e1, e2, e3⟩ := inv_encLine (v.length + 1) w2 v hw2.1
    generalize encLine (v.length + 1) w2 v = res at e1 e2 e3
    obtain ⟨w3, rest⟩ := res
    simp only at e1 e2 e3 ⊢
    split
    · exact e1
    · rename_i hne
      have hrest : rest ≠ [] := by simpa using hne
      have hvne : v ≠ [] := by intro e; subst e; simp at e2; exact hrest e2
      have hlt := e3 (by omega) hw2.2 hvne
      have n4 := norm_writeCharB e1 59 (by decide) (by decide)
      apply inv_encLoop fuel (i + 1) _ rest (lineStart_of_norm n4.1 n4.2) (by omega)
      intro j hj
      exact hd j (by omega)

/-- **No file name can break a Content-Disposition header.** For every file name (any Rust string of less than 10^20
    octets: printable or not, quotes, backslashes, CR, LF, NUL, non-ASCII) and every printable `kind`, the value written by
    `ContentDisposition::with_name` has no bare CR or LF, every CRLF is followed by a space, every other octet is HTAB or
    printable ASCII, and it does not end inside a line break. -/
theorem cdisp_wf (kind name : Bytes) (hk : Plain kind) (hn : name.length < 10 ^ 20) :
    scan .norm (cdispValue kind name) = some .norm := by
  unfold cdispValue
  apply flush_norm
  have h0 : Inv (⟨[], 21, 0, false⟩ : W) := Or.inl rfl
  have i1 := writeStr_inv h0 kind hk
  have n2 := norm_writeCharB i1 59 (by decide) (by decide)
  have hnorm : scan .norm ((writeCharB (W.writeStr ⟨[], 21, 0, false⟩ kind) 59).space).bytes = some .norm := by
    simpa [W.space, W.bytes] using n2.1
  have i3 : Inv ((writeCharB (W.writeStr ⟨[], 21, 0, false⟩ kind) 59).space) := Or.inl hnorm
  have hdig : ∀ j, j ≤ 0 + name.length → (digits j).length ≤ 20 := by
    intro j hj; exact digits_len 20 j (by omega) (by omega)
  generalize (writeCharB (W.writeStr ⟨[], 21, 0, false⟩ kind) 59).space = w at hnorm i3
  unfold encode
  split
  · rename_i hp
    have hpl : Plain name := by
      intro b hb
      have := (List.all_eq_true.mp hp) b hb
      simp only [Bool.and_eq_true, decide_eq_true_eq] at this
      simp only [printable, Bool.or_eq_true, Bool.and_eq_true, decide_eq_true_eq, beq_iff_eq]
      right; exact this
    split
    · exact inv_writeCharB (inv_writeEscapedW name (inv_writeCharB (inv_writeCharB (writeStr_inv i3 _ plain_key) 61 (by decide)) 34 (by decide)) hpl) 34 (by decide)
    · exact inv_plainLoop _ 0 _ name (lineStart_forget hnorm) hpl (by omega) hdig
  · exact inv_encLoop _ 0 _ name (lineStart_forget hnorm) (by omega) hdig


theorem splitParams_esc : ∀ (v acc r : Bytes),
    splitParams (esc v ++ 34 :: r) acc true = splitParams r (34 :: ((esc v).reverse ++ acc)) false
  | [], acc, r => by simp [esc, splitParams]
  | b :: bs, acc, r => by
    by_cases h92 : b = 92
    · subst h92
      simp only [esc, beq_self_eq_true, if_true, List.cons_append, List.nil_append]
      rw [splitParams.eq_2, splitParams_esc bs _ r]
      simp [List.reverse_cons, List.append_assoc]
    · by_cases h34 : b = 34
      · subst h34
        have : ((34 : Byte) == 92) = false := by decide
        simp only [esc, this, Bool.false_eq_true, if_false, beq_self_eq_true, if_true, List.cons_append, List.nil_append]
        rw [splitParams.eq_2, splitParams_esc bs _ r]
        simp [List.reverse_cons, List.append_assoc]
      · have e1 : (b == 92) = false := by simpa using h92
        have e2 : (b == 34) = false := by simpa using h34
        simp only [esc, e1, e2, Bool.false_eq_true, if_false, List.cons_append, List.nil_append]
        rw [splitParams.eq_5, splitParams_esc bs _ r]
        · simp [List.reverse_cons, List.append_assoc]
        · intro c; exact h34 c
        · intro _ _ _ h _; exact h92 h
        · intro h _; cases h


theorem splitParams_run : ∀ (u r acc : Bytes), (∀ b ∈ u, b ≠ 34 ∧ b ≠ 59) →
    splitParams (u ++ r) acc false = splitParams r (u.reverse ++ acc) false
  | [], r, acc, _ => by simp
  | b :: u, r, acc, h => by
    have hb := h b (by simp)
    rw [List.cons_append, splitParams.eq_5, splitParams_run u r (b :: acc) (fun x hx => h x (by simp [hx]))]
    · simp [List.reverse_cons, List.append_assoc]
    · intro c; exact hb.1 c
    · intro _ _ hq; cases hq
    · intro _ c; exact hb.2 c


theorem view_writeCharB {w : W} (h : Inv w) (c : Byte) (hc : printable c = true) : (writeCharB w c).view = w.view ++ [c] := by
  by_cases e : c = 32
  · subst e; simpa [writeCharB] using view_space h
  · rw [writeCharB_eq w c e]; exact view_writeStr h [c] (by intro b hb; simp at hb; subst hb; exact hc)

theorem view_writeEscapedW : ∀ (v : Bytes) {w : W}, Inv w → Plain v → (writeEscapedW w v).view = w.view ++ esc v
  | [], _, _, _ => by simp [writeEscapedW, esc]
  | b :: bs, w, h, hv => by
    have hb := hv b (by simp)
    have hbs : Plain bs := fun x hx => hv x (by simp [hx])
    unfold writeEscapedW esc
    split
    · have hp : Plain [92, 92] := by intro x hx; simp at hx; subst hx; decide
      rw [view_writeEscapedW bs (writeStr_inv h _ hp) hbs, view_writeStr h _ hp, List.append_assoc]
    · split
      · have hp : Plain [92, 34] := by intro x hx; simp at hx; rcases hx with e | e <;> (subst e; decide)
        rw [view_writeEscapedW bs (writeStr_inv h _ hp) hbs, view_writeStr h _ hp, List.append_assoc]
      · rw [view_writeEscapedW bs (inv_writeCharB h b hb) hbs, view_writeCharB h b hb, List.append_assoc]

/-- a short printable file name is written on the first line: `kind; filename="escaped name"` -/
theorem cdisp_short_view (kind name : Bytes) (hk : Plain kind) (hk32 : ∀ b ∈ kind, b ≠ 32) (hkne : kind ≠ [])
    (hp : asciiPrintable name = true) (hfit : 21 + kind.length + 1 + (8 + 2 + name.length + 3) ≤ 76) :
    HeaderReader.unfold (cdispValue kind name) = kind ++ [59, 32] ++ filenameKey ++ [61, 34] ++ esc name ++ [34] := by
  have hpl : Plain name := by
    intro b hb
    have := (List.all_eq_true.mp hp) b hb
    simp only [Bool.and_eq_true, decide_eq_true_eq] at this
    simp only [printable, Bool.or_eq_true, Bool.and_eq_true, decide_eq_true_eq, beq_iff_eq]
    right; exact this
  have h0 : Inv (⟨[], 21, 0, false⟩ : W) := Or.inl rfl
  have v0 : (⟨[], 21, 0, false⟩ : W).view = [] := by simp [W.view, W.out, W.bytes, HeaderReader.unfold]
  have i1 := writeStr_inv h0 kind hk
  have f1 := writeStr_fields ⟨[], 21, 0, false⟩ kind hk32 hkne
  have i2 := inv_writeCharB i1 59 (by decide)
  have i3 := inv_space i2
  have l3 : ((writeCharB (W.writeStr ⟨[], 21, 0, false⟩ kind) 59).space).lineLen = 21 + kind.length + 1 := by
    rw [writeCharB_eq _ 59 (by decide)]
    have f2 := writeStr_fields (W.writeStr ⟨[], 21, 0, false⟩ kind) [59] (by decide) (by decide)
    simp only [W.space, f2.2, f1.2, f1.1]; simp
  have v3 : ((writeCharB (W.writeStr ⟨[], 21, 0, false⟩ kind) 59).space).view = kind ++ [59, 32] := by
    rw [view_space i2, view_writeCharB i1 59 (by decide), view_writeStr h0 kind hk, v0]; simp
  unfold cdispValue
  rw [out_flush]
  generalize (writeCharB (W.writeStr ⟨[], 21, 0, false⟩ kind) 59).space = w at i3 l3 v3
  unfold encode
  simp only [hp, if_true]
  have hfit' : w.lineLen + (filenameKey.length + 2 + name.length + 3) ≤ maxLineLen := by
    rw [l3, key_facts.2.2]; simp only [maxLineLen]; omega
  simp only [hfit', if_true]
  have j1 := writeStr_inv i3 _ plain_key
  have j2 := inv_writeCharB j1 61 (by decide)
  have j3 := inv_writeCharB j2 34 (by decide)
  have j4 := inv_writeEscapedW name j3 hpl
  show (writeCharB (writeEscapedW (writeCharB (writeCharB (w.writeStr filenameKey) 61) 34) name) 34).view = _
  rw [view_writeCharB j4 34 (by decide), view_writeEscapedW name j3 hpl, view_writeCharB j2 34 (by decide),
    view_writeCharB j1 61 (by decide), view_writeStr i3 _ plain_key, v3]
  simp [List.append_assoc]


theorem takeWhile_key (k r : Bytes) (h : ∀ b ∈ k, b ≠ 61) : (k ++ 61 :: r).takeWhile (· != 61) = k := by
  induction k with
  | nil => simp [List.takeWhile]
  | cons b k ih =>
    have hb : (b != 61) = true := by simpa using h b (by simp)
    simp [List.takeWhile, hb, ih (fun x hx => h x (by simp [hx]))]

theorem trimWs_lead (s : Bytes) : trimWs (32 :: s) = trimWs s := by
  simp [trimWs, List.dropWhile]

/-- **A short printable file name is read back.** When the name is printable ASCII and `filename="…"` fits on the first
    line, an RFC 2231 / RFC 5322 reader of the Content-Disposition value finds exactly the name under `filename`
    (quotes and backslashes in it included). Longer and non-ASCII names (continuations, percent-encoding) are decided on
    real output by the same reader. -/
theorem filename_roundtrip_short (kind name : Bytes) (hk : Plain kind) (hk32 : ∀ b ∈ kind, b ≠ 32) (hkne : kind ≠ [])
    (hks : ∀ b ∈ kind, b ≠ 34 ∧ b ≠ 59)
    (hp : asciiPrintable name = true) (hfit : 21 + kind.length + 1 + (8 + 2 + name.length + 3) ≤ 76) :
    paramDecode filenameKey (HeaderReader.unfold (cdispValue kind name)) = some name := by
  rw [cdisp_short_view kind name hk hk32 hkne hp hfit]
  -- the two segments
  have hsplit : splitParams (kind ++ [59, 32] ++ filenameKey ++ [61, 34] ++ esc name ++ [34]) [] false =
      [kind, 32 :: (filenameKey ++ 61 :: 34 :: (esc name ++ [34]))] := by
    have e1 : kind ++ [59, 32] ++ filenameKey ++ [61, 34] ++ esc name ++ [34] =
        kind ++ (59 :: (([32] ++ filenameKey ++ [61]) ++ (34 :: (esc name ++ 34 :: [])))) := by simp [List.append_assoc]
    rw [e1, splitParams_run kind _ [] hks, splitParams.eq_4, splitParams_run ([32] ++ filenameKey ++ [61]) _ []
      (by intro b hb; revert b; decide), splitParams.eq_3]
    · have := splitParams_esc name (34 :: (List.reverse ([32] ++ filenameKey ++ [61]) ++ [])) []
      simp only [Bool.not_false]
      rw [this]
      simp [splitParams, List.reverse_append, List.append_assoc]
  have hquoted := quotedGo_esc name [] []
  simp only [List.reverse_nil, List.nil_append] at hquoted
  have hseg : segment filenameKey (32 :: (filenameKey ++ 61 :: 34 :: (esc name ++ [34]))) = some (false, name) := by
    have ht : trimWs (32 :: (filenameKey ++ 61 :: 34 :: (esc name ++ [34]))) = filenameKey ++ 61 :: 34 :: (esc name ++ [34]) := by
      rw [trimWs_lead]
      apply trimWs_id
      · intro x hx; simp [filenameKey] at hx; subst hx; simp [nws]
      · intro x hx
        have : (filenameKey ++ 61 :: 34 :: (esc name ++ [34])).getLast? = some 34 := by
          rw [show filenameKey ++ 61 :: 34 :: (esc name ++ [34]) = (filenameKey ++ 61 :: 34 :: esc name) ++ [34] by simp,
            List.getLast?_append]; simp
        rw [this] at hx; injection hx with hx; subst hx; simp [nws]
    unfold segment
    simp only [ht, takeWhile_key filenameKey _ (by decide)]
    have hd : ((filenameKey ++ 61 :: 34 :: (esc name ++ [34])).drop filenameKey.length).drop 1 = 34 :: (esc name ++ [34]) := by
      simp
    simp only [hd, hquoted]
    simp [filenameKey]
  unfold paramDecode
  simp only [hsplit, List.drop_one, List.tail_cons, List.filterMap_cons, hseg, List.filterMap_nil]
  simp [paramDecode.go]



/-! ## long printable file names: parameter value continuations -/

/-- the unfolded text of one continuation line: ` filename*i="escaped chunk"` -/
def segText (ic : Nat × Bytes) : Bytes := [32] ++ filenameKey ++ [42] ++ digits ic.1 ++ [61, 34] ++ esc ic.2 ++ [34]

/-- the continuation lines, `;` between them -/
def chainOf : List (Nat × Bytes) → Bytes
  | [] => []
  | ic :: more => segText ic ++ (if more.isEmpty then [] else 59 :: chainOf more)

theorem digits_chars (n : Nat) : ∀ b ∈ digits n, 48 ≤ b.toNat ∧ b.toNat ≤ 57 := by
  induction n using Nat.strongRecOn with
  | _ n ih =>
    unfold digits
    split
    · rename_i h
      intro b hb
      have hb := List.mem_singleton.mp hb
      subst hb
      rw [digit_byte n h]; omega
    · rename_i h
      intro b hb
      simp only [List.mem_append, List.mem_singleton] at hb
      rcases hb with hb | hb
      · exact ih (n / 10) (by omega) b hb
      · subst hb
        rw [digit_byte (n % 10) (by omega)]; omega

theorem head_run (i : Nat) : ∀ b ∈ [32] ++ filenameKey ++ [42] ++ digits i ++ [61], b ≠ 34 ∧ b ≠ 59 := by
  intro b hb
  simp only [List.mem_append, List.mem_singleton] at hb
  rcases hb with (((hb | hb) | hb) | hb) | hb
  · subst hb; decide
  · revert b; decide
  · subst hb; decide
  · have := digits_chars i b hb
    constructor <;> (intro e; subst e; simp at this)
  · subst hb; decide

theorem splitParams_chain : ∀ (L : List (Nat × Bytes)), L ≠ [] →
    splitParams (chainOf L) [] false = L.map segText
  | [], h => absurd rfl h
  | ic :: more, _ => by
    have e1 : segText ic = ([32] ++ filenameKey ++ [42] ++ digits ic.1 ++ [61]) ++ 34 :: (esc ic.2 ++ [34]) := by
      simp [segText, List.append_assoc]
    cases more with
    | nil =>
      simp only [chainOf, List.isEmpty_nil, if_true, List.append_nil, List.map_cons, List.map_nil]
      rw [e1, splitParams_run _ _ [] (head_run ic.1), splitParams.eq_3]
      have := splitParams_esc ic.2 (34 :: (List.reverse ([32] ++ filenameKey ++ [42] ++ digits ic.1 ++ [61]) ++ [])) []
      simp only [Bool.not_false]
      rw [this]
      simp [splitParams, List.reverse_append, List.append_assoc]
    | cons ic2 more2 =>
      have ih := splitParams_chain (ic2 :: more2) (by simp)
      have hstep : chainOf (ic :: ic2 :: more2) = segText ic ++ 59 :: chainOf (ic2 :: more2) := by
        simp [chainOf]
      rw [hstep]
      simp only [List.map_cons]
      have e2 : segText ic ++ 59 :: chainOf (ic2 :: more2) =
          ([32] ++ filenameKey ++ [42] ++ digits ic.1 ++ [61]) ++ 34 :: (esc ic.2 ++ 34 :: (59 :: chainOf (ic2 :: more2))) := by
        rw [e1]; simp [List.append_assoc]
      have hc : chainOf (ic2 :: more2) = segText ic2 ++ (if more2.isEmpty then [] else 59 :: chainOf more2) := rfl
      rw [e2, splitParams_run _ _ [] (head_run ic.1), splitParams.eq_3]
      have := splitParams_esc ic.2 (34 :: (List.reverse ([32] ++ filenameKey ++ [42] ++ digits ic.1 ++ [61]) ++ []))
        (59 :: chainOf (ic2 :: more2))
      simp only [Bool.not_false]
      rw [this, splitParams.eq_4, ih]
      simp [List.reverse_append, List.append_assoc, e1]


theorem takeWhile_key2 (k r : Bytes) (h : ∀ b ∈ k, b ≠ 61) : (k ++ 61 :: r).takeWhile (· != 61) = k :=
  takeWhile_key k r h

theorem segment_cont (ic : Nat × Bytes) : segment filenameKey (segText ic) = some (false, ic.2) := by
  obtain ⟨i, c⟩ := ic
  have hquoted := quotedGo_esc c [] []
  simp only [List.reverse_nil, List.nil_append] at hquoted
  let k : Bytes := filenameKey ++ [42] ++ digits i
  have hk61 : ∀ b ∈ k, b ≠ 61 := by
    intro b hb
    simp only [k, List.mem_append, List.mem_singleton] at hb
    rcases hb with (hb | hb) | hb
    · revert b; decide
    · subst hb; decide
    · have := digits_chars i b hb; intro e; subst e; simp at this
  have hform : segText (i, c) = 32 :: (k ++ 61 :: 34 :: (esc c ++ [34])) := by simp [segText, k, List.append_assoc]
  have ht : trimWs (segText (i, c)) = k ++ 61 :: 34 :: (esc c ++ [34]) := by
    rw [hform, trimWs_lead]
    apply trimWs_id
    · intro x hx; simp [k, filenameKey] at hx; subst hx; simp [nws]
    · intro x hx
      have : (k ++ 61 :: 34 :: (esc c ++ [34])).getLast? = some 34 := by
        rw [show k ++ 61 :: 34 :: (esc c ++ [34]) = (k ++ 61 :: 34 :: esc c) ++ [34] by simp, List.getLast?_append]; simp
      rw [this] at hx; injection hx with hx; subst hx; simp [nws]
  unfold segment
  simp only [ht, takeWhile_key k _ hk61]
  have hd : ((k ++ 61 :: 34 :: (esc c ++ [34])).drop k.length).drop 1 = 34 :: (esc c ++ [34]) := by simp
  have hpre : filenameKey.isPrefixOf k = true := by simp [k, List.append_assoc]
  have hsuf : k.drop filenameKey.length = [42] ++ digits i := by simp [k, List.append_assoc]
  have hlast : ([42] ++ digits i).getLast? ≠ some 42 := by
    obtain ⟨r, x, hx⟩ : ∃ r x, digits i = r ++ [x] := by
      have := digits_ne i
      exact ⟨(digits i).dropLast, (digits i).getLast this, (List.dropLast_concat_getLast this).symm⟩
    have hxm : x ∈ digits i := by rw [hx]; simp
    have := digits_chars i x hxm
    rw [hx, ← List.append_assoc, List.getLast?_append]; simp
    intro e; subst e; simp at this
  have hall : ([42] ++ digits i).all (fun b => b == 42 || (48 ≤ b.toNat && b.toNat ≤ 57)) = true := by
    rw [List.all_eq_true]
    intro b hb
    simp only [List.mem_append, List.mem_singleton] at hb
    rcases hb with hb | hb
    · subst hb; decide
    · have := digits_chars i b hb; simp [this.1, this.2]
  simp only [hd, hpre, hsuf, hquoted, hall]
  have hlast' : ¬ (42 :: digits i).getLast? = some 42 := by simpa using hlast
  simp [hlast']

theorem go_plain : ∀ (L : List Bytes) (first : Bool), paramDecode.go first (L.map fun c => (false, c)) = some L.flatten
  | [], _ => by simp [paramDecode.go]
  | c :: L, first => by
    simp [paramDecode.go, go_plain L false]


theorem paramDecode_chain (kind : Bytes) (hks : ∀ b ∈ kind, b ≠ 34 ∧ b ≠ 59) (L : List (Nat × Bytes)) (hL : L ≠ []) :
    paramDecode filenameKey (kind ++ 59 :: chainOf L) = some ((L.map (·.2)).flatten) := by
  have hsplit : splitParams (kind ++ 59 :: chainOf L) [] false = kind :: L.map segText := by
    rw [splitParams_run kind _ [] hks, splitParams.eq_4, splitParams_chain L hL]; simp
  have hfm : ∀ (M : List (Nat × Bytes)), (M.map segText).filterMap (segment filenameKey) = M.map (fun ic => (false, ic.2)) := by
    intro M
    induction M with
    | nil => rfl
    | cons ic M ih => simp only [List.map_cons, List.filterMap_cons, segment_cont, ih]
  unfold paramDecode
  simp only [hsplit, List.drop_one, List.tail_cons, hfm L]
  have hne : (L.map (fun ic => ((false, ic.2) : Bool × Bytes))).isEmpty = false := by
    cases L with
    | nil => exact absurd rfl hL
    | cons _ _ => rfl
  simp only [hne, Bool.false_eq_true, if_false]
  have := go_plain (L.map (·.2)) true
  simp only [List.map_map] at this
  exact this

/-- the state before a continuation line is started: inside a line, nothing pending -/
def Pre (p : W) : Prop := scan .norm p.bytes = some .norm ∧ p.spaces = 0

theorem view_lead {p : W} (h : Pre p) : (p.newLine.writeStr [32]).view = p.view ++ [32] := by
  obtain ⟨h1, h2⟩ := h
  have e : p.newLine.writeStr [32] = { p.newLine with chunks := [] :: p.newLine.chunks, spaces := 1 } := by
    simp [W.writeStr, W.flushSpaces, trimEnd, List.dropWhile, W.newLine, h2]
  rw [e]
  have o1 : ({ p.newLine with chunks := [] :: p.newLine.chunks, spaces := 1 } : W).out = p.bytes ++ [13, 10, 32] := by
    simp [W.out, W.bytes, W.newLine]
  have o2 : p.out = p.bytes := by simp [W.out, h2]
  rw [W.view, o1, W.view, o2, unfold_append _ _ _ (Nat.le_refl _) h1]
  congr 1

/-- the chunks of the value, as `rfc2231::encode` cuts a printable value -/
def chunksP : Nat → Nat → Bytes → List (Nat × Bytes)
  | 0, _, _ => []
  | fuel + 1, i, v =>
    (i, v.take (min (maxLineLen - (12 + (digits i).length) - 3) v.length)) ::
      (if (v.drop (v.take (min (maxLineLen - (12 + (digits i).length) - 3) v.length)).length).isEmpty then []
       else chunksP fuel (i + 1) (v.drop (v.take (min (maxLineLen - (12 + (digits i).length) - 3) v.length)).length))

theorem view_plainLoop : ∀ (fuel i : Nat) (p : W) (v : Bytes), Pre p → Plain v → v.length < fuel →
    (∀ j, j ≤ i + v.length → (digits j).length ≤ 20) →
    (plainLoop filenameKey fuel i p.newLine v).view = p.view ++ chainOf (chunksP fuel i v)
  | 0, _, _, _, _, _, hf, _ => by omega
  | fuel + 1, i, p, v, hp, hv, hf, hd => by
    have hls := lineStart_of_norm hp.1 hp.2
    obtain ⟨p1, p2, p3⟩ := prefix_state hls i [61, 34] (by intro b hb; revert b; decide) (by decide) (by decide)
    have hdi := hd i (by omega)
    -- the view after the prefix
    have il := inv_lead hls
    have ik := writeStr_inv il filenameKey plain_key
    have is_ := writeStr_inv ik [42] (by intro b hb; simp at hb; subst hb; decide)
    have id_ := writeStr_inv is_ (digits i) (plain_digits i).1
    have v1 : (((((p.newLine.writeStr [32]).writeStr filenameKey).writeStr [42]).writeStr (digits i)).writeStr [61, 34]).view =
        p.view ++ ([32] ++ filenameKey ++ [42] ++ digits i ++ [61, 34]) := by
      rw [view_writeStr id_ _ (by intro b hb; revert b; decide), view_writeStr is_ _ (plain_digits i).1,
        view_writeStr ik _ (by intro b hb; simp at hb; subst hb; decide), view_writeStr il _ plain_key, view_lead hp]
      simp [List.append_assoc]
    unfold plainLoop chunksP
    simp only
    generalize hw1 : ((((p.newLine.writeStr [32]).writeStr filenameKey).writeStr [42]).writeStr (digits i)).writeStr [61, 34] = w1 at p1 p2 p3 v1
    have hrem : maxLineLen - w1.lineLen - 3 = maxLineLen - (12 + (digits i).length) - 3 := by rw [p3]; simp; omega
    rw [hrem]
    generalize hc : v.take (min (maxLineLen - (12 + (digits i).length) - 3) v.length) = chunk
    have hcp : Plain chunk := by rw [← hc]; exact plain_take v _ hv
    have i2 := inv_writeEscapedW chunk p1 hcp
    have i3 := inv_writeCharB i2 34 (by decide)
    have v3 : (writeCharB (writeEscapedW w1 chunk) 34).view = p.view ++ segText (i, chunk) := by
      rw [view_writeCharB i2 34 (by decide), view_writeEscapedW chunk p1 hcp, v1]
      simp [segText, List.append_assoc]
    split
    · simp only [chainOf, List.isEmpty_nil, if_true, List.append_nil]
      exact v3
    · rename_i hne
      have hrest : v.drop chunk.length ≠ [] := by simpa using hne
      have hvne : v ≠ [] := by intro e; subst e; simp at hrest
      have hvl : 0 < v.length := List.length_pos_iff.mpr hvne
      have hcl : 1 ≤ chunk.length := by
        rw [← hc]; simp only [List.length_take, maxLineLen]; omega
      have hlen : (v.drop chunk.length).length < v.length := by simp only [List.length_drop]; omega
      have n4 := norm_writeCharB i3 59 (by decide) (by decide)
      have ih := view_plainLoop fuel (i + 1) (writeCharB (writeCharB (writeEscapedW w1 chunk) 34) 59) (v.drop chunk.length)
        ⟨n4.1, n4.2⟩ (plain_drop v _ hv) (by omega) (fun j hj => hd j (by omega))
      rw [ih, view_writeCharB i3 59 (by decide), v3]
      have hnext : chunksP fuel (i + 1) (v.drop chunk.length) ≠ [] := by
        cases fuel with
        | zero => omega
        | succ f => simp [chunksP]
      have hie : (chunksP fuel (i + 1) (v.drop chunk.length)).isEmpty = false := by
        cases h : chunksP fuel (i + 1) (v.drop chunk.length) with
        | nil => exact absurd h hnext
        | cons _ _ => rfl
      simp [chainOf, hie, List.append_assoc]


theorem chunks_flatten : ∀ (fuel i : Nat) (v : Bytes), v.length < fuel →
    (∀ j, j ≤ i + v.length → (digits j).length ≤ 20) →
    ((chunksP fuel i v).map (·.2)).flatten = v ∧ chunksP fuel i v ≠ []
  | 0, _, _, h, _ => by omega
  | fuel + 1, i, v, hf, hd => by
    have hdi := hd i (by omega)
    unfold chunksP
    generalize hc : v.take (min (maxLineLen - (12 + (digits i).length) - 3) v.length) = chunk
    have hsplit : chunk ++ v.drop chunk.length = v := by
      rw [← hc]; simp only [List.length_take]
      have : min (min (maxLineLen - (12 + (digits i).length) - 3) v.length) v.length = min (maxLineLen - (12 + (digits i).length) - 3) v.length := by omega
      rw [this]; exact List.take_append_drop _ v
    refine ⟨?_, by simp⟩
    split
    · rename_i he
      have : v.drop chunk.length = [] := by simpa using he
      rw [this, List.append_nil] at hsplit
      simp [hsplit]
    · rename_i hne
      have hrest : v.drop chunk.length ≠ [] := by simpa using hne
      have hvne : v ≠ [] := by intro e; subst e; simp at hrest
      have hvl : 0 < v.length := List.length_pos_iff.mpr hvne
      have hcl : 1 ≤ chunk.length := by rw [← hc]; simp only [List.length_take, maxLineLen]; omega
      have hlen : (v.drop chunk.length).length < v.length := by simp only [List.length_drop]; omega
      have ih := chunks_flatten fuel (i + 1) (v.drop chunk.length) (by omega) (fun j hj => hd j (by omega))
      simp only [List.map_cons, List.flatten_cons, ih.1]
      exact hsplit

/-- **A printable file name is read back, however long.** For every printable-ASCII file name (quotes and backslashes
    included; less than 10^20 octets) an RFC 2231 / RFC 5322 reader of the Content-Disposition value — unfolded, split at
    `;` outside quoted strings, the `filename`, or `filename*0`, `filename*1`, … values unquoted and concatenated — finds
    exactly the name. (Names that need percent-encoding are decided on real output by the same reader.) -/
theorem filename_roundtrip_printable (kind name : Bytes) (hk : Plain kind) (hk32 : ∀ b ∈ kind, b ≠ 32) (hkne : kind ≠ [])
    (hks : ∀ b ∈ kind, b ≠ 34 ∧ b ≠ 59) (hp : asciiPrintable name = true) (hn : name.length < 10 ^ 20) :
    paramDecode filenameKey (HeaderReader.unfold (cdispValue kind name)) = some name := by
  by_cases hfit : 21 + kind.length + 1 + (8 + 2 + name.length + 3) ≤ 76
  · exact filename_roundtrip_short kind name hk hk32 hkne hks hp hfit
  · have hpl : Plain name := by
      intro b hb
      have := (List.all_eq_true.mp hp) b hb
      simp only [Bool.and_eq_true, decide_eq_true_eq] at this
      simp only [printable, Bool.or_eq_true, Bool.and_eq_true, decide_eq_true_eq, beq_iff_eq]
      right; exact this
    have h0 : Inv (⟨[], 21, 0, false⟩ : W) := Or.inl rfl
    have v0 : (⟨[], 21, 0, false⟩ : W).view = [] := by simp [W.view, W.out, W.bytes, HeaderReader.unfold]
    have i1 := writeStr_inv h0 kind hk
    have f1 := writeStr_fields ⟨[], 21, 0, false⟩ kind hk32 hkne
    have n2 := norm_writeCharB i1 59 (by decide) (by decide)
    have f2 := writeStr_fields (W.writeStr ⟨[], 21, 0, false⟩ kind) [59] (by decide) (by decide)
    have l2 : (writeCharB (W.writeStr ⟨[], 21, 0, false⟩ kind) 59).lineLen = 21 + kind.length + 1 := by
      rw [writeCharB_eq _ 59 (by decide), f2.2, f1.2, f1.1]; simp
    have v2 : (writeCharB (W.writeStr ⟨[], 21, 0, false⟩ kind) 59).view = kind ++ [59] := by
      rw [view_writeCharB i1 59 (by decide), view_writeStr h0 kind hk, v0]; simp
    have hdig : ∀ j, j ≤ 0 + name.length → (digits j).length ≤ 20 := by
      intro j hj; exact digits_len 20 j (by omega) (by omega)
    unfold cdispValue
    rw [out_flush]
    generalize (writeCharB (W.writeStr ⟨[], 21, 0, false⟩ kind) 59) = p at n2 l2 v2
    unfold encode
    simp only [hp, if_true]
    have hnofit : ¬ (p.space.lineLen + (filenameKey.length + 2 + name.length + 3) ≤ maxLineLen) := by
      simp only [W.space, l2, key_facts.2.2, maxLineLen]; omega
    simp only [hnofit, if_false]
    have e : ({ p.space.newLine with spaces := 0 } : W) = p.newLine := by simp [W.space, W.newLine, n2.2]
    rw [e]
    have hview := view_plainLoop (name.length + 1) 0 p name ⟨n2.1, n2.2⟩ hpl (by omega) hdig
    have hch := chunks_flatten (name.length + 1) 0 name (by omega) hdig
    have : HeaderReader.unfold (plainLoop filenameKey (name.length + 1) 0 p.newLine name).out =
        kind ++ 59 :: chainOf (chunksP (name.length + 1) 0 name) := by
      have := hview
      rw [W.view] at this
      rw [this, v2]; simp
    rw [this, paramDecode_chain kind hks _ hch.2, hch.1]


/-! ## file names that need encoding: charset and percent-encoding, continued over lines -/

def pctByte (b : Byte) : Bytes := [37, hexDigit (b.toNat / 16), hexDigit (b.toNat % 16)]

/-- `percent_encode_char` as text -/
def pctChar (c : Bytes) : Bytes :=
  match c with
  | [b] => if isAlnum b || isPlus b then [b] else pctByte b
  | _ => c.flatMap pctByte

theorem hexVal_hexDigit : ∀ n : Fin 16, StructuredDec.hexVal (hexDigit n.val) = some n.val := by decide

theorem percentDecode_byte (b : Byte) (r : Bytes) :
    percentDecode (pctByte b ++ r) = (percentDecode r).map (b :: ·) := by
  have h1 := hexVal_hexDigit ⟨b.toNat / 16, by have := b.toNat_lt; omega⟩
  have h2 := hexVal_hexDigit ⟨b.toNat % 16, by omega⟩
  simp only at h1 h2
  simp only [pctByte, List.cons_append, List.nil_append]
  rw [percentDecode.eq_2, h1, h2]
  have : UInt8.ofNat (b.toNat / 16 * 16 + b.toNat % 16) = b := by
    have : b.toNat / 16 * 16 + b.toNat % 16 = b.toNat := by omega
    rw [this]; simp
  cases percentDecode r <;> simp [this]

theorem percentDecode_bytes : ∀ (c r : Bytes), percentDecode (c.flatMap pctByte ++ r) = (percentDecode r).map (c ++ ·)
  | [], r => by simp
  | b :: c, r => by
    simp only [List.flatMap_cons, List.append_assoc]
    rw [percentDecode_byte, percentDecode_bytes c r]
    cases percentDecode r <;> simp

theorem percentDecode_char (c r : Bytes) : percentDecode (pctChar c ++ r) = (percentDecode r).map (c ++ ·) := by
  unfold pctChar
  split
  · rename_i b
    split
    · rename_i ha
      have hb : b ≠ 37 := by intro e; subst e; revert ha; decide
      simp only [List.cons_append, List.nil_append]
      rw [percentDecode.eq_3 _ _ (by intro h l rest e _; exact hb e)]
      simp [hb]
    · have := percentDecode_bytes [b] r
      simpa using this
  · exact percentDecode_bytes c r

theorem takeWhile_drop (p : Byte → Bool) : ∀ (l : Bytes), l.takeWhile p ++ l.drop (l.takeWhile p).length = l
  | [] => rfl
  | x :: xs => by
    by_cases h : p x = true
    · simp [List.takeWhile, h, takeWhile_drop p xs]
    · simp [List.takeWhile, h]

theorem firstChar_split (b : Byte) (r : Bytes) : firstChar (b :: r) ++ (b :: r).drop (firstChar (b :: r)).length = b :: r := by
  simp only [firstChar, List.length_cons, List.drop_succ_cons, List.cons_append]
  rw [takeWhile_drop]

/-- the characters that one line takes (while the line is shorter than 61): (encoded text, the octets it stands for, rest) -/
def lineTxt : Nat → Nat → Bytes → Bytes × Bytes × Bytes
  | 0, _, v => ([], [], v)
  | fuel + 1, l, v =>
    if l < maxLineLen - 15 then
      match v with
      | [] => ([], [], [])
      | _ =>
        let c := firstChar v
        let r := lineTxt fuel (l + (pctChar c).length) (v.drop c.length)
        (pctChar c ++ r.1, c ++ r.2.1, r.2.2)
    else ([], [], v)

theorem lineTxt_spec : ∀ (fuel l : Nat) (v : Bytes),
    (lineTxt fuel l v).2.1 ++ (lineTxt fuel l v).2.2 = v ∧
    percentDecode (lineTxt fuel l v).1 = some (lineTxt fuel l v).2.1
  | 0, _, v => by simp [lineTxt, percentDecode]
  | fuel + 1, l, v => by
    unfold lineTxt
    split
    · cases v with
      | nil => simp [percentDecode]
      | cons b r =>
        simp only
        obtain ⟨h1, h2⟩ := lineTxt_spec fuel (l + (pctChar (firstChar (b :: r))).length) ((b :: r).drop (firstChar (b :: r)).length)
        constructor
        · rw [List.append_assoc, h1]
          exact firstChar_split b r
        · rw [percentDecode_char, h2]; simp
    · simp [percentDecode]


/-- the octets of percent-encoded text: printable, no quote, semicolon, equals sign, apostrophe or blank -/
def tchar (b : Byte) : Prop := b ≠ 34 ∧ b ≠ 59 ∧ b ≠ 61 ∧ b ≠ 39 ∧ b ≠ 32 ∧ b ≠ 9 ∧ b ≠ 13 ∧ printable b = true

instance : DecidablePred tchar := fun b => by unfold tchar; infer_instance

theorem tchar_hex : ∀ n : Fin 16, tchar (hexDigit n.val) := by decide

theorem tchar_alnum (b : Byte) (h : (isAlnum b || isPlus b) = true) : tchar b := by
  have hp := (alnum_printable b h).1
  refine ⟨?_, ?_, ?_, ?_, ?_, ?_, ?_, hp⟩ <;> (intro e; subst e; revert h; decide)

theorem tchar_pctByte (b : Byte) : ∀ x ∈ pctByte b, tchar x := by
  intro x hx
  simp only [pctByte, List.mem_cons, List.not_mem_nil, or_false] at hx
  rcases hx with e | e | e
  · subst e; decide
  · subst e; exact tchar_hex ⟨b.toNat / 16, by have := b.toNat_lt; omega⟩
  · subst e; exact tchar_hex ⟨b.toNat % 16, by omega⟩

theorem tchar_pctChar (c : Bytes) : ∀ x ∈ pctChar c, tchar x := by
  have hflat : ∀ (l : Bytes), ∀ x ∈ l.flatMap pctByte, tchar x := by
    intro l x hx
    obtain ⟨b, _, hb⟩ := List.mem_flatMap.mp hx
    exact tchar_pctByte b x hb
  unfold pctChar
  split
  · rename_i b
    split
    · rename_i ha; intro x hx; simp at hx; rw [hx]; exact tchar_alnum b ha
    · exact tchar_pctByte b
  · exact hflat c

theorem tchar_lineTxt : ∀ (fuel l : Nat) (v : Bytes), ∀ x ∈ (lineTxt fuel l v).1, tchar x
  | 0, _, _ => by simp [lineTxt]
  | fuel + 1, l, v => by
    unfold lineTxt
    split
    · cases v with
      | nil => simp
      | cons b r =>
        intro x hx
        simp only [List.mem_append] at hx
        rcases hx with hx | hx
        · exact tchar_pctChar _ x hx
        · exact tchar_lineTxt fuel _ _ x hx
    · simp

/-- a writer inside a line with nothing pending -/
def Tight (w : W) : Prop := scan .norm w.bytes = some .norm ∧ w.spaces = 0

theorem tight_char {w : W} (h : Tight w) (x : Byte) (hx : tchar x) :
    Tight (writeCharB w x) ∧ (writeCharB w x).view = w.view ++ [x] ∧ (writeCharB w x).lineLen = w.lineLen + 1 := by
  have hi : Inv w := Or.inl h.1
  have hp := hx.2.2.2.2.2.2.2
  have h32 := hx.2.2.2.2.1
  have n := norm_writeCharB hi x hp h32
  refine ⟨⟨n.1, n.2⟩, view_writeCharB hi x hp, ?_⟩
  rw [writeCharB_eq w x h32]
  have f := writeStr_fields w [x] (by intro b hb; simp at hb; subst hb; exact h32) (by simp)
  rw [f.2, h.2]; simp

theorem tight_chars : ∀ (t : Bytes) {w : W}, Tight w → (∀ x ∈ t, tchar x) →
    Tight (t.foldl writeCharB w) ∧ (t.foldl writeCharB w).view = w.view ++ t ∧ (t.foldl writeCharB w).lineLen = w.lineLen + t.length
  | [], _, h, _ => ⟨h, by simp, by simp⟩
  | x :: t, w, h, ht => by
    obtain ⟨a1, a2, a3⟩ := tight_char h x (ht x (by simp))
    obtain ⟨b1, b2, b3⟩ := tight_chars t a1 (fun y hy => ht y (by simp [hy]))
    refine ⟨b1, ?_, ?_⟩
    · simp only [List.foldl_cons]; rw [b2, a2]; simp
    · simp only [List.foldl_cons, List.length_cons]; rw [b3, a3]; omega

theorem percentChar_eq (w : W) (c : Bytes) : percentChar w c = (pctChar c).foldl writeCharB w := by
  have hflat : ∀ (l : Bytes) (w : W),
      l.foldl (fun w b => writeCharB (writeCharB (writeCharB w 37) (hexDigit (b.toNat / 16))) (hexDigit (b.toNat % 16))) w =
        (l.flatMap pctByte).foldl writeCharB w := by
    intro l
    induction l with
    | nil => intro w; rfl
    | cons b l ih => intro w; simp [List.flatMap_cons, List.foldl_append, pctByte, ih]
  match c with
  | [] => rfl
  | [b] =>
    by_cases ha : (isAlnum b || isPlus b) = true
    · simp [percentChar, pctChar, ha]
    · simp [percentChar, pctChar, ha, pctByte]
  | b :: b2 :: r => simpa [percentChar, pctChar] using hflat (b :: b2 :: r) w

theorem view_encLine : ∀ (fuel : Nat) (w : W) (v : Bytes), Tight w →
    Tight (encLine fuel w v).1 ∧ (encLine fuel w v).1.view = w.view ++ (lineTxt fuel w.lineLen v).1 ∧
      (encLine fuel w v).2 = (lineTxt fuel w.lineLen v).2.2
  | 0, w, v, h => by simp [encLine, lineTxt, h]
  | fuel + 1, w, v, h => by
    unfold encLine lineTxt
    split
    · cases v with
      | nil => simp [h]
      | cons b r =>
        simp only
        rw [percentChar_eq]
        obtain ⟨a1, a2, a3⟩ := tight_chars (pctChar (firstChar (b :: r))) h (tchar_pctChar _)
        obtain ⟨b1, b2, b3⟩ := view_encLine fuel _ ((b :: r).drop (firstChar (b :: r)).length) a1
        rw [a3] at b2 b3
        exact ⟨b1, by rw [b2, a2, List.append_assoc], b3⟩
    · simp [h]


def tag : Bytes := [117, 116, 102, 45, 56, 39, 39]

/-- the length of a continuation line before the first percent-encoded character -/
def l0 (i : Nat) : Nat := 12 + (digits i).length + (if i == 0 then 7 else 0)

/-- the unfolded text of one line: ` filename*i*=[utf-8'']text` -/
def segE (x : Nat × Bytes × Bytes) : Bytes :=
  [32] ++ filenameKey ++ [42] ++ digits x.1 ++ [42, 61] ++ (if x.1 == 0 then tag else []) ++ x.2.1

/-- (index, encoded text, the octets it stands for) of every line -/
def chunksE : Nat → Nat → Bytes → List (Nat × Bytes × Bytes)
  | 0, _, _ => []
  | fuel + 1, i, v =>
    (i, (lineTxt (v.length + 1) (l0 i) v).1, (lineTxt (v.length + 1) (l0 i) v).2.1) ::
      (if (lineTxt (v.length + 1) (l0 i) v).2.2.isEmpty then [] else chunksE fuel (i + 1) (lineTxt (v.length + 1) (l0 i) v).2.2)

def chainE : List (Nat × Bytes × Bytes) → Bytes
  | [] => []
  | x :: more => segE x ++ (if more.isEmpty then [] else 59 :: chainE more)

theorem lineTxt_progress : ∀ (fuel l : Nat) (v : Bytes), 1 ≤ fuel → l < maxLineLen - 15 → v ≠ [] →
    (lineTxt fuel l v).2.2.length < v.length
  | 0, _, _, h, _, _ => by omega
  | fuel + 1, l, v, _, hl, hv => by
    unfold lineTxt
    simp only [hl, if_true]
    cases v with
    | nil => exact absurd rfl hv
    | cons b r =>
      have h1 := (lineTxt_spec fuel (l + (pctChar (firstChar (b :: r))).length) ((b :: r).drop (firstChar (b :: r)).length)).1
      have hlen := congrArg List.length h1
      have hc := firstChar_len (b :: r) (by simp)
      simp only [List.length_append, List.length_drop, List.length_cons] at hlen ⊢
      omega

theorem view_encLoop : ∀ (fuel i : Nat) (p : W) (v : Bytes), Pre p → v.length < fuel →
    (∀ j, j ≤ i + v.length → (digits j).length ≤ 20) →
    (encLoop filenameKey fuel i p.newLine v).view = p.view ++ chainE (chunksE fuel i v)
  | 0, _, _, _, _, hf, _ => by omega
  | fuel + 1, i, p, v, hp, hf, hd => by
    have hls := lineStart_of_norm hp.1 hp.2
    obtain ⟨p1, p2, p3⟩ := prefix_state hls i [42, 61] (by intro b hb; revert b; decide) (by decide) (by decide)
    have hdi := hd i (by omega)
    have il := inv_lead hls
    have ik := writeStr_inv il filenameKey plain_key
    have is_ := writeStr_inv ik [42] (by intro b hb; simp at hb; subst hb; decide)
    have id_ := writeStr_inv is_ (digits i) (plain_digits i).1
    have n1 := inv_writeStr id_ [42, 61] (by intro b hb; revert b; decide)
    have v1 : (((((p.newLine.writeStr [32]).writeStr filenameKey).writeStr [42]).writeStr (digits i)).writeStr [42, 61]).view =
        p.view ++ ([32] ++ filenameKey ++ [42] ++ digits i ++ [42, 61]) := by
      rw [view_writeStr id_ _ (by intro b hb; revert b; decide), view_writeStr is_ _ (plain_digits i).1,
        view_writeStr ik _ (by intro b hb; simp at hb; subst hb; decide), view_writeStr il _ plain_key, view_lead hp]
      simp [List.append_assoc]
    unfold encLoop chunksE
    simp only
    generalize hw1 : ((((p.newLine.writeStr [32]).writeStr filenameKey).writeStr [42]).writeStr (digits i)).writeStr [42, 61] = w1 at p1 p2 p3 v1 n1
    -- the charset tag on the first line
    have hw2 : Tight (if (i == 0) = true then w1.writeStr tag else w1) ∧
        (if (i == 0) = true then w1.writeStr tag else w1).view = p.view ++ ([32] ++ filenameKey ++ [42] ++ digits i ++ [42, 61] ++ (if i == 0 then tag else [])) ∧
        (if (i == 0) = true then w1.writeStr tag else w1).lineLen = l0 i := by
      by_cases h0 : (i == 0) = true
      · simp only [h0, if_true]
        have f := writeStr_fields w1 tag (by decide) (by decide)
        refine ⟨⟨inv_writeStr p1 tag (by intro b hb; revert b; decide), f.1⟩, ?_, ?_⟩
        · rw [view_writeStr p1 tag (by intro b hb; revert b; decide), v1]; simp [List.append_assoc]
        · rw [f.2, p2, p3]; simp [l0, h0, tag]; omega
      · simp only [h0, Bool.false_eq_true, if_false]
        exact ⟨⟨n1, p2⟩, by rw [v1]; simp, by rw [p3]; simp [l0, h0]; omega⟩
    have htag : (if (i == 0) = true then w1.writeStr tag else w1) = (if (i == 0) = true then w1.writeStr [117, 116, 102, 45, 56, 39, 39] else w1) := rfl
    rw [← htag]
    generalize (if (i == 0) = true then w1.writeStr tag else w1) = w2 at hw2
    obtain ⟨t2, tv, tl⟩ := hw2
    obtain ⟨e1, e2, e3⟩ := view_encLine (v.length + 1) w2 v t2
    rw [tl] at e2 e3
    generalize hres : encLine (v.length + 1) w2 v = res at e1 e2 e3
    obtain ⟨w3, rest⟩ := res
    simp only at e1 e2 e3 ⊢
    have v3 : w3.view = p.view ++ segE (i, (lineTxt (v.length + 1) (l0 i) v).1, (lineTxt (v.length + 1) (l0 i) v).2.1) := by
      rw [e2, tv]; simp [segE, List.append_assoc]
    rw [← e3]
    split
    · simp only [chainE, List.isEmpty_nil, if_true, List.append_nil]
      exact v3
    · rename_i hne
      have hrest : rest ≠ [] := by simpa using hne
      have hvne : v ≠ [] := by
        intro e; subst e
        rw [e3] at hrest
        unfold lineTxt at hrest
        split at hrest <;> simp at hrest
      have hl0 : l0 i < maxLineLen - 15 := by simp only [l0, maxLineLen]; split <;> omega
      have hlt : rest.length < v.length := by rw [e3]; exact lineTxt_progress _ _ v (by omega) hl0 hvne
      have hi3 : Inv w3 := Or.inl e1.1
      have n4 := norm_writeCharB hi3 59 (by decide) (by decide)
      have ih := view_encLoop fuel (i + 1) (writeCharB w3 59) rest ⟨n4.1, n4.2⟩ (by omega) (fun j hj => hd j (by omega))
      rw [ih, view_writeCharB hi3 59 (by decide), v3]
      have hnext : chunksE fuel (i + 1) rest ≠ [] := by
        cases fuel with
        | zero => omega
        | succ f => simp [chunksE]
      have hie : (chunksE fuel (i + 1) rest).isEmpty = false := by
        cases h : chunksE fuel (i + 1) rest with
        | nil => exact absurd h hnext
        | cons _ _ => rfl
      simp [chainE, hie, List.append_assoc]


theorem segE_chars (x : Nat × Bytes × Bytes) (ht : ∀ b ∈ x.2.1, tchar b) :
    ∀ b ∈ ([32] ++ filenameKey ++ [42] ++ digits x.1 ++ [42, 61] ++ (if x.1 == 0 then tag else []) ++ x.2.1 : Bytes), b ≠ 34 ∧ b ≠ 59 := by
  intro b hb
  simp only [List.mem_append, List.mem_singleton] at hb
  rcases hb with ((((( hb | hb) | hb) | hb) | hb) | hb) | hb
  · subst hb; decide
  · revert b; decide
  · subst hb; decide
  · have := digits_chars x.1 b hb
    constructor <;> (intro e; subst e; simp at this)
  · revert b; decide
  · split at hb
    · revert b; decide
    · simp at hb
  · exact ⟨(ht b hb).1, (ht b hb).2.1⟩

theorem splitParams_chainE : ∀ (L : List (Nat × Bytes × Bytes)), L ≠ [] → (∀ x ∈ L, ∀ b ∈ x.2.1, tchar b) →
    splitParams (chainE L) [] false = L.map segE
  | [], h, _ => absurd rfl h
  | x :: more, _, ht => by
    have hx := segE_chars x (ht x (by simp))
    cases more with
    | nil =>
      simp only [chainE, List.isEmpty_nil, if_true, List.append_nil, List.map_cons, List.map_nil]
      have := splitParams_run (segE x) [] [] hx
      simp only [List.append_nil] at this
      rw [this]; simp [splitParams]
    | cons x2 more2 =>
      have ih := splitParams_chainE (x2 :: more2) (by simp) (fun y hy => ht y (by simp [hy]))
      have hstep : chainE (x :: x2 :: more2) = segE x ++ 59 :: chainE (x2 :: more2) := by simp [chainE]
      rw [hstep, splitParams_run (segE x) _ [] hx, splitParams.eq_4, ih]
      simp

theorem trimWs_all (s : Bytes) (h : ∀ b ∈ s, nws b) : trimWs s = s :=
  trimWs_id s (fun x hx => h x (List.mem_of_mem_head? hx)) (fun x hx => h x (List.mem_of_getLast? hx))

instance : DecidablePred nws := fun b => by unfold nws; infer_instance

/-- a segment `key suffix = value` whose value is not a quoted string -/
theorem segment_raw (sfx val : Bytes) (hs61 : ∀ b ∈ sfx, b ≠ 61) (hsn : ∀ b ∈ sfx, nws b)
    (hsall : sfx.all (fun b => b == 42 || (48 ≤ b.toNat && b.toNat ≤ 57)) = true)
    (hval : ∀ b ∈ val, b ≠ 34 ∧ nws b) :
    segment filenameKey (32 :: (filenameKey ++ sfx ++ 61 :: val)) = some (sfx.getLast? == some 42 && !sfx.isEmpty, val) := by
  have hk61 : ∀ b ∈ filenameKey ++ sfx, b ≠ 61 := by
    intro b hb
    rcases List.mem_append.mp hb with hb | hb
    · have : ∀ x ∈ filenameKey, x ≠ 61 := by decide
      exact this b hb
    · exact hs61 b hb
  have hnws : ∀ b ∈ filenameKey ++ sfx ++ 61 :: val, nws b := by
    intro b hb
    simp only [List.mem_append, List.mem_cons] at hb
    rcases hb with (hb | hb) | hb | hb
    · have : ∀ x ∈ filenameKey, nws x := by decide
      exact this b hb
    · exact hsn b hb
    · subst hb; decide
    · exact (hval b hb).2
  have ht : trimWs (32 :: (filenameKey ++ sfx ++ 61 :: val)) = (filenameKey ++ sfx) ++ 61 :: val := by
    rw [trimWs_lead]; exact trimWs_all _ hnws
  unfold segment
  simp only [ht, takeWhile_key (filenameKey ++ sfx) _ hk61]
  have hd : (((filenameKey ++ sfx) ++ 61 :: val).drop (filenameKey ++ sfx).length).drop 1 = val := by simp
  have hpre : filenameKey.isPrefixOf (filenameKey ++ sfx) = true := by simp
  have hsuf : (filenameKey ++ sfx).drop filenameKey.length = sfx := by simp
  simp only [hd, hpre, hsuf, hsall, Bool.not_true, Bool.false_eq_true, if_false]
  match val, hval with
  | [], _ => simp
  | b :: r, hval =>
    have hb : b ≠ 34 := (hval b (by simp)).1
    split
    · rename_i rest e; injection e with e _; exact absurd e hb
    · simp

theorem segment_enc (x : Nat × Bytes × Bytes) (ht : ∀ b ∈ x.2.1, tchar b) :
    segment filenameKey (segE x) = some (true, (if x.1 == 0 then tag else []) ++ x.2.1) := by
  obtain ⟨i, t, cs⟩ := x
  simp only at ht ⊢
  have hdig := digits_chars i
  have h := segment_raw ([42] ++ digits i ++ [42]) ((if i == 0 then tag else []) ++ t)
    (by
      intro b hb
      simp only [List.mem_append, List.mem_singleton] at hb
      rcases hb with (hb | hb) | hb
      · subst hb; decide
      · have := hdig b hb; intro e; subst e; simp at this
      · subst hb; decide)
    (by
      intro b hb
      simp only [List.mem_append, List.mem_singleton] at hb
      rcases hb with (hb | hb) | hb
      · subst hb; decide
      · have := hdig b hb
        simp only [nws, Bool.or_eq_false_iff, beq_eq_false_iff_ne]
        constructor <;> (intro e; subst e; simp at this)
      · subst hb; decide)
    (by
      rw [List.all_eq_true]
      intro b hb
      simp only [List.mem_append, List.mem_singleton] at hb
      rcases hb with (hb | hb) | hb
      · subst hb; decide
      · have := hdig b hb; simp [this.1, this.2]
      · subst hb; decide)
    (by
      intro b hb
      simp only [List.mem_append] at hb
      rcases hb with hb | hb
      · split at hb
        · revert b; decide
        · simp at hb
      · have := ht b hb
        exact ⟨this.1, by simp [nws, this.2.2.2.2.1, this.2.2.2.2.2.1]⟩)
  have hform : segE (i, t, cs) = 32 :: (filenameKey ++ ([42] ++ digits i ++ [42]) ++ 61 :: ((if i == 0 then tag else []) ++ t)) := by
    simp [segE, List.append_assoc]
  have hlast : (([42] ++ digits i ++ [42]).getLast? == some 42 && !([42] ++ digits i ++ [42]).isEmpty) = true := by
    rw [List.getLast?_append]; simp
  rw [hform, h, hlast]


theorem dropWhile_none (t : Bytes) (h : ∀ b ∈ t, b ≠ 39) : t.dropWhile (· != 39) = [] := by
  induction t with
  | nil => rfl
  | cons b t ih =>
    have hb : (b != 39) = true := by simpa using h b (by simp)
    simp [List.dropWhile, hb, ih (fun x hx => h x (by simp [hx]))]

/-- the charset and language prefix of the first segment is removed -/
theorem strip_tag (t : Bytes) :
    ((((tag ++ t).dropWhile (· != 39)).drop 1).dropWhile (· != 39)).drop 1 = t := by
  simp [tag, List.dropWhile]

theorem go_rest : ∀ (M : List (Bytes × Bytes)), (∀ x ∈ M, percentDecode x.1 = some x.2) →
    paramDecode.go false (M.map fun x => (true, x.1)) = some (M.map (·.2)).flatten
  | [], _ => by simp [paramDecode.go]
  | x :: M, h => by
    have hx := h x (by simp)
    have ih := go_rest M (fun y hy => h y (by simp [hy]))
    simp [paramDecode.go, hx, ih]

theorem chunksE_facts : ∀ (fuel i : Nat) (v : Bytes), v.length < fuel →
    (∀ j, j ≤ i + v.length → (digits j).length ≤ 20) →
    chunksE fuel i v ≠ [] ∧ ((chunksE fuel i v).map (·.2.2)).flatten = v ∧
    (∀ x ∈ chunksE fuel i v, (∀ b ∈ x.2.1, tchar b) ∧ percentDecode x.2.1 = some x.2.2 ∧ i ≤ x.1) ∧
    (∃ x more, chunksE fuel i v = x :: more ∧ x.1 = i ∧ ∀ y ∈ more, i < y.1)
  | 0, _, _, h, _ => by omega
  | fuel + 1, i, v, hf, hd => by
    have hdi := hd i (by omega)
    have hspec := lineTxt_spec (v.length + 1) (l0 i) v
    have htc := tchar_lineTxt (v.length + 1) (l0 i) v
    unfold chunksE
    split
    · rename_i he
      have hr : (lineTxt (v.length + 1) (l0 i) v).2.2 = [] := by simpa using he
      have h1 := hspec.1
      rw [hr, List.append_nil] at h1
      refine ⟨by simp, by simp [h1], ?_, ⟨_, [], rfl, rfl, by intro y hy; simp at hy⟩⟩
      intro x hx
      simp only [List.mem_singleton] at hx
      subst hx
      exact ⟨htc, hspec.2, Nat.le_refl _⟩
    · rename_i hne
      have hrest : (lineTxt (v.length + 1) (l0 i) v).2.2 ≠ [] := by simpa using hne
      have hvne : v ≠ [] := by
        intro e; subst e
        unfold lineTxt at hrest
        split at hrest <;> simp at hrest
      have hl0 : l0 i < maxLineLen - 15 := by simp only [l0, maxLineLen]; split <;> omega
      have hlt := lineTxt_progress (v.length + 1) (l0 i) v (by omega) hl0 hvne
      obtain ⟨a1, a2, a3, ⟨x0, more0, a4, a5, a6⟩⟩ := chunksE_facts fuel (i + 1) (lineTxt (v.length + 1) (l0 i) v).2.2 (by omega)
        (fun j hj => hd j (by omega))
      refine ⟨by simp, ?_, ?_, ⟨_, _, rfl, rfl, ?_⟩⟩
      · simp only [List.map_cons, List.flatten_cons, a2]; exact hspec.1
      · intro x hx
        rcases List.mem_cons.mp hx with e | e
        · subst e; exact ⟨htc, hspec.2, Nat.le_refl _⟩
        · have := a3 x e
          exact ⟨this.1, this.2.1, by omega⟩
      · intro y hy
        have := (a3 y hy).2.2
        omega

/-- the reader on the unfolded value of an encoded file name -/
theorem paramDecode_chainE (kind : Bytes) (hks : ∀ b ∈ kind, b ≠ 34 ∧ b ≠ 59) (x0 : Nat × Bytes × Bytes)
    (more : List (Nat × Bytes × Bytes)) (h0 : x0.1 = 0) (hmore : ∀ y ∈ more, 0 < y.1)
    (hfacts : ∀ x ∈ x0 :: more, (∀ b ∈ x.2.1, tchar b) ∧ percentDecode x.2.1 = some x.2.2) :
    paramDecode filenameKey (kind ++ 59 :: chainE (x0 :: more)) = some (((x0 :: more).map (·.2.2)).flatten) := by
  have hsplit : splitParams (kind ++ 59 :: chainE (x0 :: more)) [] false = kind :: (x0 :: more).map segE := by
    rw [splitParams_run kind _ [] hks, splitParams.eq_4, splitParams_chainE (x0 :: more) (by simp) (fun x hx => (hfacts x hx).1)]
    simp
  have hfm : ∀ (M : List (Nat × Bytes × Bytes)), (∀ x ∈ M, ∀ b ∈ x.2.1, tchar b) →
      (M.map segE).filterMap (segment filenameKey) = M.map (fun x => (true, (if x.1 == 0 then tag else []) ++ x.2.1)) := by
    intro M
    induction M with
    | nil => intro _; rfl
    | cons x M ih =>
      intro hM
      simp only [List.map_cons, List.filterMap_cons, segment_enc x (hM x (by simp)), ih (fun y hy => hM y (by simp [hy]))]
  have hmore' : more.map (fun x => ((true, (if x.1 == 0 then tag else []) ++ x.2.1) : Bool × Bytes)) =
      (more.map fun x => (x.2.1, x.2.2)).map fun x => (true, x.1) := by
    rw [List.map_map]
    apply List.map_congr_left
    intro y hy
    have : (y.1 == 0) = false := by have := hmore y hy; simp; omega
    simp [this]
  unfold paramDecode
  simp only [hsplit, List.drop_one, List.tail_cons]
  rw [hfm (x0 :: more) (fun x hx => (hfacts x hx).1)]
  simp only [List.map_cons, List.isEmpty_cons, Bool.false_eq_true, if_false]
  have hx0 : (x0.1 == 0) = true := by simp [h0]
  rw [hmore', hx0]
  simp only [if_true]
  have hrest := go_rest (more.map fun x => (x.2.1, x.2.2)) (by
    intro x hx
    obtain ⟨y, hy, e⟩ := List.mem_map.mp hx
    subst e
    exact (hfacts y (by simp [hy])).2)
  have hd0 := (hfacts x0 (by simp)).2
  simp only [paramDecode.go, Bool.and_self, if_true, strip_tag, hd0, hrest]
  simp only [List.map_map, List.map_cons, List.flatten_cons]
  rfl


/-- **Every file name is read back.** For every file name (any Rust string of less than 10^20 octets: printable or not,
    quotes, backslashes, CR, LF, NUL, any Unicode) and every `kind` that is printable without blank, quote or semicolon:
    an RFC 2231 / RFC 5322 reader of the Content-Disposition value that `ContentDisposition::with_name` writes — unfold,
    split at `;` outside quoted strings, take `filename` / `filename*N` / `filename*N*`, unquote or percent-decode, strip
    the charset prefix of the first extended segment, concatenate — finds exactly the name. -/
theorem filename_roundtrip (kind name : Bytes) (hk : Plain kind) (hk32 : ∀ b ∈ kind, b ≠ 32) (hkne : kind ≠ [])
    (hks : ∀ b ∈ kind, b ≠ 34 ∧ b ≠ 59) (hn : name.length < 10 ^ 20) :
    paramDecode filenameKey (HeaderReader.unfold (cdispValue kind name)) = some name := by
  by_cases hp : asciiPrintable name = true
  · exact filename_roundtrip_printable kind name hk hk32 hkne hks hp hn
  · have h0 : Inv (⟨[], 21, 0, false⟩ : W) := Or.inl rfl
    have v0 : (⟨[], 21, 0, false⟩ : W).view = [] := by simp [W.view, W.out, W.bytes, HeaderReader.unfold]
    have i1 := writeStr_inv h0 kind hk
    have n2 := norm_writeCharB i1 59 (by decide) (by decide)
    have v2 : (writeCharB (W.writeStr ⟨[], 21, 0, false⟩ kind) 59).view = kind ++ [59] := by
      rw [view_writeCharB i1 59 (by decide), view_writeStr h0 kind hk, v0]; simp
    have hdig : ∀ j, j ≤ 0 + name.length → (digits j).length ≤ 20 := by
      intro j hj; exact digits_len 20 j (by omega) (by omega)
    unfold cdispValue
    rw [out_flush]
    generalize (writeCharB (W.writeStr ⟨[], 21, 0, false⟩ kind) 59) = p at n2 v2
    unfold encode
    simp only [hp, Bool.false_eq_true, if_false]
    have e : ({ p.space.newLine with spaces := 0 } : W) = p.newLine := by simp [W.space, W.newLine, n2.2]
    rw [e]
    have hview := view_encLoop (name.length + 1) 0 p name ⟨n2.1, n2.2⟩ (by omega) hdig
    obtain ⟨c1, c2, c3, ⟨x0, more, c4, c5, c6⟩⟩ := chunksE_facts (name.length + 1) 0 name (by omega) hdig
    have : HeaderReader.unfold (encLoop filenameKey (name.length + 1) 0 p.newLine name).out =
        kind ++ 59 :: chainE (x0 :: more) := by
      have := hview
      rw [W.view] at this
      rw [this, v2, c4]; simp
    rw [this, paramDecode_chainE kind hks x0 more c5 c6 (by
      intro x hx
      have := c3 x (by rw [c4]; exact hx)
      exact ⟨this.1, this.2.1⟩)]
    rw [← c4, c2]

end LV.Rfc2231Enc
