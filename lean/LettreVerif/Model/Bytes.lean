/-!
# Octet strings and the hex line protocol

Model files import nothing outside Lean core so that the driver links as a native executable.
-/
namespace LV

abbrev Byte := UInt8
abbrev Bytes := List UInt8

def str (s : String) : Bytes := s.toUTF8.data.toList

def CRLF : Bytes := [13, 10]

def hexDigit (n : Nat) : Char :=
  if n < 10 then Char.ofNat (48 + n) else Char.ofNat (87 + n)

def toHex (bs : Bytes) : String :=
  String.ofList (bs.foldr (fun b acc => hexDigit (b.toNat / 16) :: hexDigit (b.toNat % 16) :: acc) [])

def hexVal (c : Char) : Option Nat :=
  if '0' ≤ c ∧ c ≤ '9' then some (c.toNat - 48)
  else if 'a' ≤ c ∧ c ≤ 'f' then some (c.toNat - 87)
  else if 'A' ≤ c ∧ c ≤ 'F' then some (c.toNat - 55)
  else none

def ofHexChars : List Char → Option Bytes
  | [] => some []
  | a :: b :: r => do
    let x ← hexVal a
    let y ← hexVal b
    let rest ← ofHexChars r
    some (UInt8.ofNat (x * 16 + y) :: rest)
  | _ => none

/-- hex field; the single character `-` denotes the empty string (an empty field would be
    lost when a line is trimmed) -/
def ofHex (s : String) : Option Bytes :=
  if s == "-" then some [] else ofHexChars s.toList

def toHexField (bs : Bytes) : String := if bs.isEmpty then "-" else toHex bs

end LV
