"""C12 — Header text survives encoding: a conforming reader recovers the exact string."""
from tools import hdrgen
from tools.props import c02
from tools.lv import hexs, unhex

LEVEL = "proof"
CORRESPONDENCE = c02.CORRESPONDENCE
RULE = ("hvalrt: as C02's hval (names of every length 1..76, 1-4 byte code points at every offset against the fold column and the base64 "
        "groups, runs of spaces and tabs, words of 1..200 characters, mixtures of words that need encoding and words that do not, literal "
        "'=?...?=' tokens, quotes / backslashes / parentheses, up to 64 KiB); the oracle unfolds the real encoded value and decodes it "
        "per RFC 2047 and requires the input string back. Non-trivial = the value needs encoding or folding or has repeated / trailing "
        "white space; distinct = distinct case lines.")
TRUSTED_BASE = c02.TRUSTED_BASE + ["Spec/Rfc2047Dec.lean as the reading of RFC 2047 (encoded-word shape, white space between encoded-words)"]
ASSUMPTIONS = c02.ASSUMPTIONS
EXHAUSTIVE_PARTS = ["every name length 1..76 x two fixed mixed texts", "every offset 0..79 x {1,2,3,4}-byte character x 3 layouts"]


def gen(tier, rng):
    n = {"quick": 5000, "search": 20000, "thorough": 100000}[tier]
    from tools import mboxgen
    # display names in structured fields (phrase / quoted-string / encoded-word readers of the C17 driver)
    names = mboxgen.mbox_cases(rng, {"quick": 300, "search": 1000, "thorough": 6000}[tier])
    # the typed text headers through their own display(): what the reader recovers is the text, also for short printable
    # texts and for texts that look like encoded-words
    sels = ["subject", "subject-builder", "comments", "keywords", "in-reply-to", "references", "message-id", "user-agent", "content-id", "content-location"]
    typed = []
    looks = ["=?utf-8?b?aGk=?=", "=?utf-8?q?x?=", "=?UTF-8?B?w6k=?=", "a =?utf-8?b?aGk=?= b", "=?utf-8?b?aGk=?= =?utf-8?b?aGk=?=", "=?x?q?=41?=", "plain", "two words",
             "é", "é \t é", "é  é", "a\tb", "=?", "?=", "=?utf-8?b??=", "x=?utf-8?b?aGk=?=", "=?utf-8?b?aGk=?=x",
             "Re: ", "trailing blanks  ", "Grüße  ", "tab at the end\t", " leading blank", "  é"]
    for sel in sels:
        for t in looks:
            typed.append(f"typed\ttext\t{hexs(t)}\t{sel}")
    for _ in range({"quick": 300, "search": 1000, "thorough": 6000}[tier]):
        t = hdrgen.text(rng, 6)
        if rng.random() < 0.3:
            t = t[:58]
        if t:
            typed.append(f"typed\ttext\t{hexs(t)}\t{rng.choice(sels)}")
    # file names through `Attachment::new(name).body(..)` (inside a multipart): the name a reader decodes is the name given
    from tools.props import c11 as _c11
    att = [f"mime\tM m - 1 A {hexs(nm)} {hexs('application/octet-stream')} {hexs(b'data')}" for nm in _c11.ATT_NAMES]
    return names + typed + att + hdrgen.hval_cases(rng, n, op="hvalrt") + hdrgen.cdisp_cases(rng, {"quick": 200, "search": 1000, "thorough": 5000}[tier])


nontrivial = c02.nontrivial


def shrinkable(case):
    if case.startswith("mime"):
        return []
    return [3] if case.startswith("typed") else [1] if case.startswith("mbox") else [2]


def distribution(cases):
    d = {"needs_encoding": 0, "plain": 0, "with_double_space": 0, "with_encoded_word_lookalike": 0}
    for c in cases:
        if c.startswith("typed\ttext"):
            d["typed_text_header"] = d.get("typed_text_header", 0) + 1
            continue
        if c.startswith("typed"):
            d["content_disposition"] = d.get("content_disposition", 0) + 1
            continue
        if c.startswith("mbox"):
            d["display_name"] = d.get("display_name", 0) + 1
            continue
        if c.startswith("mime"):
            d["attachment_file_name"] = d.get("attachment_file_name", 0) + 1
            continue
        v = unhex(c.split("\t")[2])
        d["needs_encoding" if any(b > 126 or b < 32 for b in v) else "plain"] += 1
        if b"  " in v:
            d["with_double_space"] += 1
        if b"=?" in v:
            d["with_encoded_word_lookalike"] += 1
    return d


FINDING_CLASSES = c02.FINDING_CLASSES
