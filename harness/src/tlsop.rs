//! `tls`: the real `SmtpTransport` / `AsyncSmtpTransport` (TLS mode dispatch, STARTTLS,
//! authentication after TLS) against a scripted peer that can switch to TLS with a fixture
//! certificate. Records what the client wrote in clear and what it wrote inside TLS.
use crate::client::describe;
use crate::server::*;
use crate::util::*;
use lettre::address::Envelope;
use lettre::transport::smtp::authentication::Credentials;
use lettre::transport::smtp::client::{Certificate, CertificateStore, Tls, TlsParameters};
use lettre::transport::smtp::extension::ClientId;
use lettre::transport::smtp::PoolConfig;
use lettre::{AsyncSmtpTransport, AsyncTransport, SmtpTransport, Tokio1Executor, Transport};
use std::io::{Read, Write};
use std::net::TcpStream;
use std::time::Duration;

pub const FIX: &str = "/verif/fixtures";

impl Peer for native_tls::TlsStream<TcpStream> {
    fn stop_sending(&mut self) {
        let _ = self.shutdown();
    }
    fn pending(&mut self) -> bool {
        false
    }
}

fn identity(kind: &str) -> Option<native_tls::Identity> {
    let name = match kind {
        "g" => "good",
        "w" => "wrongname",
        "s" => "selfsigned",
        "e" => "expired",
        _ => return None,
    };
    let pem = std::fs::read(format!("{FIX}/{name}.pem")).ok()?;
    let key = std::fs::read(format!("{FIX}/{name}.p8")).ok()?;
    native_tls::Identity::from_pkcs8(&pem, &key).ok()
}

pub struct TlsRecord {
    pub clear: Record,
    pub tls: Record,
    pub handshake: &'static str,
}

/// one connection: clear script (unless `wrapper`), then TLS script after a positive STARTTLS
pub fn serve_tls(listener: std::net::TcpListener, clear: Vec<Step>, tls: Vec<Step>, ident: native_tls::Identity, wrapper: bool) -> TlsRecord {
    let mut out = TlsRecord { clear: Record::default(), tls: Record::default(), handshake: "none" };
    let Ok((mut s, _)) = listener.accept() else { return out };
    s.set_nodelay(true).ok();
    s.set_read_timeout(Some(Duration::from_secs(8))).ok();
    if !wrapper {
        if serve_stream(&mut s, &clear, true, true, &mut out.clear) != Stop::StartTls {
            return out;
        }
        // a TLS ClientHello starts with a handshake record (0x16); anything else is still SMTP in clear
        let mut first = [0u8; 1];
        match s.peek(&mut first) {
            Ok(1) if first[0] == 0x16 => {}
            Ok(0) | Err(_) => return out,
            _ => {
                let done = out.clear.steps_sent;
                let mut more = Record::default();
                serve_stream(&mut s, &clear[done.min(clear.len())..], false, false, &mut more);
                out.clear.units.extend(more.units);
                out.clear.early.extend(more.early);
                out.clear.tail = more.tail;
                return out;
            }
        }
    }
    let acceptor = native_tls::TlsAcceptor::new(ident).unwrap();
    match acceptor.accept(s) {
        Ok(mut t) => {
            out.handshake = "ok";
            serve_stream(&mut t, &tls, wrapper, false, &mut out.tls);
        }
        Err(native_tls::HandshakeError::Failure(_)) => out.handshake = "failed",
        Err(_) => out.handshake = "failed",
    }
    out
}

/// flags: `<add root 0|1|2><store none><accept invalid certs><accept invalid hostnames>[<platform trusts the test CA>]`
/// (add root 2 = a root that signed nothing; the fifth flag points OpenSSL's default verify file at the test CA while
/// the connector is built)
fn tls_params(flags: &str) -> Option<TlsParameters> {
    let c: Vec<char> = flags.chars().collect();
    let b: Vec<bool> = c.iter().map(|c| *c == '1').collect();
    let (store_none, aic, aih) = (*b.get(1)?, *b.get(2)?, *b.get(3)?);
    let platform = b.get(4).copied().unwrap_or(false);
    let mut builder = TlsParameters::builder("smtp.example.test".into());
    if store_none {
        builder = builder.certificate_store(CertificateStore::None);
    }
    match c.first()? {
        '1' => {
            let ca = std::fs::read(format!("{FIX}/ca.pem")).ok()?;
            builder = builder.add_root_certificate(Certificate::from_pem(&ca).ok()?);
        }
        '2' => {
            let ca = std::fs::read(format!("{FIX}/ca2.pem")).ok()?;
            builder = builder.add_root_certificate(Certificate::from_pem(&ca).ok()?);
        }
        _ => {}
    }
    builder = builder.dangerous_accept_invalid_certs(aic).dangerous_accept_invalid_hostnames(aih);
    let saved = std::env::var_os("SSL_CERT_FILE");
    if platform {
        std::env::set_var("SSL_CERT_FILE", format!("{FIX}/ca.pem"));
    }
    let built = builder.build_native().ok();
    match saved {
        Some(v) => std::env::set_var("SSL_CERT_FILE", v),
        None => std::env::remove_var("SSL_CERT_FILE"),
    }
    built
}

/// `tls <client s|a> <mode n|o|r|w> <cert g|w|s|e> <flags abcd> <mechs|-> <user> <pass> <msg> <clear script> <tls script>`
pub fn tls(args: &[&str]) -> Option<Vec<String>> {
    let client = *args.first()?;
    let mode = *args.get(1)?;
    let cert = *args.get(2)?;
    let flags = *args.get(3)?;
    let mechs_s = *args.get(4)?;
    let user = unhex_str(args.get(5)?)?;
    let pass = unhex_str(args.get(6)?)?;
    let msg = unhex(args.get(7)?)?;
    let clear = parse_script(args.get(8)?)?;
    let tlss = parse_script(args.get(9)?)?;
    let ident = identity(cert)?;
    let params = tls_params(flags)?;
    let tlscfg = match mode {
        "n" => Tls::None,
        "o" => Tls::Opportunistic(params),
        "r" => Tls::Required(params),
        "w" => Tls::Wrapper(params),
        _ => return None,
    };
    let (listener, port) = listen()?;
    let wrapper = mode == "w";
    let server = std::thread::spawn(move || serve_tls(listener, clear, tlss, ident, wrapper));
    let env = Envelope::new(Some("a@b.c".parse().ok()?), vec!["x@y.z".parse().ok()?]).ok()?;
    let hello = ClientId::Domain("c.example".into());
    // an upper-case client letter: the transport is built with `.timeout(None)`
    let io_timeout = if client.chars().all(|c| c.is_ascii_uppercase()) { None } else { Some(Duration::from_secs(3)) };
    let result = match client.to_ascii_lowercase().as_str() {
        "s" => {
            let mut b = SmtpTransport::builder_dangerous(crate::util::lo())
                .port(port)
                .hello_name(hello)
                .timeout(io_timeout)
                .tls(tlscfg)
                .pool_config(PoolConfig::new().max_size(1));
            if mechs_s != "-" {
                b = b.credentials(Credentials::new(user.clone(), pass.clone())).authentication(crate::client::mechs(mechs_s)?);
            }
            let t = b.build();
            let r = t.send_raw(&env, &msg);
            let d = describe(&r);
            drop(t);
            d
        }
        "a" => {
            let rt = tokio::runtime::Builder::new_multi_thread().worker_threads(2).enable_all().build().ok()?;
            rt.block_on(async {
                let mut b = AsyncSmtpTransport::<Tokio1Executor>::builder_dangerous(crate::util::lo())
                    .port(port)
                    .hello_name(hello)
                    .timeout(io_timeout)
                    .tls(tlscfg)
                    .pool_config(PoolConfig::new().max_size(1));
                if mechs_s != "-" {
                    b = b.credentials(Credentials::new(user.clone(), pass.clone())).authentication(crate::client::mechs(mechs_s)?);
                }
                let t: AsyncSmtpTransport<Tokio1Executor> = b.build();
                let r = match tokio::time::timeout(Duration::from_secs(6), t.send_raw(&env, &msg)).await {
                    Ok(r) => describe(&r),
                    Err(_) => "TIMEOUT".to_string(),
                };
                t.shutdown().await;
                drop(t);
                Some(r)
            })?
        }
        _ => return None,
    };
    let rec = server.join().ok()?;
    Some(vec![
        result,
        rec.handshake.to_string(),
        hex_list(&rec.clear.units),
        hex(&rec.clear.tail),
        hex_list(&rec.tls.units),
    ])
}

#[allow(dead_code)]
fn _unused(_: &mut dyn Read, _: &mut dyn Write) {}


/// `ctor <kind> [<arg>]`: what the convenience constructors configure, read off the builder's Debug text: port, TLS mode,
/// server. Kinds: `relay`, `starttls`, `localhost`, `url` (argument: the connection URL), each for the sync and the tokio
/// transport; `mech`: `Mechanism::supports_initial_response`.
pub fn ctor(args: &[&str]) -> Option<Vec<String>> {
    use lettre::transport::smtp::authentication::Mechanism;
    let kind = *args.first()?;
    let arg = if kind != "poolcfg" && args.len() > 1 && args[1] != "-" { unhex_str(args[1])? } else { String::new() };
    fn facts(dbg: &str) -> String {
        let port = dbg.split("port: ").nth(1).and_then(|s| s.split(|c: char| !c.is_ascii_digit()).next()).unwrap_or("?").to_string();
        let tls = dbg.split("tls: ").nth(1).and_then(|s| s.split(|c: char| !c.is_ascii_alphabetic()).next()).unwrap_or("?").to_string();
        let server = dbg.split("server: \"").nth(1).and_then(|s| s.split('"').next()).unwrap_or("?").to_string();
        format!("{port},{tls},{}", hex(server.as_bytes()))
    }
    let r = |x: Result<String, ()>| x.unwrap_or_else(|_| "err".to_string());
    Some(match kind {
        "relay" => vec![
            r(SmtpTransport::relay(&arg).map(|b| facts(&format!("{b:?}"))).map_err(|_| ())),
            r(AsyncSmtpTransport::<Tokio1Executor>::relay(&arg).map(|b| facts(&format!("{b:?}"))).map_err(|_| ())),
        ],
        "starttls" => vec![
            r(SmtpTransport::starttls_relay(&arg).map(|b| facts(&format!("{b:?}"))).map_err(|_| ())),
            r(AsyncSmtpTransport::<Tokio1Executor>::starttls_relay(&arg).map(|b| facts(&format!("{b:?}"))).map_err(|_| ())),
        ],
        // `poolcfg <min_idle> <max_size>`: the two setters in both orders; reports `min,max` as the Debug text shows them
        "poolcfg" => {
            let a: u32 = args.get(1)?.parse().ok()?;
            let b: u32 = args.get(2)?.parse().ok()?;
            let read = |dbg: String| -> String {
                let num = |key: &str| -> String {
                    dbg.split(key).nth(1).map(|t| t.chars().take_while(|c| c.is_ascii_digit()).collect::<String>()).unwrap_or_default()
                };
                format!("{},{}", num("min_idle: "), num("max_size: "))
            };
            vec![
                read(format!("{:?}", PoolConfig::new().min_idle(a).max_size(b))),
                read(format!("{:?}", PoolConfig::new().max_size(b).min_idle(a))),
            ]
        }
        "localhost" => {
            let rt = tokio::runtime::Builder::new_current_thread().enable_all().build().ok()?;
            let a = {
                let _g = rt.enter();
                format!("{:?}", AsyncSmtpTransport::<Tokio1Executor>::unencrypted_localhost())
            };
            // the transports' own Debug does not show the configuration: the builders are what `unencrypted_localhost` is defined by
            let _ = a;
            vec![
                facts(&format!("{:?}", SmtpTransport::builder_dangerous("localhost"))),
                facts(&format!("{:?}", AsyncSmtpTransport::<Tokio1Executor>::builder_dangerous("localhost"))),
            ]
        }
        "url" => vec![
            r(SmtpTransport::from_url(&arg).map(|b| facts(&format!("{b:?}"))).map_err(|_| ())),
            r(AsyncSmtpTransport::<Tokio1Executor>::from_url(&arg).map(|b| facts(&format!("{b:?}"))).map_err(|_| ())),
        ],
        "mech" => vec![format!(
            "{}{}{}",
            Mechanism::Plain.supports_initial_response() as u8,
            Mechanism::Login.supports_initial_response() as u8,
            Mechanism::Xoauth2.supports_initial_response() as u8
        )],
        _ => return None,
    })
}

// ---------------------------------------------------------------------------------------------------------------------
// `tstall`: a peer that stops responding around the TLS layer (C20)

use std::sync::atomic::{AtomicBool, Ordering};
use std::sync::Arc;

/// keep the connection open without saying anything, until the run is over or the client closes
fn hold<S: Read>(s: &mut S, done: &AtomicBool) {
    let mut buf = [0u8; 4096];
    let t0 = std::time::Instant::now();
    while !done.load(Ordering::SeqCst) && t0.elapsed() < Duration::from_secs(30) {
        match s.read(&mut buf) {
            Ok(0) => break,
            Ok(_) => {}
            Err(e) if matches!(e.kind(), std::io::ErrorKind::WouldBlock | std::io::ErrorKind::TimedOut) => {}
            Err(_) => break,
        }
    }
}

fn read_line_from<S: Read>(s: &mut S, done: &AtomicBool) -> Option<String> {
    let mut line = Vec::new();
    let mut b = [0u8; 1];
    let t0 = std::time::Instant::now();
    loop {
        if done.load(Ordering::SeqCst) || t0.elapsed() > Duration::from_secs(30) {
            return None;
        }
        match s.read(&mut b) {
            Ok(0) => return None,
            Ok(_) => {
                line.push(b[0]);
                if b[0] == b'\n' {
                    return Some(String::from_utf8_lossy(&line).into_owned());
                }
            }
            Err(e) if matches!(e.kind(), std::io::ErrorKind::WouldBlock | std::io::ErrorKind::TimedOut) => {}
            Err(_) => return None,
        }
    }
}

/// SMTP over `s` to the end, going silent at `at` (`g` instead of the greeting, `e` / `s` / `m` / `z` instead of the reply to
/// EHLO / STARTTLS / AUTH (`a`) / MAIL / the end of data). Returns true when the client asked for STARTTLS and got its 220.
fn stall_dialogue<S: Read + Write>(s: &mut S, greet: bool, offer_starttls: bool, at: Option<char>, done: &AtomicBool) -> bool {
    if greet {
        if at == Some('g') {
            hold(s, done);
            return false;
        }
        if s.write_all(b"220 srv ESMTP\r\n").is_err() {
            return false;
        }
    }
    let mut in_data = false;
    loop {
        let Some(line) = read_line_from(s, done) else { return false };
        if in_data {
            if line == ".\r\n" {
                in_data = false;
                if at == Some('z') {
                    hold(s, done);
                    return false;
                }
                let _ = s.write_all(b"250 queued\r\n");
            }
            continue;
        }
        let up = line.to_ascii_uppercase();
        let reply: &[u8] = if up.starts_with("EHLO") {
            if at == Some('e') {
                hold(s, done);
                return false;
            }
            if offer_starttls {
                b"250-srv\r\n250 STARTTLS\r\n"
            } else {
                b"250-srv\r\n250-AUTH PLAIN\r\n250 8BITMIME\r\n"
            }
        } else if up.starts_with("AUTH") {
            if at == Some('a') {
                hold(s, done);
                return false;
            }
            b"235 authenticated\r\n"
        } else if up.starts_with("STARTTLS") {
            if at == Some('s') {
                hold(s, done);
                return false;
            }
            let _ = s.write_all(b"220 go ahead\r\n");
            return true;
        } else if up.starts_with("MAIL") {
            if at == Some('m') {
                hold(s, done);
                return false;
            }
            b"250 ok\r\n"
        } else if up.starts_with("DATA") {
            in_data = true;
            b"354 go\r\n"
        } else if up.starts_with("QUIT") {
            let _ = s.write_all(b"221 bye\r\n");
            return false;
        } else {
            b"250 ok\r\n"
        };
        if s.write_all(reply).is_err() {
            return false;
        }
    }
}

fn serve_tstall_conn(mut s: TcpStream, wrapper: bool, plain: bool, at: Option<char>, ident: native_tls::Identity, done: Arc<AtomicBool>) {
    s.set_nodelay(true).ok();
    s.set_read_timeout(Some(Duration::from_millis(50))).ok();
    if plain {
        stall_dialogue(&mut s, true, false, at, &done);
        return;
    }
    // before TLS: `s` (no reply to STARTTLS) and `h` (no handshake) stall here, every other position inside TLS
    if !wrapper {
        let clear_at = if at == Some('s') { at } else { None };
        if !stall_dialogue(&mut s, true, true, clear_at, &done) {
            return;
        }
    }
    if at == Some('h') {
        hold(&mut s, &done);
        return;
    }
    let Ok(acceptor) = native_tls::TlsAcceptor::new(ident) else { return };
    // the handshake itself needs a blocking socket
    s.set_read_timeout(Some(Duration::from_secs(8))).ok();
    let Ok(mut t) = acceptor.accept(s) else { return };
    t.get_ref().set_read_timeout(Some(Duration::from_millis(50))).ok();
    stall_dialogue(&mut t, wrapper, false, at, &done);
}

/// `tstall <client s|a|c> <T ms> <mode w|r|o|p> <at h|g|e|s|m|z>`: two sends through a transport with timeout T and TLS (implicit
/// or required STARTTLS) against a peer whose first connection goes silent at `at`; later connections are served to the
/// end. Reports `result@is_timeout@ms` per send.
pub fn tstall(args: &[&str]) -> Option<Vec<String>> {
    let client = *args.first()?;
    let t_ms: u64 = args.get(1)?.parse().ok()?;
    let mode = *args.get(2)?;
    let at = args.get(3)?.chars().next()?;
    let ident = identity("g")?;
    // trust the test CA, accept the host name (the peer is reached by address)
    let params = tls_params("1001")?;
    let (wrapper, plain) = match mode {
        "w" => (true, false),
        "r" | "o" => (false, false),
        // no TLS at all (the same positions on a clear-text connection; used with client `c`)
        "p" => (false, true),
        _ => return None,
    };
    let tlscfg = if plain {
        Tls::None
    } else if wrapper {
        Tls::Wrapper(params)
    } else if mode == "o" {
        // the peer offers STARTTLS, so the opportunistic client asks for it
        Tls::Opportunistic(params)
    } else {
        Tls::Required(params)
    };
    let (listener, port) = listen()?;
    let done = Arc::new(AtomicBool::new(false));
    let server = {
        let done = done.clone();
        std::thread::spawn(move || {
            listener.set_nonblocking(true).ok();
            let mut handlers = Vec::new();
            let mut k = 0usize;
            while !done.load(Ordering::SeqCst) {
                match listener.accept() {
                    Ok((s, _)) => {
                        s.set_nonblocking(false).ok();
                        let (ident, done) = (ident.clone(), done.clone());
                        let stall = if k == 0 { Some(at) } else { None };
                        k += 1;
                        handlers.push(std::thread::spawn(move || serve_tstall_conn(s, wrapper, plain, stall, ident, done)));
                    }
                    Err(_) => std::thread::sleep(Duration::from_millis(2)),
                }
            }
            for h in handlers {
                let _ = h.join();
            }
        })
    };
    let timeout = Duration::from_millis(t_ms);
    let cap = timeout * 10 + Duration::from_secs(3);
    let env = Envelope::new(Some("a@b.c".parse().ok()?), vec!["x@y.z".parse().ok()?]).ok()?;
    let hello = ClientId::Domain("c.example".into());
    let tf = |r: &Result<lettre::transport::smtp::response::Response, lettre::transport::smtp::Error>| match r {
        Err(e) if e.is_timeout() => "t",
        Err(_) => "n",
        Ok(_) => "-",
    };
    // position `a`: the transports authenticate (PLAIN), the peer goes silent instead of answering AUTH
    let creds = if at == 'a' { Some(Credentials::new("user".to_string(), "secret".to_string())) } else { None };
    let mut out: Vec<String> = Vec::new();
    match client {
        // a connection of its own, set up with a long timeout; T is configured afterwards with `set_timeout`
        "c" => {
            let (tx, rx) = std::sync::mpsc::channel();
            let params = tls_params("1001")?;
            std::thread::spawn(move || {
                use lettre::transport::smtp::client::SmtpConnection;
                let long = Some(Duration::from_secs(5));
                let conn = if plain {
                    SmtpConnection::connect((crate::util::lo(), port), long, &hello, None, None)
                } else if wrapper {
                    SmtpConnection::connect((crate::util::lo(), port), long, &hello, Some(&params), None)
                } else {
                    SmtpConnection::connect((crate::util::lo(), port), long, &hello, None, None).and_then(|mut c| c.starttls(&params, &hello).map(|_| c))
                };
                let mut conn = match conn {
                    Ok(c) => c,
                    Err(e) => {
                        let _ = tx.send(format!("setup:{}@-@0", crate::client::describe_err(&e)));
                        return;
                    }
                };
                if conn.set_timeout(Some(timeout)).is_err() {
                    let _ = tx.send("setup:set_timeout@-@0".to_string());
                    return;
                }
                let t0 = std::time::Instant::now();
                let r = conn.send(&env, b"m\r\n");
                let _ = tx.send(format!("{}@{}@{}", describe(&r), tf(&r), t0.elapsed().as_millis()));
            });
            match rx.recv_timeout(cap) {
                Ok(s) => out.push(s),
                Err(_) => out.push(format!("HANG@-@{}", cap.as_millis())),
            }
        }
        "s" => {
            let (tx, rx) = std::sync::mpsc::channel();
            std::thread::spawn(move || {
                let mut b = SmtpTransport::builder_dangerous(crate::util::lo())
                    .port(port)
                    .hello_name(hello)
                    .timeout(Some(timeout))
                    .tls(tlscfg)
                    .pool_config(PoolConfig::new().max_size(1));
                if let Some(c) = creds {
                    b = b.credentials(c);
                }
                let t = b.build();
                for _ in 0..2 {
                    let t0 = std::time::Instant::now();
                    let r = t.send_raw(&env, b"m\r\n");
                    let _ = tx.send(format!("{}@{}@{}", describe(&r), tf(&r), t0.elapsed().as_millis()));
                }
            });
            for _ in 0..2 {
                match rx.recv_timeout(cap) {
                    Ok(s) => out.push(s),
                    Err(_) => {
                        out.push(format!("HANG@-@{}", cap.as_millis()));
                        break;
                    }
                }
            }
        }
        "a" => {
            let rt = tokio::runtime::Builder::new_multi_thread().worker_threads(2).enable_all().build().ok()?;
            rt.block_on(async {
                let mut b = AsyncSmtpTransport::<Tokio1Executor>::builder_dangerous(crate::util::lo())
                    .port(port)
                    .hello_name(hello)
                    .timeout(Some(timeout))
                    .tls(tlscfg)
                    .pool_config(PoolConfig::new().max_size(1));
                if let Some(c) = creds {
                    b = b.credentials(c);
                }
                let t: AsyncSmtpTransport<Tokio1Executor> = b.build();
                for _ in 0..2 {
                    let t0 = std::time::Instant::now();
                    match tokio::time::timeout(cap, t.send_raw(&env, b"m\r\n")).await {
                        Ok(r) => out.push(format!("{}@{}@{}", describe(&r), tf(&r), t0.elapsed().as_millis())),
                        Err(_) => {
                            out.push(format!("HANG@-@{}", cap.as_millis()));
                            break;
                        }
                    }
                }
            });
            rt.shutdown_background();
        }
        _ => return None,
    }
    done.store(true, Ordering::SeqCst);
    let _ = server.join();
    Some(vec![out.join(";")])
}
