import Driver.Util
import LettreVerif.Model.XText
import LettreVerif.Spec.XTextSpec
import LettreVerif.Spec.Dialogue
namespace LV.Driver.C04
open LV LV.Driver

def mailparamOp : List String → String
  | [kw, val, m, r] =>
    if m == "PANIC" then propfail "panic" else
    match ofHex kw, (if val == "-" then some none else (ofHex val).map some), ofHex m, ofHex r with
    | some kw, some val, some m, some r =>
      let p := XText.param kw val
      let mm := str "MAIL FROM:<> " ++ p ++ CRLF
      let mr := str "RCPT TO:<x@y.z> " ++ p ++ CRLF
      if !Dialogue.singleLine m || !Dialogue.singleLine r then propfail "parameter-line-with-inner-CR-or-LF"
      else
        -- the value a receiver decodes from the real line must be the value given
        let bad := match val with
          | none => false
          | some v =>
            let pre := str "MAIL FROM:<> " ++ kw ++ [61]
            if pre.isPrefixOf m then
              XTextSpec.decode ((m.drop pre.length).take (m.length - pre.length - 2)) != some v
            else true
        if bad then propfail "parameter-value-is-not-valid-xtext-of-the-value"
        else if m != mm then mismatch "mailparam" mm
        else if r != mr then mismatch "rcptparam" mr
        else "ok"
    | _, _, _, _ => "BADLINE"
  | [_, _, "PANIC"] => propfail "panic"
  | _ => "BADLINE"

def ehlocmdOp : List String → String
  | [kind, text, line] =>
    if line == "PANIC" then propfail "panic" else
    match ofHex text, ofHex line with
    | some t, some l =>
      let m := str "EHLO " ++ (if kind == "d" then t else if kind == "4" then [91] ++ t ++ [93] else str "[IPv6:" ++ t ++ [93]) ++ CRLF
      if !Dialogue.singleLine l then propfail "EHLO-line-with-inner-CR-or-LF"
      else if l != m then mismatch "ehlo" m else "ok"
    | _, _ => "BADLINE"
  | _ => "BADLINE"

def mailstdOp : List String → String
  | [n, line] =>
    match ofHex line with
    | some l =>
      let m := str s!"MAIL FROM:<> SIZE={n} BODY=7BIT BODY=8BITMIME SMTPUTF8" ++ CRLF
      if l != m then mismatch "mailstd" m else "ok"
    | none => "BADLINE"
  | _ => "BADLINE"

def isInfix (a b : Bytes) : Bool := (List.range (b.length + 1 - a.length)).any fun i => (b.drop i).take a.length == a

/-- `urlcred <url> <secrets> | sync async`: whatever `from_url` answers, neither its error text nor the Debug text of the
    builder contains a spelling (as written in the URL, or percent-decoded) of the user name's or password's secret
    part (credentials never appear in debug output or error text) -/
def urlcredOp : List String → String
  | [_url, secrets, rs, ra] =>
    if rs == "PANIC" then propfail "panic" else
    match hexList secrets with
    | some sec =>
      let bad (r : String) : Bool :=
        match r.splitOn ":" with
        | [_, t] => match ofHex t with
          | some txt => sec.any fun pw => pw.length ≥ 3 && isInfix pw txt
          | none => false
        | _ => false
      if bad rs || bad ra then propfail "credential-appears-in-error-or-debug-text" else "ok"
    | none => "BADLINE"
  | l => if l.getLast? == some "PANIC" then propfail "panic" else "BADLINE"

end LV.Driver.C04
