import Driver.C02
import Driver.C03
import Driver.C04
import Driver.C15
import Driver.C16
import Driver.C17
import Driver.Client
import Driver.C06
import Driver.C10
import Driver.C11
import Driver.C13
import Driver.Sched
import Driver.C19
import Driver.Pool
import Driver.C18
/-!
`lvdriver`: reads one case per line (tab separated, first field = operation), replays it
through the Lean model M and the specification S, and prints one answer per line:
`ok`, `MISMATCH <what> model=<hex>` (model ≠ implementation), `PROPFAIL <what>` (the
specification rejects the implementation's real output), or `BADLINE`.
-/
open LV.Driver

def dispatch (line : String) : String :=
  match line.splitOn "\t" with
  | op :: args =>
    -- the last field is a sentinel (`.`) so that trailing empty fields survive
    let args := args.dropLast
    match op with
    | "codec" => C03.codec args
    | "wire" => C03.wireOp args
    | "wire2" => C03.wire2Op args
    | "bigwire" => C03.bigwireOp args
    | "estep" => C03.estepOp args
    | "parse" => C15.parseOp args
    | "rr" => C15.rrOp args
    | "sinfo" => C15.sinfoOp args
    | "addr" => C16.addrOp args
    | "addrnew" => C16.addrnewOp args
    | "addrrt" => C16.addrrtOp args
    | "envelope" => C16.envelopeOp args
    | "envjson" => C16.envjsonOp args
    | "envhdrs" => C16.envhdrsOp args
    | "mailcmd" => C16.mailcmdOp args
    | "argv" => C16.argvOp args
    | "envcheck" => C16.envcheckOp args
    | "client" => ClientOp.clientOp args
    | "tls" => C06.tlsOp args
    | "pool" => PoolOp.poolOp args
    | "tconn" => PoolOp.tconnOp args
    | "wstall" => PoolOp.wstallOp args
    | "ctor" => C06.ctorOp args
    | "racc" => C15.raccOp args
    | "cstall" => PoolOp.cstallOp args
    | "tstall" => PoolOp.tstallOp args
    | "late" => PoolOp.lateOp args
    | "shut" => PoolOp.shutOp args
    | "transports" => C18.transportsOp args
    | "body" => C10.bodyOp args
    | "hval" => C02.hvalOp false args
    | "hvalrt" => C02.hvalOp true args
    | "hname" => C02.hnameOp args
    | "mime" => C11.mimeOp args
    | "dkim" => C13.dkimOp args
    | "sched" => Sched.schedOp args
    | "np" => C19.npOp "opt" args
    | "npdbg" => C19.npOp "unopt" args
    | "scale" => C19.scaleOp args
    | "dkimbody" => C13.dkimbodyOp args
    | "dkimhdrs" => C13.dkimhdrsOp args
    | "mbox" => C17.mboxOp args
    | "mboxlist" => C17.mboxlistOp args
    | "mboxparse" => C17.mboxparseOp args
    | "date" => C17.dateOp args
    | "dparse" => C17.dparseOp args
    | "mboxctor" => (match args with
        | [_, _, "11"] => "ok"
        | [_, _, "PANIC"] => "PROPFAIL panic"
        | [_, _, f] => s!"PROPFAIL mailbox-constructors-give-different-values:{f}"
        | _ => "BADLINE")
    | "typed" => C17.typedOp args
    | "tparse" => C17.tparseOp args
    | "build" => C17.buildOp args
    | "hdrs" => C02.hdrsOp args
    | "crlf" => C10.crlfOp args
    | "qp" => C10.qpOp args
    | "b64" => C10.b64Op args
    | "sendmsg" => C18.sendmsgOp args
    | "mailparam" => C04.mailparamOp args
    | "urlcred" => C04.urlcredOp args
    | "urlauth" => C04.urlauthOp args
    | "ehlocmd" => C04.ehlocmdOp args
    | "mailstd" => C04.mailstdOp args
    | _ => "BADOP"
  | [] => "BADLINE"

partial def loop (h : IO.FS.Stream) (out : IO.FS.Stream) : IO Unit := do
  let line ← h.getLine
  if line.isEmpty then return ()
  let l := (line.dropEndWhile (fun c => c == '\n' || c == '\r')).toString
  out.putStrLn (dispatch l)
  loop h out

def main : IO Unit := do
  let stdin ← IO.getStdin
  let stdout ← IO.getStdout
  loop stdin stdout
