import LettreVerif.Model.Bytes
/-!
# Base64 (RFC 4648 §4, standard alphabet, padded)

`enc` is what the `base64` crate's `STANDARD` engine produces (tie: correspondence check,
exhaustive for inputs up to 2 octets, sampled above); `dec` is its strict decoder: length a
multiple of 4, canonical padding, no stray trailing bits (`decode_allow_trailing_bits = false`,
`DecodePaddingMode::RequireCanonical`).
-/
namespace LV.Base64

/-- the 6-bit value `n` as a base64 character -/
def sym (n : Nat) : Byte :=
  if n < 26 then UInt8.ofNat (65 + n)
  else if n < 52 then UInt8.ofNat (71 + n)
  else if n < 62 then UInt8.ofNat (n - 4)
  else if n = 62 then 43 else 47

def val (c : Byte) : Option Nat :=
  let n := c.toNat
  if 65 ≤ n ∧ n ≤ 90 then some (n - 65)
  else if 97 ≤ n ∧ n ≤ 122 then some (n - 71)
  else if 48 ≤ n ∧ n ≤ 57 then some (n + 4)
  else if n = 43 then some 62
  else if n = 47 then some 63
  else none

def enc : Bytes → Bytes
  | a :: b :: c :: rest =>
    let n := a.toNat * 65536 + b.toNat * 256 + c.toNat
    sym (n / 262144) :: sym (n / 4096 % 64) :: sym (n / 64 % 64) :: sym (n % 64) :: enc rest
  | [a, b] =>
    let n := a.toNat * 65536 + b.toNat * 256
    [sym (n / 262144), sym (n / 4096 % 64), sym (n / 64 % 64), 61]
  | [a] =>
    let n := a.toNat * 65536
    [sym (n / 262144), sym (n / 4096 % 64), 61, 61]
  | [] => []

/-- the last group `w x = =` : one octet -/
def decPad2 (w x : Byte) : Option Bytes :=
  match val w, val x with
  | some w, some x => if x % 16 = 0 then some [UInt8.ofNat ((w * 64 + x) / 16)] else none
  | _, _ => none

/-- the last group `w x y =` : two octets -/
def decPad1 (w x y : Byte) : Option Bytes :=
  match val w, val x, val y with
  | some w, some x, some y =>
    let n := (w * 64 + x) * 64 + y
    if y % 4 = 0 then some [UInt8.ofNat (n / 1024), UInt8.ofNat (n / 4 % 256)] else none
  | _, _, _ => none

def dec : Bytes → Option Bytes
  | [] => some []
  | w :: x :: y :: z :: rest =>
    if z = 61 then
      (if rest.isEmpty then (if y = 61 then decPad2 w x else decPad1 w x y) else none)
    else
      match val w, val x, val y, val z, dec rest with
      | some w, some x, some y, some z, some r =>
        let n := ((w * 64 + x) * 64 + y) * 64 + z
        some (UInt8.ofNat (n / 65536) :: UInt8.ofNat (n / 256 % 256) :: UInt8.ofNat (n % 256) :: r)
      | _, _, _, _, _ => none
  | _ => none

end LV.Base64
