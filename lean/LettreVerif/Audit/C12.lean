import LettreVerif.Props.C12
#print axioms LV.C12.enc_length
#print axioms LV.C12.encoded_word_roundtrip
#print axioms LV.C12.word_room_le_45
#print axioms LV.C12.unstructured_roundtrip
#print axioms LV.C12.display_name_roundtrip
#print axioms LV.C12.mailbox_header_read_back
#print axioms LV.C12.file_name_roundtrip
#print axioms LV.C12.attachment_and_inline_file_names
#print axioms LV.C12.unstructured_roundtrip_every_string
#print axioms LV.C12.display_name_roundtrip_every_string
