import LettreVerif.Model.Bytes
/-!
# M: `Address` (src/address/types.rs) with `email_address 0.2.9`'s checks

Strings are Rust `str`s = `List Char`; `len()` is the UTF-8 length.  Three external functions
are parameters (`Env`): `char::is_alphanumeric`, `idna::domain_to_ascii`, and whether a string
parses as `std::net::IpAddr`.  The correspondence check obtains their answers from the real
functions for exactly the strings each case asks about.
-/
namespace LV.Address

structure Env where
  isAlnum : Char → Bool
  idna : List Char → Option (List Char)
  isIp : List Char → Bool

def utf8Len (s : List Char) : Nat := (s.map Char.utf8Size).sum

/-- `email_address::is_utf8_non_ascii`: it inspects the big-endian bytes of the *code point*
    (not of its UTF-8 encoding); for a valid `char` only the first pattern can match -/
def isUtf8NonAscii (c : Char) : Bool :=
  let n := c.toNat
  let b0 := n / 16777216 % 256
  let b1 := n / 65536 % 256
  let b2 := n / 256 % 256
  let b3 := n % 256
  let tail (x : Nat) : Bool := 0x80 ≤ x && x ≤ 0xBF
  (b0 == 0 && b1 == 0 && (0xC2 ≤ b2 && b2 ≤ 0xDF) && tail b3) ||
  (b0 == 0 && b1 == 0xE0 && (0xA0 ≤ b2 && b2 ≤ 0xBF) && tail b3) ||
  (b0 == 0 && (0xE1 ≤ b1 && b1 ≤ 0xEC) && tail b2 && tail b3) ||
  (b0 == 0 && b1 == 0xED && (0x80 ≤ b2 && b2 ≤ 0x9F) && tail b3) ||
  (b0 == 0 && (0xEE ≤ b1 && b1 ≤ 0xEF) && tail b2 && tail b3) ||
  (b0 == 0xF0 && (0x90 ≤ b1 && b1 ≤ 0xBF) && tail b2 && tail b3) ||
  ((0xF1 ≤ b0 && b0 ≤ 0xF3) && tail b1 && tail b2 && tail b3) ||
  (b0 == 0xF4 && (0x80 ≤ b1 && b1 ≤ 0x8F) && tail b2 && tail b3)

def atextSpecials : List Char :=
  ['!', '#', '$', '%', '&', '\'', '*', '+', '-', '/', '=', '?', '^', '_', '`', '{', '|', '}', '~']

def isAtext (e : Env) (c : Char) : Bool := e.isAlnum c || atextSpecials.contains c || isUtf8NonAscii c

def isAtom (e : Env) (s : List Char) : Bool := !s.isEmpty && s.all (isAtext e)

/-- `str::split('.')`: the pieces between dots (always at least one piece) -/
def splitDot : List Char → List Char → List (List Char)
  | cur, [] => [cur.reverse]
  | cur, c :: cs => if c = '.' then cur.reverse :: splitDot [] cs else splitDot (c :: cur) cs

def isDotAtomText (e : Env) (s : List Char) : Bool := (splitDot [] s).all (isAtom e)

def isVchar (c : Char) : Bool := 0x21 ≤ c.toNat && c.toNat ≤ 0x7E
def isWsp (c : Char) : Bool := c = ' ' || c = '\t'
def isQtextChar (c : Char) : Bool :=
  let n := c.toNat
  n == 0x21 || (0x23 ≤ n && n ≤ 0x5B) || (0x5D ≤ n && n ≤ 0x7E) || isUtf8NonAscii c

def isQcontent : List Char → Bool
  | [] => true
  | c :: cs =>
    if c = '\\' then
      match cs with
      | c2 :: rest => isVchar c2 && isQcontent rest
      | [] => false
    else (isWsp c || isQtextChar c) && isQcontent cs

def isDtextChar (c : Char) : Bool :=
  let n := c.toNat
  (0x21 ≤ n && n ≤ 0x5A) || (0x5E ≤ n && n ≤ 0x7E) || isUtf8NonAscii c

/-- `parse_local_part` -/
def validLocalPart (e : Env) (u : List Char) : Bool :=
  if u.isEmpty then false
  else if utf8Len u > 64 then false
  else if u.head? = some '"' && u.getLast? = some '"' then
    if utf8Len u ≤ 2 then false else isQcontent (u.drop 1).dropLast
  else isDotAtomText e u

/-- `Address::check_user`: a valid local part without HTAB (since `fix:` commit 64d16d2) -/
def checkUser (e : Env) (u : List Char) : Bool := validLocalPart e u && !u.contains '\t'

def labelOk (e : Env) (l : List Char) : Bool :=
  !l.isEmpty && (l.head?.map e.isAlnum).getD false && (l.getLast?.map e.isAlnum).getD false &&
  utf8Len l ≤ 63 && isAtom e l

/-- `parse_domain` (default options: domain literals allowed, no minimum of sub-domains) -/
def isValidDomain (e : Env) (d : List Char) : Bool :=
  if d.isEmpty then false
  else if utf8Len d > 254 then false
  else if d.head? = some '[' && d.getLast? = some ']' then ((d.drop 1).dropLast).all isDtextChar
  else (splitDot [] d).all (labelOk e)

def ipv6Tag : List Char := ['I', 'P', 'v', '6', ':']

/-- `strip_prefix("IPv6:").unwrap_or(ip)` -/
def stripIpv6Tag (s : List Char) : List Char := if ipv6Tag.isPrefixOf s then s.drop 5 else s

/-- `check_domain_ascii`: a bracketed domain must be an IP address literal (optionally tagged
    `IPv6:`); otherwise a text domain or a bare IP address (since `fix:` commit db45111; before
    it any `dtext` was accepted between the brackets) -/
def checkDomainAscii (e : Env) (d : List Char) : Bool :=
  match d with
  | '[' :: r => if r.getLast? = some ']' then e.isIp (stripIpv6Tag r.dropLast) else false
  | _ => isValidDomain e d || e.isIp d

/-- `check_domain`: as is, or after IDNA mapping to ASCII -/
def checkDomain (e : Env) (d : List Char) : Bool :=
  checkDomainAscii e d || (match e.idna d with | some a => checkDomainAscii e a | none => false)

/-- `rsplitn(2, '@')`: (text before the last '@', text after it) -/
def splitLastAt : List Char → List Char → Option (List Char × List Char)
  | _, [] => none
  | pre, c :: cs =>
    match splitLastAt (c :: pre) cs with
    | some r => some r
    | none => if c = '@' then some (pre.reverse, cs) else none

inductive Err | missingParts | invalidUser | invalidDomain deriving Repr, DecidableEq

/-- a checked address: what `user()` and `domain()` return -/
structure Addr where
  user : List Char
  domain : List Char
deriving Repr, DecidableEq

def Addr.serialized (a : Addr) : List Char := a.user ++ '@' :: a.domain

/-- `check_address` / `FromStr` -/
def parse (e : Env) (s : List Char) : Except Err Addr :=
  match splitLastAt [] s with
  | none => .error .missingParts
  | some (u, d) =>
    if !checkUser e u then .error .invalidUser
    else if !checkDomain e d then .error .invalidDomain
    else .ok ⟨u, d⟩

/-- `TryFrom<(U, D)>` / `Address::new`: `serialized = user@domain`, `at_start = user.len()` -/
def new (e : Env) (u d : List Char) : Except Err Addr :=
  if !checkUser e u then .error .invalidUser
  else if !checkDomain e d then .error .invalidDomain
  else .ok ⟨u, d⟩

/-! ### commands and the sendmail argument vector -/

def mailPrefix : List Char := ['M', 'A', 'I', 'L', ' ', 'F', 'R', 'O', 'M', ':', '<']
def rcptPrefix : List Char := ['R', 'C', 'P', 'T', ' ', 'T', 'O', ':', '<']
def lineEnd : List Char := ['>', '\r', '\n']
def optI : List Char := ['-', 'i']
def optF : List Char := ['-', 'f']
def dashDash : List Char := ['-', '-']

/-- `Mail` Display without extension parameters -/
def mailLine (from? : Option Addr) : List Char :=
  mailPrefix ++ (match from? with | some a => a.serialized | none => []) ++ lineEnd

/-- `Rcpt` Display without extension parameters -/
def rcptLine (a : Addr) : List Char := rcptPrefix ++ a.serialized ++ lineEnd

/-- `SendmailTransport::command`: `-i`, `-f sender` if any, `--`, then the recipients -/
def sendmailArgv (from? : Option Addr) (to : List Addr) : List (List Char) :=
  [optI] ++ (match from? with | some a => [optF, a.serialized] | none => []) ++
    [dashDash] ++ to.map Addr.serialized

/-- `Envelope::new`: refuses an empty recipient list -/
def envelopeNew (from? : Option Addr) (to : List Addr) : Option (Option Addr × List Addr) :=
  if to.isEmpty then none else some (from?, to)

end LV.Address
