import LettreVerif.Model.Response
import LettreVerif.Spec.ReplyGrammar
import LettreVerif.Spec.DataServer
import LettreVerif.Model.Utf8
/-!
# S: the client side of an RFC 5321 dialogue, as an acceptor of transcripts

A transcript is the list of units the peer received, each paired with the reply the peer gave
to it (`none` = no well-formed reply: garbage, truncated, or the peer had stopped sending).
The acceptor walks it and yields the outcome of every mail transaction it sees; it rejects
anything that is not `MAIL, RCPT…, DATA, content` with the exact envelope, content that was
not invited, a second attempt after a refusal, or anything but `QUIT` after a failure.
-/
namespace LV.Dialogue
open LV LV.Response

/-- one line: CRLF at the end and no other CR or LF -/
def singleLine (u : Bytes) : Bool :=
  match u.reverse with
  | 10 :: 13 :: body => body.all (fun b => b != 13 && b != 10)
  | _ => false

def positive (r : Option Resp) : Bool :=
  match r with | some r => r.code.1 == 2 || r.code.1 == 3 | none => false

/-- what a transaction came to -/
inductive Outcome
  | delivered (r : Resp)                 -- content sent, final reply positive
  | refused (r : Option Resp)            -- a negative / missing reply at some step
deriving Repr, DecidableEq

structure Envelope where
  mail : Bytes          -- the exact MAIL line expected
  rcpts : List Bytes    -- the exact RCPT lines expected, in order
  msg : Bytes

inductive Ph
  | idle                      -- between transactions
  | rcpt (left : List Bytes)  -- MAIL accepted; RCPT lines still to come
  | data                      -- all RCPT accepted; DATA expected
  | content                   -- DATA accepted; content expected
  | failed                    -- a step failed: at most QUIT may follow
  | dead                      -- QUIT seen after a failure: nothing may follow
deriving Repr, DecidableEq

def isPrefix (p u : Bytes) : Bool := p.isPrefixOf u

def kwMAIL : Bytes := [77, 65, 73, 76, 32, 70, 82, 79, 77, 58]   -- "MAIL FROM:"
def kwQUIT : Bytes := [81, 85, 73, 84, 13, 10]
def kwDATA : Bytes := [68, 65, 84, 65, 13, 10]

def isB64Line (u : Bytes) : Bool :=
  (u.take (u.length - 2)).all fun b =>
    (65 ≤ b && b ≤ 90) || (97 ≤ b && b ≤ 122) || (48 ≤ b && b ≤ 57) || b == 43 || b == 47 || b == 61

/-- what may be said outside a mail transaction -/
def idleOk (u : Bytes) : Bool :=
  singleLine u &&
    (isPrefix [69, 72, 76, 79, 32] u || u == [78, 79, 79, 80, 13, 10] || u == kwQUIT ||
     isPrefix [65, 85, 84, 72, 32] u || isB64Line u)

/-- walk the transcript; `none` = the dialogue is not valid -/
def walk (e : Envelope) : Ph → List (Bytes × Option Resp) → List Outcome → Option (List Outcome)
  | _, [], acc => some acc.reverse
  | ph, (u, rep) :: rest, acc =>
    match ph with
    | .idle =>
      if isPrefix kwMAIL u then
        if u != e.mail then none
        else if positive rep then walk e (.rcpt e.rcpts) rest acc
        else walk e .failed rest (.refused rep :: acc)
      else if idleOk u then walk e .idle rest acc           -- EHLO, NOOP, AUTH exchange, QUIT
      else none
    | .rcpt [] =>
      if u != kwDATA then none
      else if positive rep then walk e .content rest acc
      else walk e .failed rest (.refused rep :: acc)
    | .rcpt (l :: ls) =>
      if u != l then none
      else if positive rep then walk e (.rcpt ls) rest acc
      else walk e .failed rest (.refused rep :: acc)
    | .data => none
    | .content =>
      -- the content must be exactly what an RFC 5321 server turns back into the message
      let d := DataServer.serverRun u
      if d.1 != .done || d.2 != e.msg ++ CRLF || !DataServer.notDoneBefore .sol u then none
      else match rep with
        | some r => if positive rep then walk e .idle rest (.delivered r :: acc)
                    else walk e .failed rest (.refused rep :: acc)
        | none => walk e .failed rest (.refused none :: acc)
    | .failed => if u == kwQUIT then walk e .dead rest acc else none
    | .dead => none

/-- keyword advertised in an EHLO reply: first word of some line (ASCII white space) -/
def advertises (kw : Bytes) (r : Resp) : Bool :=
  r.lines.any fun l =>
    let l := l.dropWhile (fun b => b == 32 || b == 9)
    l.takeWhile (fun b => b != 32 && b != 9) == kw

end LV.Dialogue
