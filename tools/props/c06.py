"""C06 — Required/wrapper TLS never leaks credentials or mail in clear; no downgrade."""
from tools import smtpgen
from tools.smtpgen import step, script_field
from tools.lv import hexs

LEVEL = "proof"
RETRY_TIMING = True
CORRESPONDENCE = ("Model/Tls.lean (establish, starttls, sendOnce, expectHandshake) on top of Model/Client.lean vs SmtpTransport and "
                  "AsyncSmtpTransport<Tokio1Executor> (SmtpClient::connection, Tokio1Executor::connect, starttls, auth after TLS) against a "
                  "scripted peer that hands the socket to a native-tls acceptor with fixture certificates")
RULE = ("tls: TLS mode {none, opportunistic, required, wrapper} x server {no STARTTLS, STARTTLS ok, refused 4xx/5xx, 220 then garbage / close, "
        "cleartext injected after the 220, different capabilities before/after TLS} x certificate {trusted+right name, trusted+wrong name, "
        "self-signed, expired} x {added root, store none/default} x the two danger switches x credentials present/absent, sync (native-tls) "
        "and tokio (tokio-native-tls) [the full grid of mode x certificate x switches x server kind is enumerated], plus random faults inside "
        "TLS; ctor: relay / starttls_relay / builder defaults / connection URLs (scheme x tls parameter x port x credentials) and the "
        "TLS mode and port they configure. Non-trivial = a handshake is attempted or STARTTLS is refused / not offered; distinct = distinct case lines.")
TRUSTED_BASE = ["Lean 4 kernel", "axioms: propext, Quot.sound, Classical.choice at most (see axioms per theorem)",
                "native-tls / OpenSSL handshake and X.509 verification (assumption A7): the handshake outcome is an input of the model; the "
                "expected outcome table expectHandshake is compared with real handshakes against fixture certificates on every run",
                "the Debug text of SmtpTransportBuilder / AsyncSmtpTransportBuilder (port, TLS mode and server of the convenience "
                "constructors and connection URLs are read off it; an unreadable text is reported as a broken correspondence)",
                "harness lvh + scripted TLS peer + fixtures/ + line protocol + this orchestrator"]
ASSUMPTIONS = ["accept_invalid_certs turns all verification off in native-tls/OpenSSL (so it also accepts a wrong name)",
               "the system trust store does not contain the fixture root",
               "the peer is reactive; stalls are C20"]
EXHAUSTIVE_PARTS = ["grid: 4 modes x 4 certificates x 16 switch settings x 6 server kinds x {sync, tokio} (credentials alternate)"]

EHLO_TLS = b"250-srv\r\n250-STARTTLS\r\n250 AUTH LOGIN PLAIN\r\n"
EHLO_NOTLS = b"250-srv\r\n250 AUTH LOGIN PLAIN\r\n"
INSIDE = [step(b"250-srv\r\n250 AUTH PLAIN\r\n")]
SEND_OK = [step(b"250 ok\r\n"), step(b"250 ok\r\n"), step(b"354 go\r\n"), step(b"250 queued\r\n"), step(b"221 bye\r\n")]

SERVER_KINDS = {
    "ok": (EHLO_TLS, step(b"220 go\r\n")),
    "notoffered": (EHLO_NOTLS, None),
    "refused4": (EHLO_TLS, step(b"454 tls not available\r\n")),
    "refused5": (EHLO_TLS, step(b"501 syntax\r\n")),
    "garbage": (EHLO_TLS, step(b"220 go\r\n", True)),
    "injected": (EHLO_TLS, step(b"220 go\r\n250-injected\r\n250 AUTH LOGIN\r\n")),
    # STARTTLS offered after an empty line / after a line of blanks of the EHLO reply
    "okblank": (b"250-srv\r\n250-\r\n250-STARTTLS\r\n250 AUTH LOGIN PLAIN\r\n", step(b"220 go\r\n")),
    # STARTTLS offered on line 41 of a 45-line EHLO reply (round 7: C06/m20 kept only the first 32 lines of a reply)
    "oklate": (b"250-srv\r\n" + b"".join(b"250-X-FILLER-%02d\r\n" % i for i in range(39)) + b"250-STARTTLS\r\n250-X-A\r\n250-X-B\r\n250-X-C\r\n250 AUTH LOGIN PLAIN\r\n", step(b"220 go\r\n")),
    "okblank2": (b"250-srv\r\n250-  \r\n250-X-A b\r\n250-STARTTLS\r\n250 AUTH LOGIN PLAIN\r\n", step(b"220 go\r\n")),
}


def case(client, mode, cert, flags, creds, kind, rng=None, inside=None):
    ehlo, st = SERVER_KINDS[kind]
    clear = [step(b"220 srv ESMTP\r\n"), step(ehlo)]
    if st is not None and mode in "or":
        clear.append(st)
        if st[0].startswith(b"4") or st[0].startswith(b"5"):
            clear.append(step(b"221 bye\r\n"))
    auth = [step(b"235 ok\r\n")] if creds else []
    if mode in "or" and kind == "notoffered" and mode == "o" or mode == "n":
        # the session continues in clear
        clear += auth + SEND_OK
    tls = (inside if inside is not None else (([step(b"220 srv ESMTP (tls)\r\n")] if mode == "w" else []) + INSIDE + auth + SEND_OK))
    mechs = "PL" if creds else "-"
    return "\t".join(["tls", client, mode, cert, flags, mechs, hexs("user"), hexs("secretpw"), hexs(b"secret-message\r\n"),
                      script_field(clear), script_field(tls)])


def gen(tier, rng):
    cases = []
    i = 0
    flagsets = [f"{a}{b}{c}{d}" for a in "01" for b in "01" for c in "01" for d in "01"]
    for mode in "norw":
        for cert in "gwse":
            for flags in flagsets:
                for kind in SERVER_KINDS:
                    if tier == "quick" and mode == "n" and (cert != "g" or flags != "1000"):
                        continue
                    if tier == "quick" and kind in ("refused4", "refused5", "garbage", "notoffered", "okblank", "okblank2", "oklate") and cert != "g":
                        continue
                    for client in "sa":
                        cases.append(case(client, mode, cert, flags, i % 2 == 0, kind))
                        i += 1
    # which roots count: the test CA in the platform's default store (fifth flag), CertificateStore::None, a root that signed
    # nothing added (first flag 2), and the certificates again
    for mode in "rw":
        for cert in "gws":
            for a in "012":
                for sn in "01":
                    for aih in "01":
                        for client in "sa":
                            cases.append(case(client, mode, cert, f"{a}{sn}0{aih}1", i % 2 == 0, "ok"))
                            i += 1
            for client in "sa":
                cases.append(case(client, mode, cert, "2000", True, "ok"))
                cases.append(case(client, mode, cert, "2100", True, "ok"))
    # transports built with `.timeout(None)` (upper-case client letter): the policy does not depend on a timeout being set
    for mode in "norw":
        for cert in "gwse":
            for client in "SA":
                for creds in (True, False):
                    cases.append(case(client, mode, cert, "1000", creds, "ok"))
    # the convenience constructors and connection URLs: which TLS mode and port they configure
    for host in ("mail.example.org", "h.example", "127.0.0.1"):
        cases.append(f"ctor\trelay\t{hexs(host)}")
        cases.append(f"ctor\tstarttls\t{hexs(host)}")
        for scheme in ("smtp", "smtps", "smtpx"):
            for tlsp in ("-", "required", "opportunistic", "none", "Required"):
                for port in ("-", "2525"):
                    for cred in ("", "user:pass@"):
                        url = f"{scheme}://{cred}{host}" + (f":{port}" if port != "-" else "") + (f"?tls={tlsp}" if tlsp != "-" else "")
                        cases.append(f"ctor\turl\t{hexs(url)}\t{scheme}\t{tlsp}\t{port}\t{hexs(host)}")
                        if tlsp != "-":
                            # the `tls` parameter among other query pairs, in any position
                            for q in (f"?x=1&tls={tlsp}", f"?tls={tlsp}&x=1", f"?a=b&c=d&tls={tlsp}"):
                                u2 = f"{scheme}://{cred}{host}" + (f":{port}" if port != "-" else "") + q
                                cases.append(f"ctor\turl\t{hexs(u2)}\t{scheme}\t{tlsp}\t{port}\t{hexs(host)}")
    cases.append("ctor\tlocalhost")
    n = {"quick": 150, "search": 600, "thorough": 3000}[tier]
    for _ in range(n):
        mode = rng.choice("orw")
        creds = rng.random() < 0.6
        inside = ([step(b"220 srv (tls)\r\n")] if mode == "w" else []) + [step(rng.choice([b"250-srv\r\n250 AUTH PLAIN\r\n", b"250 srv\r\n", b"250-srv\r\n250 AUTH LOGIN\r\n", b"550 no\r\n"]))]
        if creds:
            inside.append(rng.choice([step(b"235 ok\r\n"), step(b"535 bad\r\n"), smtpgen.fault(rng, "auth"), step(b"334 VXNlcm5hbWU6\r\n")]))
            if inside[-1][0].startswith(b"334"):
                inside += [step(b"334 UGFzc3dvcmQ6\r\n"), step(b"235 ok\r\n")]
        inside += [s for _, s in smtpgen.happy(rng, [], 1)[2:]]
        if rng.random() < 0.4:
            k = rng.randrange(len(inside))
            inside[k] = smtpgen.fault(rng, "mail")
            if inside[k][1]:
                inside = inside[:k + 1]
        cases.append(case("sa"[_ % 2], mode, "g", "1000", creds, rng.choice(["ok", "ok", "injected"]), inside=inside))
    return cases


def timing_dependent(case):
    # a real client against a real peer with read timeouts: a disagreement is re-run alone before it counts
    return case.split("\t")[0] in ("pool", "wstall", "client", "tls", "sched")


def nontrivial(case):
    f = case.split("\t")
    if f[0] == "ctor":
        return True
    return f[2] != "n"


def shrinkable(case):
    return []


def distribution(cases):
    d = {}
    for c in cases:
        f = c.split("\t")
        if f[0] == "ctor":
            d["constructor_" + f[1]] = d.get("constructor_" + f[1], 0) + 1
            continue
        for k in ("mode_" + f[2], "cert_" + f[3], "client_" + f[1], "creds_" + ("yes" if f[5] != "-" else "no")):
            d[k] = d.get(k, 0) + 1
    return d


def _injected(f, o, v):
    if f[0] != "tls":
        return False
    # cleartext after the 220 reply to STARTTLS, in the same step
    steps = f[9].split(",")
    return len(steps) >= 3 and bytes.fromhex(steps[2].split(":")[0]).count(b"\r\n") > 1


FINDING_CLASSES = {"starttls-buffered-cleartext": _injected}
