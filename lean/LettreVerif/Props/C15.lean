import LettreVerif.Proofs.C15
import LettreVerif.Proofs.ServerInfo
/-!
# C15 — Server replies are framed and classified per RFC 5321 however they arrive

`parse` is the byte-machine model of `parse_response`; `readResp` the model of
`read_response` (accumulate `read_line`s until the buffer parses; end of stream = error);
`render` / `renderBare` / `wf` are the RFC 5321 §4.2 grammar (Spec/ReplyGrammar.lean);
`ServerInfo.fromResponse` is the model of `ServerInfo::from_response`.
-/
namespace LV.C15
open LV LV.Response LV.ReplyGrammar

/-- Every well-formed reply, in either spelling of an empty last text and followed by
    anything, parses back to an equal value and consumes exactly its own octets. -/
theorem parse_complete (r : Resp) (rest : Bytes) (h : wf r = true) :
    parse (render r ++ rest) = .ok r rest ∧ parse (renderBare r ++ rest) = .ok r rest :=
  complete_render r rest h

/-- Whatever is accepted is a rendered well-formed reply: same code on every line, digits in
    range, lines in order, the text unchanged — malformed or inconsistent input is never
    accepted, and the rest starts right after the reply's final CRLF. -/
theorem parse_sound (s : Bytes) (r : Resp) (rest : Bytes) (h : parse s = .ok r rest) :
    wf r = true ∧ (s = render r ++ rest ∨ s = renderBare r ++ rest) := by
  have := sound_gen init s r rest ⟨by simp [init], trivial⟩ h
  simpa [consumed, consumedPhase, init] using this

/-- A definitive answer does not depend on what arrives later (so it does not depend on how
    the stream is cut into segments). -/
theorem answer_stable (p e : Bytes) :
    (∀ r rest, parse p = .ok r rest → parse (p ++ e) = .ok r (rest ++ e)) ∧
    (parse p = .error → parse (p ++ e) = .error) ∧
    (parse p = .failure → parse (p ++ e) = .failure) :=
  ⟨fun r rest h => run_mono_ok _ _ p e r rest h, run_mono_error _ _ p e, run_mono_failure _ _ p e⟩

/-- No proper prefix of a reply gives an answer: never a premature or misattributed reply. -/
theorem prefix_incomplete (r : Resp) (h : wf r = true) (p : Bytes) (hp : p <+: render r)
    (hne : p ≠ render r) : parse p = .incomplete := by
  obtain ⟨e, he⟩ := hp
  exact prefix_incomplete_gen r h p e (by intro h0; subst h0; simp at he; exact hne he) he

/-- `read_response` on a stream that starts with a reply returns that reply and leaves exactly
    what follows it: a later line is never taken as part of an earlier answer, nor skipped. -/
theorem read_consumes_exactly (r : Resp) (h : wf r = true) (rest : Bytes) :
    readResp (render r ++ rest) = (.reply r, rest) := by
  have hne : render r ≠ [] := by
    intro e; have := render_last r h; rw [e] at this; simp at this
  exact read_exact_gen r h _ [] (render r) rest (by simp) hne (by simp; omega)

/-- A stream that ends inside a reply gives an error value (no endless wait on a closed
    stream, no partial answer). -/
theorem eof_is_error (r : Resp) (h : wf r = true) (p : Bytes) (hp : p <+: render r)
    (hne : p ≠ render r) : (readResp p).1 = .bad := by
  obtain ⟨e, he⟩ := hp
  exact eof_bad_gen r h _ [] p e (by intro h0; subst h0; simp at he; exact hne he) (by simpa using he)

/-- The three digits alone decide the class. -/
theorem classify_first_digit (c : Code) :
    (classify c = .positive ↔ c.1 = 2 ∨ c.1 = 3) ∧ (classify c = .transient ↔ c.1 = 4) := by
  simp only [classify]
  constructor
  · constructor
    · intro h; split at h
      · assumption
      · split at h <;> cases h
    · intro h; simp [h]
  · constructor
    · intro h; split at h
      · cases h
      · split at h
        · assumption
        · cases h
    · intro h; simp [h]

/-- EHLO keywords and AUTH mechanisms are read from exactly the reply's lines: a feature is
    recorded iff some line's first word is that keyword, a mechanism iff some line whose first
    word is `AUTH` lists it; the name is the first word of the first line. -/
theorem serverinfo_exact (ls : List (List Char)) (i : ServerInfo.Info)
    (h : ServerInfo.fromResponse ls = .ok i) :
    i.eightBit = ls.any (ServerInfo.announces ServerInfo.kw8BITMIME) ∧
    i.smtpUtf8 = ls.any (ServerInfo.announces ServerInfo.kwSMTPUTF8) ∧
    i.startTls = ls.any (ServerInfo.announces ServerInfo.kwSTARTTLS) ∧
    i.plain = ls.any (ServerInfo.authLists ServerInfo.kwPLAIN) ∧
    i.login = ls.any (ServerInfo.authLists ServerInfo.kwLOGIN) ∧
    i.xoauth2 = ls.any (ServerInfo.authLists ServerInfo.kwXOAUTH2) := by
  simp only [ServerInfo.fromResponse] at h
  split at h
  · cases h
  · rename_i name _
    simp only [ServerInfo.Res.ok.injEq] at h
    subst h
    have := ServerInfo.scan_spec { name := name } ls
    simp only [Bool.false_or] at this
    exact ⟨this.1, this.2.1, this.2.2.1, this.2.2.2.1, this.2.2.2.2.1, this.2.2.2.2.2.1⟩

/-- non-vacuity: a three-line reply with a dash, digits and a bare CR in its texts is
    well-formed, and its two-line truncation is a proper prefix. -/
example :
    let r : Resp := ⟨(2, 5, 0), [[97, 45, 49], [50, 53, 48, 32, 13, 120], []]⟩
    wf r = true ∧ parse (render r) = .ok r [] ∧ parse (renderBare r) = .ok r [] ∧
      parse ((render r).take 20) = .incomplete ∧ readResp (render r ++ [53]) = (.reply r, [53]) := by
  decide

/-- non-vacuity: mixed codes are a failure, a missing separator an error. -/
example : parse [50, 53, 48, 45, 97, 13, 10, 50, 53, 49, 32, 98, 13, 10] = .failure ∧
    parse [50, 53, 48, 120] = .error := by decide

end LV.C15
