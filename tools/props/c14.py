"""C14 — Authentication picks an offered mechanism and encodes credentials exactly."""
from tools import smtpgen
from tools.props import c05
from tools.lv import unhex

LEVEL = "proof"
CORRESPONDENCE = ("Model/Client.lean (chooseMech, authFirstLine, mechResponse, challengeAnswer, authLoop, auth), Model/Base64.lean vs "
                  "SmtpConnection::auth / AsyncSmtpConnection::auth, Auth, Mechanism::response, Credentials over the scripted peer")
RULE = ("auth cases: user names / passwords (empty, NUL, non-ASCII, CR/LF, 1 KiB) x AUTH advertisements (subsets of PLAIN, LOGIN, XOAUTH2, "
        "unknown mechanisms, any order / case, 0..2 AUTH lines, `AUTH=PLAIN`) x all preference lists x challenge scripts (prompt "
        "spelling variants in any letter case, invalid base64, non-UTF-8, unknown prompts, empty 334, 9..13 challenges in a row, "
        "4xx/5xx/garbage/close at each step) x programs A, AQ, AS; sync and tokio alternating; plus all subsets of offered "
        "mechanisms x all preference lists of length <= 3 (exhaustive). Non-trivial = a mechanism is chosen and at least one "
        "challenge is sent, or none is offered; distinct = distinct case lines.")
TRUSTED_BASE = c05.TRUSTED_BASE + ["Spec/AuthSpec.lean (PLAIN / LOGIN / XOAUTH2 wire formats)", "Base64 model: dec (enc x) = some x is proved; "
                                   "enc/dec are tied to the base64 crate through every AUTH line of the correspondence"]
ASSUMPTIONS = c05.ASSUMPTIONS + ["EHLO keywords are matched case-sensitively by the client (an `auth plain` line is ignored: fails safe, not demanded)"]
EXHAUSTIVE_PARTS = ["mechanism choice: all 8 subsets of {PLAIN, LOGIN, XOAUTH2} offered x all preference lists of length <= 3"]


def gen(tier, rng):
    n = {"quick": 2500, "search": 8000, "thorough": 40000}[tier]
    cases = smtpgen.auth_cases(rng, n)
    import itertools
    mechs = ["PLAIN", "LOGIN", "XOAUTH2"]
    letters = {"PLAIN": "P", "LOGIN": "L", "XOAUTH2": "X"}
    i = 0
    for k in range(4):
        for offered in itertools.combinations(mechs, k):
            for plen in range(4):
                for prefs in itertools.product("PLX", repeat=plen):
                    feats = (["AUTH " + " ".join(offered)] if offered else [])
                    steps = [smtpgen.step(b"220 srv\r\n"), smtpgen.step(smtpgen.ehlo_reply(rng, feats)),
                             smtpgen.step(b"334 VXNlcm5hbWU6\r\n"), smtpgen.step(b"334 UGFzc3dvcmQ6\r\n"), smtpgen.step(b"235 ok\r\n"),
                             smtpgen.step(b"221 bye\r\n")]
                    cases.append(smtpgen.client_case("sa"[i % 2], "c.example", "AQ", "a@b.c", ["x@y.z"], b"m", "".join(prefs), "user", "secretpw", steps))
                    i += 1
    return cases


def nontrivial(case):
    f = case.split("\t")
    return "333334" in f[10] or f[7] == "-" or ":c" in f[10]


def shrinkable(case):
    return [8, 9]


def distribution(cases):
    d = c05.distribution(cases)
    for c in cases:
        f = c.split("\t")
        d["prefs_" + f[7]] = d.get("prefs_" + f[7], 0) + 1
    return d
