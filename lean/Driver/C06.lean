import Driver.Client
import LettreVerif.Model.Tls
namespace LV.Driver.C06
open LV LV.Response LV.Client LV.Tls LV.Driver LV.Driver.ClientOp

def parseMode (s : String) : Option Mode :=
  if s == "n" then some .none else if s == "o" then some .opportunistic else if s == "r" then some .required
  else if s == "w" then some .wrapper else none

def parseCert (s : String) : Option Cert :=
  if s == "g" then some .good else if s == "w" then some .wrongName else if s == "s" then some .selfSigned
  else if s == "e" then some .expired else none

def stripQuit (l : List Bytes) : List Bytes := if l.getLast? == some quitLine then l.dropLast else l

def isOneOf (u : Bytes) (ls : List Bytes) : Bool := ls.contains u

/-- the mechanism named on an `AUTH <MECH> …` line -/
def authMechOf (u : Bytes) : Option AuthSpec.Mech :=
  if (str "AUTH PLAIN").isPrefixOf u then some .plain
  else if (str "AUTH LOGIN").isPrefixOf u then some .login
  else if (str "AUTH XOAUTH2").isPrefixOf u then some .xoauth2 else none

def isMailUnit (u : Bytes) : Bool :=
  (str "MAIL FROM:").isPrefixOf u || (str "RCPT TO:").isPrefixOf u || u == dataLine || (str "AUTH ").isPrefixOf u

/-- flags `<add root 0|1|2><store none><accept invalid certs><accept invalid hostnames>[<platform trusts the test CA>]` -/
def expHandshake (cert : Cert) (flags : String) : Bool :=
  match flags.toList with
  | a :: sn :: aic :: aih :: rest =>
    let addRoot := if a == '1' then 1 else if a == '2' then 2 else 0
    let platform := rest.head? == some '1'
    expectHandshakeA cert (anchored addRoot (sn == '1') platform) (aic == '1') (aih == '1')
  | _ => false

/-- C06 on the implementation's real transcript -/
def oracle (mode : Mode) (cert : Cert) (flagStr : String) (hasCreds : Bool) (prefs : Option (List Mech)) (user pass msg : Bytes)
    (clearScript tlsScript : List Step)
    (result handshake : String) (clear tls : List Bytes) : Option String :=
  let ehlo := ehloLine (str "c.example")
  let implOk := result.startsWith "ok:"
  let secretIn (us : List Bytes) : Bool := us.any fun u =>
    isMailUnit u || (msg.length ≥ 4 && (List.range u.length).any (fun i => msg.isPrefixOf (u.drop i)))
  -- O1: nothing but EHLO / STARTTLS / QUIT in clear under required / wrapper
  let o1 : Option String :=
    match mode with
    | .wrapper => if !clear.isEmpty then some "clear-octets-written-in-wrapper-mode" else none
    | .required => if clear.any (fun u => !isOneOf u [ehlo, starttlsLine, quitLine]) then some "credential-envelope-or-mail-in-clear-under-required" else none
    | _ => none
  if o1.isSome then o1 else
  let _ := (user, pass, hasCreds, secretIn)
  -- O6: the handshake outcome is what the configured connector must give
  let expHs := expHandshake cert flagStr
  if handshake == "ok" && !expHs then some "handshake-succeeded-although-certificate-must-be-rejected" else
  if handshake == "failed" && expHs then some "handshake-failed-although-certificate-must-be-accepted" else
  -- O2: fail closed
  let clearEhloReply : Option Resp := (clearScript.drop 1).head?.bind stepReply
  let offered := match clearEhloReply with | some r => Dialogue.advertises (str "STARTTLS") r | none => false
  let o2 : Option String :=
    match mode with
    | .required =>
      if (handshake != "ok") && (implOk || !tls.isEmpty) then some "required-TLS-not-established-but-send-proceeded" else none
    | .wrapper =>
      if (handshake != "ok") && (implOk || !tls.isEmpty) then some "wrapper-TLS-not-established-but-send-proceeded" else none
    | .none =>
      if clear.contains starttlsLine || handshake != "none" then some "TLS-mode-none-upgraded" else none
    | .opportunistic =>
      if simpleScript clearScript then
        (if offered && clearEhloReply.isSome then
           (if !clear.contains starttlsLine then some "opportunistic-did-not-upgrade-although-offered"
            else if clear.any isMailUnit then some "opportunistic-sent-mail-in-clear-although-STARTTLS-offered" else none)
         else if clear.contains starttlsLine then some "opportunistic-upgraded-although-not-offered" else none)
      else none
  if o2.isSome then o2 else
  -- O5: capabilities used inside TLS are those learned inside TLS
  let tlsEhloReply : Option Resp := (if mode == .wrapper then (tlsScript.drop 1).head? else tlsScript.head?).bind stepReply
  let o5 : Option String :=
    match tlsEhloReply with
    | none => none
    | some r =>
      let off := offeredMechs r
      match (tls.filterMap authMechOf).head? with
      | some m => if !off.contains m then some "AUTH-mechanism-not-offered-inside-TLS" else none
      | none => none
  if o5.isSome then o5 else
  -- O7 (C14): with credentials configured and none of the client's mechanisms advertised by the EHLO reply in effect,
  -- the send fails and no envelope or message is written
  let effective : Option Resp := if clear.contains starttlsLine || mode == .wrapper then tlsEhloReply else clearEhloReply
  let units := if clear.contains starttlsLine || mode == .wrapper then tls else clear
  match prefs, effective with
  | some ms, some r =>
    if r.code.1 == 2 && !(ms.any fun m => (offeredMechs r).contains (toSpecMech m)) && (implOk || units.any isMailUnit) then
      some "credentials-configured-no-usable-mechanism-but-mail-was-sent"
    else none
  | _, _ => none

def bits (s : String) : List Bool := s.toList.map (· == '1')

def tlsOp : List String → String
  | [_client, mode, cert, flags, mechs, user, pass, msg, clearS, tlsS, result, handshake, clearU, _clearTail, tlsU] =>
    if result == "PANIC" then propfail "panic" else
    match parseMode mode, parseCert cert, ofHex user, ofHex pass, ofHex msg, parseScript clearS, parseScript tlsS,
          hexList clearU, hexList tlsU with
    | some mode, some cert, some user, some pass, some msg, some cs, some ts, some cu, some tu =>
      let hasCreds := mechs != "-"
      match oracle mode cert flags hasCreds (if hasCreds then parseMechs mechs else none) user pass msg cs ts result handshake cu tu with
      | some e => propfail e
      | none =>
        let fl := bits flags
        -- a peer that closes right after its reply to STARTTLS cannot complete a handshake
        let starttlsCloses := mode != .wrapper && ((cs.drop 2).head?.map (·.close)).getD false
        let _ := fl
        let hs := expHandshake cert flags && !starttlsCloses
        let creds := if hasCreds then (parseMechs mechs).map fun ms => (ms, user, pass) else none
        let cfg : Cfg := ⟨mode, hs, str "c.example", creds⟩
        let (o, r) := sendOnce bufCheck cfg cs ts (some (str "a@b.c")) [str "x@y.z"] msg
        let mres := showRes r
        let mhs := if o.attempted && !starttlsCloses then (if hs then "ok" else "failed") else "none"
        if mres != result then s!"MISMATCH result model={mres}"
        else if mhs != handshake then s!"MISMATCH handshake model={mhs}"
        else if stripQuit o.clearUnits != stripQuit cu then s!"MISMATCH clear model={hexListStr o.clearUnits}"
        else if stripQuit o.tlsUnits != stripQuit tu then s!"MISMATCH tls model={hexListStr o.tlsUnits}"
        else "ok"
    | _, _, _, _, _, _, _, _, _ => "BADLINE"
  | l => if l.getLast? == some "PANIC" then propfail "panic" else "BADLINE"

/-- what a connection URL configures: (default port, TLS mode); `none` = refused -/
def urlPolicy (scheme tls : String) : Option (Nat × String) :=
  if scheme == "smtp" then
    (if tls == "-" then some (25, "None") else if tls == "required" then some (587, "Required")
     else if tls == "opportunistic" then some (587, "Opportunistic") else none)
  else if scheme == "smtps" then some (465, "Wrapper")
  else none

/-- the facts read off a builder's Debug text are usable: a port number and one of the four TLS modes -/
def factsOk (r : String) : Bool :=
  match r.splitOn "," with
  | [port, tls, _] => port.toNat?.isSome && ["None", "Opportunistic", "Required", "Wrapper"].contains tls
  | _ => false

/-- `ctor <kind> …`: the convenience constructors. What they configure is read off the builder's Debug text: when that
    text can no longer be read the correspondence is broken (`MISMATCH`), a readable configuration that is not the
    expected one is a failure of the property. -/
def ctorOp : List String → String
  | ["relay", host, rs, ra] =>
    let exp := s!"465,Wrapper,{host}"
    if rs == exp && ra == exp then "ok"
    else if !(factsOk rs && factsOk ra) then s!"MISMATCH ctor model={exp}"
    else propfail s!"relay-is-not-implicit-TLS-on-465:{rs}:{ra}"
  | ["starttls", host, rs, ra] =>
    let exp := s!"587,Required,{host}"
    if rs == exp && ra == exp then "ok"
    else if !(factsOk rs && factsOk ra) then s!"MISMATCH ctor model={exp}"
    else propfail s!"starttls_relay-is-not-required-TLS-on-587:{rs}:{ra}"
  | ["localhost", rs, ra] =>
    let exp := "25,None,6c6f63616c686f7374"
    if rs == exp && ra == exp then "ok" else s!"MISMATCH ctor model={exp}"
  | ["url", _url, scheme, tls, port, host, rs, ra] =>
    let exp := match urlPolicy scheme tls with
      | some (p, m) => s!"{if port == "-" then toString p else port},{m},{host}"
      | none => "err"
    if rs == "PANIC" then propfail "panic"
    else if rs == exp && ra == exp then "ok"
    else if exp == "err" && (factsOk rs || factsOk ra) then s!"MISMATCH ctor model={exp}"
    else if exp != "err" && !(factsOk rs && factsOk ra) then s!"MISMATCH ctor model={exp}"
    else propfail s!"connection-URL-configures-{rs}-and-{ra}-instead-of-{exp}"
  | ["mech", r] => if r == "101" then "ok" else s!"MISMATCH ctor model=101"
  | ["poolcfg", a, b, r1, r2] =>
    let exp := s!"{a},{b}"
    if r1 == exp && r2 == exp then "ok" else propfail s!"PoolConfig-setters-do-not-store-what-was-asked:{r1}:{r2}:asked={exp}"
  | l => if l.getLast? == some "PANIC" then propfail "panic" else "BADLINE"

end LV.Driver.C06
