import LettreVerif.Model.Bytes
/-! Helpers shared by the driver's per-property handlers. -/
namespace LV.Driver
open LV

/-- decode all hex fields or fail -/
def hexFields (fs : List String) : Option (List Bytes) := fs.mapM ofHex

/-- a comma separated list of hex strings (`-` = empty list, `_` = empty element) -/
def hexList (s : String) : Option (List Bytes) :=
  if s == "-" then some [] else
  (s.splitOn ",").mapM fun e => if e == "_" then some [] else ofHexChars e.toList

def mismatch (what : String) (model : Bytes) : String :=
  s!"MISMATCH {what} model={toHexField model}"

def propfail (what : String) : String := s!"PROPFAIL {what}"

end LV.Driver
