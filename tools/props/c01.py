"""C01 — Built message's envelope carries exactly the sender and recipients given."""
from tools import mboxgen
from tools.lv import hexs, unhex

LEVEL = "proof"
CORRESPONDENCE = ("Model/Builder.lean (text store: get = parse the Display text, join, set; build; Envelope::try_from) on top of "
                  "Model/Mailbox.lean and Model/Peg.lean vs MessageBuilder (from/sender/to/cc/bcc/reply_to/envelope/keep_bcc, body) "
                  "and Message::envelope / formatted")
RULE = ("build: random builder programs of 1..14 calls in any order (from, sender, to, cc, bcc, reply_to, explicit envelope, keep_bcc) over "
        "43 display names (blanks, specials, quotes, controls incl. NUL/CR/LF, non-ASCII) x 20 addresses (dot-atom, quoted local parts, "
        "UTF-8, IDN, IP literals); the typed-store specification computes the envelope the calls demand and is compared with "
        "Message::envelope(), the error kind, and the presence of Bcc in the formatted header section. Non-trivial = at least two calls "
        "to the same mailbox header, or a name needing quoting/encoding; distinct = distinct case lines.")
TRUSTED_BASE = ["Lean 4 kernel", "axioms: propext, Quot.sound, Classical.choice at most (see axioms per theorem)",
                "Builder.specBuild (typed store) as the meaning of the property", "harness lvh + line protocol + this orchestrator"]
ASSUMPTIONS = ["the addresses of the programs are accepted by Address (C16); the model re-validates them with a permissive environment"]
EXHAUSTIVE_PARTS = []


def gen(tier, rng):
    n = {"quick": 6000, "search": 20000, "thorough": 120000}[tier]
    return mboxgen.build_cases(rng, n)


def nontrivial(case):
    ops = case.split("\t")[1].split(",")
    kinds = [o[0] for o in ops]
    return any(kinds.count(k) > 1 for k in "FTCB") or any(o.split(":")[1] not in ("-",) for o in ops if o.count(":") == 2 and o[0] != "E")


def shrinkable(case):
    return []


def distribution(cases):
    d = {"with_envelope": 0, "with_keep_bcc": 0, "with_sender": 0, "multi_from": 0, "no_from": 0}
    for c in cases:
        ops = c.split("\t")[1].split(",")
        k = [o[0] for o in ops]
        d["with_envelope"] += "E" in k
        d["with_keep_bcc"] += "K" in k
        d["with_sender"] += "S" in k
        d["multi_from"] += k.count("F") > 1
        d["no_from"] += "F" not in k
    return d


FINDING_CLASSES = {}
