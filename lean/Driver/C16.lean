import Driver.Util
import LettreVerif.Model.Address
import LettreVerif.Spec.AddressSafe
namespace LV.Driver.C16
open LV LV.Address LV.Driver

def chars? (b : Bytes) : Option (List Char) :=
  (String.fromUTF8? (ByteArray.mk b.toArray)).map String.toList
def hexChars? (s : String) : Option (List Char) := (ofHex s).bind chars?
def charsHex (l : List Char) : String := toHexField (String.ofList l).toUTF8.data.toList

/-- the environment answers sent by the harness -/
def parseEnv (s : String) : Option Env := do
  let mut alnum : List Char := []
  let mut idn : List (List Char × Option (List Char)) := []
  let mut ips : List (List Char) := []
  for e in s.splitOn ";" do
    match e.splitOn ":" with
    | ["a", h] => alnum := alnum ++ (← hexChars? h)
    | ["i", d, "!"] => idn := ((← hexChars? d), none) :: idn
    | ["i", d, a] => idn := ((← hexChars? d), some (← hexChars? a)) :: idn
    | ["p", q] => ips := (← hexChars? q) :: ips
    | _ => none
  some {
    isAlnum := fun c => alnum.contains c
    idna := fun d => (idn.lookup d).getD none
    isIp := fun q => ips.contains q }

def showRes : Except Err Addr → String
  | .ok a => s!"ok:{charsHex a.user}:{charsHex a.domain}:{charsHex a.serialized}"
  | .error .missingParts => "err:MissingParts"
  | .error .invalidUser => "err:InvalidUser"
  | .error .invalidDomain => "err:InvalidDomain"

/-- user and domain of an implementation result `ok:<user>:<domain>[:…]` -/
def implParts (res : String) : Option (List Char × List Char) :=
  match res.splitOn ":" with
  | "ok" :: u :: d :: _ => do some ((← hexChars? u), (← hexChars? d))
  | _ => none

def addrOp : List String → String
  | [s, res, env] =>
    if res == "PANIC" then propfail "panic" else
    if res.startsWith "ctor-differs" then propfail s!"constructors-of-Address-disagree-on-the-same-string:{res}" else
    match hexChars? s, parseEnv env with
    | some cs, some e =>
      -- oracle on the implementation's own answer
      match implParts res with
      | some (u, d) =>
        if u ++ '@' :: d != cs then propfail "user@domain-does-not-rejoin"
        else if !AddressSafe.safe u d then propfail "unsafe-address-accepted"
        else if showRes (parse e cs) == res then "ok" else s!"MISMATCH addr model={showRes (parse e cs)}"
      | none =>
        if res.startsWith "ok" then "BADLINE"
        else if showRes (parse e cs) == res then "ok" else s!"MISMATCH addr model={showRes (parse e cs)}"
    | _, _ => "BADLINE"
  | [_, "PANIC"] => propfail "panic"
  | _ => "BADLINE"

def addrnewOp : List String → String
  | [u, d, res, pres, env] =>
    if res == "PANIC" then propfail "panic" else
    if res.startsWith "ctor-differs" then propfail s!"constructors-of-Address-disagree-on-the-same-parts:{res}" else
    match hexChars? u, hexChars? d, parseEnv env with
    | some u, some d, some e =>
      let implOk := res.startsWith "ok"
      let parseOk := pres.startsWith "ok"
      -- `new(u, d)` accepts exactly when parsing `u@d` accepts it as user `u`, domain `d`
      let parseSame := parseOk && implParts pres == some (u, d)
      if implOk && !parseSame then propfail "new-accepts-what-parse-does-not"
      else if parseSame && !implOk then propfail "parse-accepts-what-new-does-not"
      else
        match implParts res with
        | some (u', d') =>
          if u' != u || d' != d then propfail "parts-differ-from-arguments"
          else if !AddressSafe.safe u' d' then propfail "unsafe-address-accepted"
          else if showRes (new e u d) == res then "ok" else s!"MISMATCH addrnew model={showRes (new e u d)}"
        | none => if showRes (new e u d) == res then "ok" else s!"MISMATCH addrnew model={showRes (new e u d)}"
    | _, _, _ => "BADLINE"
  | [_, _, "PANIC"] => propfail "panic"
  | _ => "BADLINE"

def addrrtOp : List String → String
  | [_, flags] =>
    if flags == "PANIC" then propfail "panic"
    else if flags == "rejected" || flags == "111111" then "ok"
    else propfail s!"round-trip-flags={flags}"
  | _ => "BADLINE"

def envelopeOp : List String → String
  | [_from, to, res, de, rt] =>
    if res == "PANIC" then propfail "panic" else
    let empty := to == "-"
    if empty then
      if res != "err:MissingTo" then propfail "empty-recipient-list-constructed"
      else if de != "de-err" then propfail "empty-recipient-list-deserialised"
      else "ok"
    else
      if !res.startsWith "ok" then propfail "non-empty-envelope-refused"
      else if de != "de-ok-equal" then propfail s!"envelope-json-{de}"
      else if rt != "rt-equal" then propfail "envelope-serde-roundtrip"
      else "ok"
  | [_, _, "PANIC"] => propfail "panic"
  | _ => "BADLINE"

/-- `envhdrs <from> <to> <cc> <bcc> | direct built`: the envelope derived from a header map (`Envelope::try_from(&Headers)`) and
    by the message builder, where a recipient field is absent (`x`), present with an empty list (`-`) or a list: an envelope
    never has an empty recipient list, and when there are recipients and a From it is exactly From and To, Cc, Bcc in order -/
def envhdrsOp : List String → String
  | [from_, to, cc, bcc, direct, built] =>
    if direct == "PANIC" || built == "PANIC" then propfail "panic" else
    let lst (s : String) : Option (List Bytes) := if s == "x" || s == "-" then some [] else hexList s
    match lst to, lst cc, lst bcc with
    | some t, some c, some b =>
      let all := t ++ c ++ b
      let judge (what res : String) : Option String :=
        match res.splitOn ":" with
        | ["ok", f, rc] =>
          if rc == "-" || rc == "" then some s!"envelope-without-recipients-{what}"
          else if hexList rc != some all then some s!"envelope-recipients-differ-{what}"
          else if from_ != "-" && f != from_ then some s!"envelope-reverse-path-differs-{what}"
          else none
        | _ => if all != [] && from_ != "-" then some s!"envelope-refused-although-complete-{what}" else none
      match judge "from-headers" direct, judge "from-builder" built with
      | some e, _ => propfail e
      | _, some e => propfail e
      | none, none => "ok"
    | _, _, _ => "BADLINE"
  | l => if l.contains "PANIC" then propfail "panic" else "BADLINE"

/-- `envjson <json> | res`: however an envelope comes into being, it has a recipient -/
def envjsonOp : List String → String
  | [_js, res] =>
    if res == "PANIC" then propfail "panic"
    else if res == "err" then "ok"
    else match res.splitOn ":" with
      | ["ok", _from, to] => if to == "-" || to == "" then propfail "envelope-without-recipients-deserialised" else "ok"
      | _ => "BADLINE"
  | _ => "BADLINE"

def toAddr (e : Env) (s : List Char) : Option Addr :=
  match parse e s with | .ok a => some a | .error _ => none

/-- split an already accepted address at its last `@` (no validation: the harness only
    passes addresses the implementation accepted) -/
def splitAddr (s : List Char) : Option Addr := (splitLastAt [] s).map fun (u, d) => ⟨u, d⟩

def mailcmdOp : List String → String
  | [from_, to, m, r] =>
    if m == "PANIC" then propfail "panic" else
    match hexChars? to, hexChars? m, hexChars? r with
    | some to, some m, some r =>
      let f? : Option (Option Addr) :=
        if from_ == "-" then some none else (hexChars? from_).bind fun s => (splitAddr s).map some
      match f?, splitAddr to with
      | some f, some t =>
        if !AddressSafe.singleCrlfLine m || !AddressSafe.singleCrlfLine r then propfail "command-line-with-inner-CR-or-LF"
        else if m != mailLine f then s!"MISMATCH mail model={charsHex (mailLine f)}"
        else if r != rcptLine t then s!"MISMATCH rcpt model={charsHex (rcptLine t)}"
        else "ok"
      | _, _ => "BADLINE"
    | _, _, _ => "BADLINE"
  | [_, _, "PANIC"] => propfail "panic"
  | _ => "BADLINE"

def argvOp : List String → String
  | [from_, to, rc, argv] =>
    if rc == "PANIC" then propfail "panic" else
    match hexList to, hexList argv with
    | some tos, some av =>
      let f? : Option (Option Addr) :=
        if from_ == "-" then some none else (hexChars? from_).bind fun s => (splitAddr s).map some
      match f?, tos.mapM (fun b => (chars? b).bind splitAddr), av.mapM chars? with
      | some f, some ts, some av =>
        let m := sendmailArgv f ts
        -- oracle: every recipient is one element after `--`, nothing but -i / -f sender before
        let dd := av.idxOf dashDash
        if dd ≥ av.length then propfail "argv-without-double-dash"
        else if av.drop (dd + 1) != ts.map Addr.serialized then propfail "recipients-not-exactly-after-double-dash"
        else if av != m then s!"MISMATCH argv model={",".intercalate (m.map charsHex)}"
        else if rc != "ok" then propfail "fake-sendmail-failed"
        else "ok"
      | _, _, _ => "BADLINE"
    | _, _ => "BADLINE"
  | [_, _, "PANIC"] => propfail "panic"
  | _ => "BADLINE"

/-- `envcheck`: the harness reports violations of assumptions A1–A3 found on the real
    `is_alphanumeric` (all code points), `domain_to_ascii` and `IpAddr` parser: none expected -/
def envcheckOp : List String → String
  | [a1, a2, a3] =>
    let bad (s : String) : Bool := match s.splitOn ":" with
      | [_, _, v] => v != ""
      | _ => true
    if bad a1 then propfail s!"assumption-A1-violated:{a1}"
    else if bad a2 then propfail s!"assumption-A2-violated:{a2}"
    else if bad a3 then propfail s!"assumption-A3-violated:{a3}"
    else "ok"
  | _ => "BADLINE"

end LV.Driver.C16
