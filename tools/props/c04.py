"""C04 — SMTP dialogue is valid and carries the exact envelope, whatever the server says."""
from tools import smtpgen
from tools.props import c05
from tools.lv import hexs, unhex

LEVEL = "proof"
RETRY_TIMING = True
CORRESPONDENCE = c05.CORRESPONDENCE + "; Model/XText.lean vs XText / MailParameter / RcptParameter / Ehlo Display"
RULE = ("client cases as in C05 (every dialogue position x fault kind, random scripts, all envelope shapes incl. no / UTF-8 reverse path, "
        "quoted and UTF-8 local parts, 8-bit content, all subsets of advertised extensions, hello names); mailparam: custom MAIL/RCPT "
        "parameters whose value ranges over every single octet 0..255 (exhaustive) and random strings (controls, '+', '=', space, "
        "DEL, non-ASCII), keywords incl. CR/LF; ehlocmd: domain / IPv4 / IPv6 client ids incl. CR/LF in the domain form. "
        "Non-trivial = non-ASCII envelope or content, more than one recipient, a fault in the script, or a value needing xtext escapes.")
TRUSTED_BASE = c05.TRUSTED_BASE + ["Spec/XTextSpec.lean as the reading of RFC 3461 xtext (non-ASCII accepted as itself)"]
ASSUMPTIONS = c05.ASSUMPTIONS
EXHAUSTIVE_PARTS = c05.EXHAUSTIVE_PARTS + ["xtext: every single octet value 0..255 as a parameter value (valid UTF-8 ones)"]


def gen(tier, rng):
    n, nparam = {"quick": (1200, 1500), "search": (5000, 6000), "thorough": (20000, 30000)}[tier]
    cases = smtpgen.send_cases(rng, n)
    for cp in list(range(0, 128)) + [0xe9, 0x2764, 0x1f600]:
        cases.append(f"mailparam\t{hexs('KEY')}\t{hexs(chr(cp))}")
        cases.append(f"mailparam\t{hexs('KEY')}\t{hexs('a' + chr(cp) + 'b')}")
    alphabet = "ab+= \t\r\n\x00\x7f\x01\x0féø❤"
    # values that look xtext-encoded already (`+HH`) next to octets that still need escaping (round 7: C04/m19)
    for v in ["QQ+2B314159 Z=1", "+2B", "+2B ", "+41=", "a+7Fb\x7f", "+2b", "+4", "++41", "+41+", "x+3D y", "+0D\r", "+00\x00+20 "]:
        cases.append(f"mailparam\t{hexs('ENVID')}\t{hexs(v)}")
    hexish = "+++2B4A1F0Dab= \t\x7f"
    for _ in range(nparam):
        v = "".join(rng.choice(alphabet if rng.random() < 0.6 else hexish) for _ in range(rng.randint(0, 12)))
        kw = rng.choice(["ORCPT", "NOTIFY", "X-K", "RET", "ENVID"])
        if rng.random() < 0.1:
            cases.append(f"mailparam\t{hexs(kw)}\t-")
        else:
            cases.append(f"mailparam\t{hexs(kw)}\t{hexs(v)}")
    for kw in ["K\r\nRSET", "K Y", "K\nZ", "K=V"]:
        cases.append(f"mailparam\t{hexs(kw)}\t{hexs('v')}")
    for h in ["client.example", "localhost", "x", "a b", "h\r\nMAIL FROM:<x@y>", "h\nx", "h\rx", "é.example", ""]:
        cases.append(f"ehlocmd\td\t{hexs(h)}")
    for h in ["127.0.0.1", "10.1.2.3"]:
        cases.append(f"ehlocmd\t4\t{hexs(h)}")
    for h in ["::1", "2001:db8::1"]:
        cases.append(f"ehlocmd\t6\t{hexs(h)}")
    for n_ in (0, 1, 42, 10 ** 9):
        cases.append(f"mailstd\t{n_}")
    return cases


def timing_dependent(case):
    # a real client against a real peer with read timeouts: a disagreement is re-run alone before it counts
    return case.split("\t")[0] in ("pool", "wstall", "client", "tls", "sched")


def nontrivial(case):
    f = case.split("\t")
    if f[0] == "client":
        return c05.nontrivial(case) or "," in f[5] or any(b > 127 for b in unhex(f[6]))
    if f[0] == "mailparam":
        return f[2] != "-" and any(b < 33 or b in (43, 61, 127) for b in unhex(f[2]))
    return True


def shrinkable(case):
    f = case.split("\t")
    return {"client": [6], "mailparam": [1, 2], "ehlocmd": [2]}.get(f[0], [])


def distribution(cases):
    d = c05.distribution([c for c in cases if c.startswith("client")])
    for c in cases:
        op = c.split("\t", 1)[0]
        if op != "client":
            d[op] = d.get(op, 0) + 1
    return d


def _kw_crlf(f, o, v):
    return f[0] == "mailparam" and any(b in unhex(f[1]) for b in b"\r\n")


def _hello_crlf(f, o, v):
    return f[0] == "ehlocmd" and f[1] == "d" and any(b in unhex(f[2]) for b in b"\r\n")


FINDING_CLASSES = {"param-keyword-with-CR-or-LF": _kw_crlf, "hello-domain-with-CR-or-LF": _hello_crlf}
