/-!
# S: what "runs away" means for a series of timings

`pts` = (input size, fastest wall time in µs) for sizes that double.  A series is super-linear
when two consecutive doublings each cost more than 3.2 times the previous size (linear costs
2, n log n about 2.1, quadratic 4), counted only above 20 ms where timer noise is small.
-/
namespace LV.Cost

def ratioAtLeast (a b : Nat) (num den : Nat) : Bool := b * den ≥ a * num   -- b / a ≥ num / den

def superLinear : List (Nat × Nat) → Bool
  | (_, t0) :: (n1, t1) :: (n2, t2) :: rest =>
    (t0 ≥ 20000 && ratioAtLeast t0 t1 32 10 && ratioAtLeast t1 t2 32 10) || superLinear ((n1, t1) :: (n2, t2) :: rest)
  | _ => false

end LV.Cost
