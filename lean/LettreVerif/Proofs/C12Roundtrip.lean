import LettreVerif.Proofs.Rfc2047Dec
import LettreVerif.Proofs.Rfc2047Enc
/-!
# C12: the reader gives back the value (assembly of the encoder side and the reader side)
-/
namespace LV.C12Proof
open LV LV.HeaderEnc LV.Rfc2047Dec

theorem ew_eq (d : Bytes) : ew d = encw d := rfl

/-! ## literal text that a reader never takes for an encoded-word -/

/-- no SP / HTAB separated piece of the text is an encoded-word -/
def EncFree' (l : Bytes) : Prop := ∀ u ∈ wsTokens [] l, encWord? u = none

theorem isWs_eq (b : Byte) : (b == 32 || b == 9) = isWs b := rfl

/-- every word token of the reader is one of the SP / HTAB separated pieces -/
theorem words_sub : ∀ (l acc : Bytes) (c : Bool) (w : Bytes), (c = true → acc ≠ []) →
    Tok.word w ∈ tokens l acc c → w ∈ wsTokens (if c then [] else acc) l
  | [], acc, c, w, hc, h => by
    simp only [tokens] at h
    split at h
    · simp at h
    · cases c with
      | true => simp at h
      | false => simp at h; simp [wsTokens, h]
  | b :: r, acc, c, w, hc, h => by
    rw [tokens] at h
    cases c with
    | true =>
      have hacc := hc rfl
      simp only [if_true]
      by_cases hb : isWs b = true
      · have hcond : (isWs b == true || acc.isEmpty) = true := by simp [hb]
        rw [if_pos hcond, hb] at h
        have := words_sub r (b :: acc) true w (by intro _; simp) h
        simp only [if_true] at this
        rw [wsTokens, isWs_eq, hb]; simp [this]
      · have hb' : isWs b = false := by simpa using hb
        have hcond : ¬ ((isWs b == true || acc.isEmpty) = true) := by simp [hb', hacc]
        rw [if_neg hcond, hb'] at h
        simp only [if_true, List.mem_cons, reduceCtorEq, false_or] at h
        have := words_sub r [b] false w (by intro e; cases e) h
        simp only [Bool.false_eq_true, if_false] at this
        rw [wsTokens, isWs_eq, hb']; simpa using this
    | false =>
      simp only [Bool.false_eq_true, if_false]
      by_cases hb : isWs b = true
      · by_cases hacc : acc = []
        · subst hacc
          have hcond : (isWs b == false || ([] : Bytes).isEmpty) = true := by simp
          rw [if_pos hcond, hb] at h
          have := words_sub r [b] true w (by intro _; simp) h
          simp only [if_true] at this
          rw [wsTokens, isWs_eq, hb]; simp [this]
        · have hcond : ¬ ((isWs b == false || acc.isEmpty) = true) := by simp [hb, hacc]
          rw [if_neg hcond, hb] at h
          simp only [Bool.false_eq_true, if_false, List.mem_cons, Tok.word.injEq] at h
          rw [wsTokens, isWs_eq, hb]
          simp only [if_true, List.mem_cons]
          rcases h with e | h
          · exact Or.inl e
          · have := words_sub r [b] true w (by intro _; simp) h
            simp only [if_true] at this
            exact Or.inr this
      · have hb' : isWs b = false := by simpa using hb
        have hcond : (isWs b == false || acc.isEmpty) = true := by simp [hb']
        rw [if_pos hcond, hb'] at h
        have := words_sub r (b :: acc) false w (by intro e; cases e) h
        simp only [Bool.false_eq_true, if_false] at this
        rw [wsTokens, isWs_eq, hb']; simpa using this

theorem encFree_of (l : Bytes) (h : EncFree' l) : EncFree l := by
  intro w hw
  have := words_sub l [] false w (by intro e; cases e) hw
  exact h w (by simpa using this)

theorem wsTokens_append : ∀ (a cur b u : Bytes), endsWs a → u ∈ wsTokens cur (a ++ b) →
    u ∈ wsTokens cur a ∨ u ∈ wsTokens [] b
  | [], _, _, _, ⟨r, x, e, _⟩, _ => by simp at e
  | [x], cur, b, u, ⟨r, y, e, hy⟩, h => by
    have hx : isWs x = true := by
      cases r with
      | nil => simp at e; rw [e]; exact hy
      | cons _ r' => have := congrArg List.length e; simp at this
    simp only [List.cons_append, List.nil_append] at h
    rw [wsTokens, isWs_eq, hx] at h
    simp only [if_true, List.mem_cons] at h
    rw [wsTokens, isWs_eq, hx]
    simp only [if_true, List.mem_cons]
    rcases h with e' | h
    · exact Or.inl (Or.inl e')
    · exact Or.inr h
  | x :: y :: a, cur, b, u, ⟨r, z, e, hz⟩, h => by
    have hends : endsWs (y :: a) := by
      cases r with
      | nil => have := congrArg List.length e; simp at this
      | cons r0 r' =>
        simp only [List.cons_append, List.cons.injEq] at e
        exact ⟨r', z, e.2, hz⟩
    simp only [List.cons_append] at h
    rw [wsTokens] at h ⊢
    by_cases hx : (x == 32 || x == 9) = true
    · simp only [hx, if_true, List.mem_cons] at h ⊢
      rcases h with e' | h
      · exact Or.inl (Or.inl e')
      · rcases wsTokens_append (y :: a) [] b u hends (by simpa using h) with h' | h'
        · exact Or.inl (Or.inr h')
        · exact Or.inr h'
    · simp only [hx, if_false] at h ⊢
      exact wsTokens_append (y :: a) (x :: cur) b u hends (by simpa using h)

theorem encFree'_append (a b : Bytes) (ha : EncFree' a) (hb : EncFree' b) (h : a = [] ∨ endsWs a) : EncFree' (a ++ b) := by
  rcases h with h | h
  · subst h; simpa using hb
  · intro u hu
    rcases wsTokens_append a [] b u h hu with h' | h'
    · exact ha u h'
    · exact hb u h'

theorem wsTokens_spaces (n : Nat) : ∀ u ∈ wsTokens [] (List.replicate n 32), u = [] := by
  induction n with
  | zero => simp [wsTokens]
  | succ n ih =>
    intro u hu
    rw [List.replicate_succ, wsTokens] at hu
    simp only [beq_self_eq_true, Bool.true_or, if_true, List.reverse_nil, List.mem_cons] at hu
    rcases hu with e | hu
    · exact e
    · exact ih u hu

theorem encFree'_spaces (n : Nat) : EncFree' (List.replicate n 32) := by
  intro u hu
  rw [wsTokens_spaces n u hu]; decide

theorem lower_eq (b : Byte) (c : Byte) (hc : ¬ (97 ≤ c.toNat ∧ c.toNat ≤ 122)) (h : lower b = c) : b = c := by
  simp only [lower] at h
  split at h
  · rename_i hb
    exfalso; apply hc
    rw [← h]
    have : (b + 32).toNat = b.toNat + 32 := by
      rw [UInt8.toNat_add]; have := b.toNat_lt; simp; omega
    omega
  · exact h

/-- a piece without the shape `=?…?=` is not an encoded-word -/
theorem not_marker_not_enc (t : Bytes)
    (h : (t.length ≥ 4 && [61, 63].isPrefixOf t && t.drop (t.length - 2) == [63, 61]) = false) : encWord? t = none := by
  simp only [encWord?]
  split
  · rename_i hc
    exfalso
    simp only [Bool.and_eq_true, decide_eq_true_eq, beq_iff_eq] at hc
    obtain ⟨⟨⟨h75, h12⟩, hp⟩, hsuf⟩ := hc
    have hpre : [61, 63].isPrefixOf t = true := by
      match t, h12 with
      | a :: b :: rest, _ =>
        simp only [List.take, List.map_cons, prefixLc, List.cons.injEq] at hp
        have ha := lower_eq a 61 (by decide) hp.1
        have hb := lower_eq b 63 (by decide) hp.2.1
        subst ha; subst hb; simp
    have : (t.length ≥ 4 && [61, 63].isPrefixOf t && t.drop (t.length - 2) == [63, 61]) = true := by
      simp only [Bool.and_eq_true, decide_eq_true_eq, beq_iff_eq]
      exact ⟨⟨by omega, hpre⟩, hsuf⟩
    rw [this] at h; cases h
  · rfl

theorem encFree'_word (w : Bytes) (h : hasEncMarker w = false) : EncFree' w := by
  intro u hu
  simp only [hasEncMarker, List.any_eq_false] at h
  have := h u hu
  exact not_marker_not_enc u (by simpa using this)

/-! ## chains, built from the left -/

def MidOK (p : Bytes × Bytes) : Prop :=
  p.1 ≠ [] ∧ p.1.length ≤ 45 ∧ EncFree' p.2 ∧ startsWs p.2 ∧ endsWs p.2

/-- what the reader shows for pairs that all have a successor -/
def semM : List (Bytes × Bytes) → Bytes
  | [] => []
  | (d, l) :: rest => d ++ (if allWs l = true then [] else l) ++ semM rest

theorem renderC_append (a b : List (Bytes × Bytes)) : renderC (a ++ b) = renderC a ++ renderC b := by
  induction a with
  | nil => simp [renderC]
  | cons p a ih => obtain ⟨d, l⟩ := p; simp [renderC, ih, List.append_assoc]

theorem semM_append (a b : List (Bytes × Bytes)) : semM (a ++ b) = semM a ++ semM b := by
  induction a with
  | nil => simp [semM]
  | cons p a ih => obtain ⟨d, l⟩ := p; simp [semM, ih, List.append_assoc]

theorem semC_snoc (mid : List (Bytes × Bytes)) (d l : Bytes) : semC (mid ++ [(d, l)]) = semM mid ++ d ++ l := by
  induction mid with
  | nil => simp [semC, semM]
  | cons p a ih => obtain ⟨d', l'⟩ := p; simp [semC, semM, ih, List.append_assoc]

theorem wfc_snoc (mid : List (Bytes × Bytes)) (d l : Bytes) (hm : ∀ q ∈ mid, MidOK q)
    (hd : d ≠ []) (hd45 : d.length ≤ 45) (hl : EncFree' l) (hs : l = [] ∨ startsWs l) : WFC (mid ++ [(d, l)]) := by
  induction mid with
  | nil => exact ⟨hd, hd45, encFree_of l hl, hs, by intro h; exact absurd rfl h, trivial⟩
  | cons p a ih =>
    obtain ⟨d', l'⟩ := p
    obtain ⟨h1, h2, h3, h4, h5⟩ := hm (d', l') (by simp)
    exact ⟨h1, h2, encFree_of l' h3, Or.inr h4, fun _ => h5, ih (fun q hq => hm q (by simp [hq]))⟩

/-- the pairs of one run of encoded-words: one space between them, `tail` after the last -/
def runPairs : List Bytes → Bytes → List (Bytes × Bytes)
  | [], _ => []
  | [d], tail => [(d, tail)]
  | d :: d' :: ds, tail => (d, [32]) :: runPairs (d' :: ds) tail

theorem ws32 : startsWs [32] ∧ endsWs [32] ∧ allWs [32] = true :=
  ⟨⟨32, [], rfl, rfl⟩, ⟨[], 32, rfl, rfl⟩, rfl⟩

/-- a non-empty run is: pairs that have a successor, then the last word and what follows it -/
theorem runPairs_split : ∀ (ds : List Bytes) (tail : Bytes), ds ≠ [] →
    ∃ mid dl, runPairs ds tail = mid ++ [(dl, tail)] ∧ ds.getLast? = some dl ∧
      (∀ q ∈ mid, q.2 = [32] ∧ q.1 ∈ ds) ∧ renderC (runPairs ds tail) = run1 ds ++ tail ∧
      semM mid ++ dl = ds.flatten
  | [], _, h => absurd rfl h
  | [d], tail, _ => ⟨[], d, rfl, rfl, by intro q hq; simp at hq, by simp [runPairs, renderC, run1, runR, ew_eq], by simp [semM]⟩
  | d :: d' :: ds, tail, _ => by
    obtain ⟨mid, dl, e, hl, hm, hr, hsem⟩ := runPairs_split (d' :: ds) tail (by simp)
    refine ⟨(d, [32]) :: mid, dl, by simp [runPairs, e], by simpa using hl, ?_, ?_, ?_⟩
    · intro q hq
      rcases List.mem_cons.mp hq with rfl | hq
      · exact ⟨rfl, by simp⟩
      · exact ⟨(hm q hq).1, List.mem_cons_of_mem _ (hm q hq).2⟩
    · simp only [runPairs, renderC, hr]
      simp [run1, runR, ew_eq, List.append_assoc]
    · simp only [semM, ws32.2.2, if_true, List.append_nil, List.flatten_cons, List.append_assoc]
      rw [hsem]; simp

/-! ## the invariant: what a reader makes of what has been written so far -/

def E32 (x : Bytes) : Prop := x = [] ∨ ∃ r, x = r ++ [32]
def NoEnd32 (d : Bytes) : Prop := ∀ r, d ≠ r ++ [32]

/-- `c` is what the reader shows for the writer's current content (pending spaces included). Either no encoded-word
    has been written, or the content is literal text `l0`, pairs that have a successor, a last encoded-word `d` and
    the literal text `l` after it. `strict`: `l` is not blank. -/
def Sem (strict : Bool) (w : W) (c : Bytes) : Prop :=
  (EncFree' w.view ∧ w.view = c) ∨
  ∃ l0 mid d l, w.view = l0 ++ renderC mid ++ encw d ++ l ∧ c = l0 ++ semM mid ++ d ++ l ∧ EncFree' l0 ∧
    (l0 = [] ∨ endsWs l0) ∧ (∀ q ∈ mid, MidOK q) ∧ d ≠ [] ∧ d.length ≤ 45 ∧ EncFree' l ∧ (l = [] ∨ startsWs l) ∧
    (l = [] → NoEnd32 d) ∧ (strict = true → allWs l = false)

theorem sem_weaken {b : Bool} {w : W} {c : Bytes} (h : Sem b w c) : Sem false w c := by
  rcases h with h | ⟨l0, mid, d, l, h1, h2, h3, h4, h5, h6, h7, h8, h9, h10, _⟩
  · exact Or.inl h
  · exact Or.inr ⟨l0, mid, d, l, h1, h2, h3, h4, h5, h6, h7, h8, h9, h10, by intro e; cases e⟩

/-- the reader gives back `c` -/
theorem sem_decode {b : Bool} {w : W} {c : Bytes} (h : Sem b w c) : decToks (tokens w.view [] false) false = c := by
  rcases h with ⟨h1, h2⟩ | ⟨l0, mid, d, l, h1, h2, h3, h4, h5, h6, h7, h8, h9, _, _⟩
  · have := decode_segments w.view [] (encFree_of _ h1) (Or.inr (Or.inl rfl)) trivial
    simpa [renderC, semC, h2] using this
  · have hw := wfc_snoc mid d l h5 h6 h7 h8 h9
    have := decode_segments l0 (mid ++ [(d, l)]) (encFree_of _ h3)
      (by rcases h4 with h | h; exact Or.inl h; exact Or.inr (Or.inr h)) hw
    rw [renderC_append, semC_snoc] at this
    simp only [renderC, List.append_nil] at this
    rw [h1, h2]
    simpa [List.append_assoc] using this

theorem e32_endsWs (x : Bytes) (h : E32 x) (hne : x ≠ []) : endsWs x := by
  rcases h with h | ⟨r, h⟩
  · exact absurd h hne
  · exact ⟨r, 32, h, rfl⟩

theorem startsWs_append (l x : Bytes) (h : startsWs l) : startsWs (l ++ x) := by
  obtain ⟨a, r, e, ha⟩ := h
  exact ⟨a, r ++ x, by rw [e]; simp, ha⟩

theorem allWs_append_false (l x : Bytes) (h : allWs l = false ∨ allWs x = false) : allWs (l ++ x) = false := by
  simp only [allWs, List.all_append, Bool.and_eq_false_iff] at *
  exact h

/-- in the chain case, text that ends with a space ends inside the literal text after the last encoded-word -/
theorem last_lit_of_e32 (pre d l : Bytes) (hd : d ≠ []) (hne : l = [] → NoEnd32 d) (h : E32 (pre ++ d ++ l)) :
    l ≠ [] ∧ endsWs l := by
  rcases h with h | ⟨r, h⟩
  · simp at h; exact absurd h.2.1 hd
  · by_cases hl : l = []
    · exfalso
      subst hl
      simp only [List.append_nil] at h
      obtain ⟨d0, dx, hdx⟩ : ∃ d0 dx, d = d0 ++ [dx] := by
        refine ⟨d.dropLast, d.getLast hd, (List.dropLast_concat_getLast hd).symm⟩
      rw [hdx, ← List.append_assoc] at h
      have := List.append_inj' h rfl
      have hx : dx = 32 := by simpa using this.2
      exact hne rfl d0 (by rw [hdx, hx])
    · refine ⟨hl, ?_⟩
      obtain ⟨l1, lx, hlx⟩ : ∃ l1 lx, l = l1 ++ [lx] := ⟨l.dropLast, l.getLast hl, (List.dropLast_concat_getLast hl).symm⟩
      rw [hlx, ← List.append_assoc] at h
      have := List.append_inj' h rfl
      have hx : lx = 32 := by simpa using this.2
      exact ⟨l1, lx, hlx, by rw [hx]; rfl⟩

/-- literal text is appended -/
theorem sem_lit {b : Bool} {w w' : W} {c : Bytes} (x : Bytes) (h : Sem b w c) (hc : E32 c) (hx : EncFree' x)
    (hv : w'.view = w.view ++ x) (b' : Bool) (hb' : b' = true → b = true ∨ allWs x = false) : Sem b' w' (c ++ x) := by
  rcases h with ⟨h1, h2⟩ | ⟨l0, mid, d, l, h1, h2, h3, h4, h5, h6, h7, h8, h9, h10, h11⟩
  · left
    refine ⟨?_, by rw [hv, h2]⟩
    rw [hv]
    apply encFree'_append _ _ h1 hx
    by_cases hne : w.view = []
    · exact Or.inl hne
    · exact Or.inr (e32_endsWs _ (h2 ▸ hc) hne)
  · right
    have hl := last_lit_of_e32 (l0 ++ semM mid) d l h6 h10 (by rw [h2] at hc; simpa [List.append_assoc] using hc)
    refine ⟨l0, mid, d, l ++ x, by rw [hv, h1]; simp [List.append_assoc], by rw [h2]; simp [List.append_assoc], h3, h4, h5, h6, h7,
      encFree'_append _ _ h8 hx (Or.inr hl.2), Or.inr ?_, ?_, ?_⟩
    · rcases h9 with h | h
      · exact absurd h hl.1
      · exact startsWs_append _ _ h
    · intro e; exfalso; apply hl.1; simpa using (List.append_eq_nil_iff.mp e).1
    · intro hb
      apply allWs_append_false
      rcases hb' hb with hb | hb
      · exact Or.inl (h11 hb)
      · exact Or.inr hb

theorem midOK_space (d : Bytes) (hd : d ≠ []) (h45 : d.length ≤ 45) : MidOK (d, [32]) :=
  ⟨hd, h45, encFree'_spaces 1, ws32.1, ws32.2.1⟩

theorem spaces_startsWs (n : Nat) : List.replicate n (32 : Byte) = [] ∨ startsWs (List.replicate n 32) := by
  cases n with
  | zero => left; rfl
  | succ k => right; exact ⟨32, List.replicate k 32, by simp [List.replicate_succ], rfl⟩

/-- a run of encoded-words (and the spaces after it) is appended -/
theorem sem_run {w w' : W} {c : Bytes} (ds : List Bytes) (n : Nat) (h : Sem true w c) (hc : E32 c) (hne : ds ≠ [])
    (hgood : ∀ d ∈ ds, d ≠ [] ∧ d.length ≤ 45) (hlast : ∀ dl, ds.getLast? = some dl → NoEnd32 dl)
    (hv : w'.view = w.view ++ run1 ds ++ List.replicate n 32) : Sem false w' (c ++ ds.flatten ++ List.replicate n 32) := by
  obtain ⟨mid', dl, e, hl, hm, hr, hsem⟩ := runPairs_split ds (List.replicate n 32) hne
  have hdl : dl ∈ ds := List.mem_of_getLast? hl
  have hmid' : ∀ q ∈ mid', MidOK q := by
    intro q hq
    obtain ⟨h2, h1⟩ := hm q hq
    have := midOK_space q.1 (hgood _ h1).1 (hgood _ h1).2
    rw [← h2] at this; exact this
  have hrend : run1 ds ++ List.replicate n 32 = renderC mid' ++ encw dl ++ List.replicate n 32 := by
    rw [← hr, e, renderC_append]; simp [renderC, List.append_assoc]
  right
  rcases h with ⟨h1, h2⟩ | ⟨l0, mid, d, l, h1, h2, h3, h4, h5, h6, h7, h8, h9, h10, h11⟩
  · refine ⟨w.view, mid', dl, List.replicate n 32, by rw [hv, List.append_assoc, hrend]; simp [List.append_assoc], ?_, h1, ?_, hmid',
      (hgood _ hdl).1, (hgood _ hdl).2, encFree'_spaces n, spaces_startsWs n, fun _ => hlast dl hl, by intro e; cases e⟩
    · rw [← hsem, h2]; simp [List.append_assoc]
    · by_cases hv0 : w.view = []
      · exact Or.inl hv0
      · exact Or.inr (e32_endsWs _ (h2 ▸ hc) hv0)
  · have hlx := last_lit_of_e32 (l0 ++ semM mid) d l h6 h10 (by rw [h2] at hc; simpa [List.append_assoc] using hc)
    have hstart : startsWs l := by rcases h9 with h | h; exact absurd h hlx.1; exact h
    have hmid2 : ∀ q ∈ mid ++ [(d, l)] ++ mid', MidOK q := by
      intro q hq
      simp only [List.mem_append, List.mem_cons, List.not_mem_nil, or_false] at hq
      rcases hq with (hq | hq) | hq
      · exact h5 q hq
      · rw [hq]; exact ⟨h6, h7, h8, hstart, hlx.2⟩
      · exact hmid' q hq
    refine ⟨l0, mid ++ [(d, l)] ++ mid', dl, List.replicate n 32, ?_, ?_, h3, h4, hmid2,
      (hgood _ hdl).1, (hgood _ hdl).2, encFree'_spaces n, spaces_startsWs n, fun _ => hlast dl hl, by intro e; cases e⟩
    · rw [hv, List.append_assoc, hrend, h1, renderC_append, renderC_append]
      simp [renderC, List.append_assoc]
    · rw [← hsem, h2, semM_append, semM_append]
      simp [semM, h11 rfl, List.append_assoc]

/-- pending spaces are added -/
theorem view_addSpaces {w : W} (h : Inv w) (n : Nat) :
    ({ w with spaces := w.spaces + n } : W).view = w.view ++ List.replicate n 32 := by
  have e : ({ w with spaces := w.spaces + n } : W).out = w.out ++ List.replicate n 32 := by
    simp [W.out, W.bytes, List.replicate_append_replicate, List.append_assoc]
  rw [W.view, e, unfold_append _ _ _ (Nat.le_refl _) (view_scan h), unfold_plain _ (plain_spaces n)]; rfl

theorem trimEnd_noEnd32 (s : Bytes) : NoEnd32 (trimEnd s) := by
  intro r e
  simp only [trimEnd] at e
  have := congrArg List.reverse e
  simp only [List.reverse_reverse, List.reverse_append, List.reverse_cons, List.reverse_nil, List.nil_append,
    List.cons_append] at this
  -- the first octet after dropping spaces is not a space
  have hd : ∀ (l : Bytes), (l.dropWhile (· == 32)).head? ≠ some 32 := by
    intro l
    induction l with
    | nil => simp
    | cons x r ih =>
      rw [List.dropWhile_cons]
      split
      · exact ih
      · rename_i hx; simp at hx ⊢; exact hx
  apply hd s.reverse
  rw [this]; rfl

/-- `flush_encode_buf`: the buffered words are written as one run of encoded-words, their trailing spaces follow -/
theorem sem_flush {w : W} {c : Bytes} (buf : Bytes) (hi : Inv w) (h : Sem true w c) (hc : buf ≠ [] → E32 c)
    (hu : ContRunsLe3 buf) : Sem false (flushBuf w buf) (c ++ buf) := by
  unfold flushBuf
  split
  · rename_i he; have : buf = [] := by simpa using he
    subst this; simpa using sem_weaken h
  · rename_i hne
    have hbuf : buf ≠ [] := by simpa using hne
    have hcc := hc hbuf
    obtain ⟨t, ht⟩ := trimEnd_prefix buf
    have hp : ContRunsLe3 (trimEnd buf) := by rw [ht] at hu; exact contRuns_prefix _ _ hu
    obtain ⟨ds, hds, hgood, hinv', hview⟩ := rfc_view (2 * (trimEnd buf).length + 4) w (trimEnd buf) false
      (by split <;> omega) hp hi (by intro e; cases e)
    simp only [Bool.false_eq_true, false_and, if_false] at hview
    have hsplit := trimEnd_split buf
    have hv2 := view_addSpaces hinv' (buf.length - (trimEnd buf).length)
    by_cases hd0 : ds = []
    · -- nothing but spaces
      subst hd0
      simp only [List.flatten_nil] at hds
      rw [← hds] at hsplit
      simp only [List.nil_append] at hsplit
      have hv3 : ({ rfc2047 (2 * (trimEnd buf).length + 4) w (trimEnd buf) false with
          spaces := (rfc2047 (2 * (trimEnd buf).length + 4) w (trimEnd buf) false).spaces + (buf.length - (trimEnd buf).length) } : W).view
          = w.view ++ buf := by
        rw [hv2, hview]
        have : (trimEnd buf).length = 0 := by rw [← hds]; rfl
        rw [this]
        simp only [this, List.length_nil, Nat.sub_zero] at hsplit
        simp [run1, hsplit]
      have := sem_lit buf h hcc (by rw [← hsplit]; exact encFree'_spaces _) hv3 false (by intro e; cases e)
      exact this
    · have hlast : ∀ dl, ds.getLast? = some dl → NoEnd32 dl := by
        intro dl hdl r e
        obtain ⟨init, hinit⟩ : ∃ init, ds = init ++ [dl] := by
          refine ⟨ds.dropLast, ?_⟩
          have := List.dropLast_concat_getLast hd0
          rw [List.getLast?_eq_getLast hd0] at hdl
          rw [← Option.some.inj hdl]; exact this.symm
        have : trimEnd buf = (init.flatten ++ r) ++ [32] := by
          rw [← hds, hinit, e]; simp [List.append_assoc]
        exact trimEnd_noEnd32 buf _ this
      have hv3 : ({ rfc2047 (2 * (trimEnd buf).length + 4) w (trimEnd buf) false with
          spaces := (rfc2047 (2 * (trimEnd buf).length + 4) w (trimEnd buf) false).spaces + (buf.length - (trimEnd buf).length) } : W).view
          = w.view ++ run1 ds ++ List.replicate (buf.length - (trimEnd buf).length) 32 := by
        rw [hv2, hview]
      have := sem_run ds (buf.length - (trimEnd buf).length) h hcc hd0 hgood hlast hv3
      rw [hds] at this
      rw [List.append_assoc, hsplit] at this
      exact this

/-! ## the loop over the words of the value -/

/-- every word but the last ends with a space -/
def WordsOK : List Bytes → Prop
  | [] => True
  | [_] => True
  | x :: y :: r => (∃ r', x = r' ++ [32]) ∧ WordsOK (y :: r)

theorem wordsOK_cons (x : Bytes) (rest : List Bytes) (hx : ∃ r', x = r' ++ [32]) (h : WordsOK rest) : WordsOK (x :: rest) := by
  cases rest with
  | nil => trivial
  | cons y r => exact ⟨hx, h⟩

theorem wordsOK_tail (x : Bytes) (rest : List Bytes) (h : WordsOK (x :: rest)) : WordsOK rest := by
  cases rest with
  | nil => trivial
  | cons y r => exact h.2

theorem wordsOK_head (x : Bytes) (rest : List Bytes) (h : WordsOK (x :: rest)) (hne : rest ≠ []) : ∃ r', x = r' ++ [32] := by
  cases rest with
  | nil => exact absurd rfl hne
  | cons y r => exact h.1

theorem splitInclusive_ok : ∀ (s acc : Bytes), WordsOK (splitInclusive acc s)
  | [], acc => by
    simp only [splitInclusive]; split <;> trivial
  | c :: cs, acc => by
    simp only [splitInclusive]
    split
    · rename_i hc
      have : c = 32 := by simpa using hc
      subst this
      exact wordsOK_cons _ _ ⟨acc.reverse, by simp⟩ (splitInclusive_ok cs [])
    · exact splitInclusive_ok cs (c :: acc)

theorem e32_append (a x : Bytes) (hx : ∃ r, x = r ++ [32]) : E32 (a ++ x) := by
  obtain ⟨r, e⟩ := hx
  exact Or.inr ⟨a ++ r, by rw [e]; simp⟩

theorem sem_hv : ∀ (ws : List Bytes) (w : W) (buf c : Bytes), HeaderEnc.Inv w → Sem true w c →
    ContRunsLe3 (buf ++ ws.flatten) → ((ws ≠ [] ∨ buf ≠ []) → E32 c) → (ws ≠ [] → E32 (c ++ buf)) → WordsOK ws →
    Sem false (hvWords opts w buf ws) (c ++ buf ++ ws.flatten)
  | [], w, buf, c, hi, h, hu, h1, _, _ => by
    simp only [hvWords, List.flatten_nil, List.append_nil]
    exact sem_flush buf hi h (fun hb => h1 (Or.inr hb)) (by simpa using hu)
  | word :: ws, w, buf, c, hi, h, hu, h1, h2, hok => by
    have hc : E32 c := h1 (Or.inl (by simp))
    have hcb : E32 (c ++ buf) := h2 (by simp)
    have hwend : ws ≠ [] → ∃ r', word = r' ++ [32] := wordsOK_head word ws hok
    simp only [hvWords]
    split
    · rename_i hcond
      simp only [opts, Bool.and_eq_true, Bool.not_eq_true', Bool.true_and] at hcond
      obtain ⟨⟨hall, hmark⟩, hjoin⟩ := hcond
      have hplain := allowed_plain word hall
      have hbufu : ContRunsLe3 buf := contRuns_prefix _ _ hu
      have hi1 := inv_flushBuf hi buf hbufu
      have hi2 := inv_foldWrite hi1 word hplain
      have hv := view_foldWrite hi1 word hplain
      have hfree := encFree'_word word hmark
      have hs2 : Sem true (foldWrite (flushBuf w buf) word) (c ++ buf ++ word) := by
        by_cases hb : buf = []
        · subst hb
          have e : flushBuf w [] = w := by simp [flushBuf]
          rw [e] at hv ⊢
          simpa using sem_lit word h hc hfree hv true (fun _ => Or.inl rfl)
        · have hs1 := sem_flush buf hi h (fun _ => hc) hbufu
          have hnb : allWs word = false := by
            have : buf.isEmpty = false := by simpa using hb
            simp only [this, Bool.not_false, Bool.true_and] at hjoin
            simpa [allWs, isWs] using hjoin
          exact sem_lit word hs1 hcb hfree hv true (fun _ => Or.inr hnb)
      have hu' : ContRunsLe3 ([] ++ ws.flatten) := by
        have := contRuns_drop _ (buf ++ word).length hu
        have e : buf ++ (word :: ws).flatten = (buf ++ word) ++ ws.flatten := by simp
        rw [e, List.drop_left] at this
        simpa using this
      have hE : (ws ≠ [] ∨ ([] : Bytes) ≠ []) → E32 (c ++ buf ++ word) := by
        intro hne
        rcases hne with hne | hne
        · exact e32_append _ _ (hwend hne)
        · exact absurd rfl hne
      have := sem_hv ws _ [] (c ++ buf ++ word) hi2 hs2 hu' hE
        (fun hne => by simpa using hE (Or.inl hne)) (wordsOK_tail word ws hok)
      simpa [List.append_assoc] using this
    · have := sem_hv ws w (buf ++ word) c hi h (by simpa [List.append_assoc] using hu) (fun _ => hc)
        (fun hne => by rw [← List.append_assoc]; exact e32_append _ _ (hwend hne)) (wordsOK_tail word ws hok)
      simpa [List.append_assoc] using this

/-- **C12, unstructured values**: for every text, the RFC 2047 reader applied to the encoded value gives back the
    text — every octet, inner and trailing spaces included -/
theorem decode_encodeValue (nameLen : Nat) (value : Bytes) (hu : ContRunsLe3 value) :
    Rfc2047Dec.decode (encodeValue opts nameLen value) = value := by
  have hi : HeaderEnc.Inv (⟨[], nameLen + 2, 0, false⟩ : W) := Or.inl rfl
  have h0 : Sem true (⟨[], nameLen + 2, 0, false⟩ : W) [] := by
    left
    have : (⟨[], nameLen + 2, 0, false⟩ : W).view = [] := by simp [W.view, W.out, W.bytes, HeaderReader.unfold]
    rw [this]
    exact ⟨by intro u hu; simp [wsTokens] at hu; subst hu; decide, rfl⟩
  have := sem_hv (splitInclusive [] value) _ [] [] hi h0 (by simpa [splitInclusive_flatten] using hu)
    (fun _ => Or.inl rfl) (fun _ => Or.inl rfl) (splitInclusive_ok value [])
  rw [splitInclusive_flatten] at this
  simp only [List.reverse_nil, List.nil_append] at this
  have hd := sem_decode this
  unfold encodeValue Rfc2047Dec.decode
  rw [out_flush]
  exact hd

end LV.C12Proof
