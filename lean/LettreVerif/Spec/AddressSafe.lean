import LettreVerif.Model.Address
/-!
# S: what "safe to place in MAIL FROM / RCPT TO / argv" means for an address `user@domain`

No control character anywhere (C0, DEL, C1 — in particular CR, LF, NUL, HTAB); no `@` in the
domain (so the last `@` is the separator); space and angle brackets only inside a quoted
local part.
-/
namespace LV.AddressSafe

def isControl (c : Char) : Bool :=
  let n := c.toNat
  n < 0x20 || n == 0x7F || (0x80 ≤ n && n ≤ 0x9F)

def isQuoted (u : List Char) : Bool := 2 ≤ u.length && u.head? == some '"' && u.getLast? == some '"'

/-- neither a control character, nor space, `<`, `>` -/
def plainChar (c : Char) : Bool := !isControl c && c.toNat != 32 && c.toNat != 60 && c.toNat != 62

/-- plain and not `@` -/
def good (c : Char) : Bool := plainChar c && c.toNat != 64

def safe (u d : List Char) : Bool :=
  d.all good && (if isQuoted u then u.all (fun c => !isControl c) else u.all good)

/-- a rendered command line has exactly one CRLF, at its end, and no other CR or LF -/
def singleCrlfLine (l : List Char) : Bool :=
  match l.reverse with
  | '\n' :: '\r' :: body => body.all (fun c => c != '\r' && c != '\n')
  | _ => false

end LV.AddressSafe
