import LettreVerif.Model.Dkim
import LettreVerif.Proofs.Headers
import LettreVerif.Spec.DkimVerifier
namespace LV.Dkim
open LV LV.Headers

theorem stripRev_crlf (r : Bytes) :
    stripRev (10 :: 13 :: r) = 10 :: 13 :: DkimVerifier.dropCrlfRev r := by
  fun_induction DkimVerifier.dropCrlfRev r with
  | case1 r ih => rw [stripRev]; exact ih
  | case2 r h =>
    rw [stripRev]
    intro r' hr
    simp at hr
    exact h r' hr

/-- the signer's `simple` body hash input (it always hashes `body ++ CRLF`) is the reader's -/
theorem simple_body_agrees (o : Opts) (body : Bytes) :
    bodyCanon o .simple (body ++ CRLF) = DkimVerifier.simpleBody body := by
  simp only [bodyCanon, stripEmptyLines, DkimVerifier.simpleBody, DkimVerifier.stripTrailingCrlfs, CRLF]
  have h : (body ++ [13, 10]).reverse = 10 :: 13 :: body.reverse := by simp
  rw [h, stripRev_crlf]
  simp

/-! ## relaxed body -/

/-- no CRLF inside -/
def hasCrlf : Bytes → Bool
  | 13 :: 10 :: _ => true
  | _ :: r => hasCrlf r
  | [] => false

theorem hasCrlf_cons (b c : Byte) (t : Bytes) (h : ¬(b = 13 ∧ c = 10)) :
    hasCrlf (b :: c :: t) = hasCrlf (c :: t) := by
  conv => lhs; unfold hasCrlf
  split
  · rename_i heq; simp at heq; exact absurd ⟨heq.1, heq.2.1⟩ h
  · rename_i heq; simp at heq; obtain ⟨rfl, rfl⟩ := heq; rfl
  · rename_i heq; simp at heq

theorem hasCrlf_tail {b : Byte} {l : Bytes} (h : hasCrlf (b :: l) = false) : hasCrlf l = false := by
  cases l with
  | nil => rfl
  | cons c r =>
    by_cases hb : b = 13 ∧ c = 10
    · obtain ⟨rfl, rfl⟩ := hb; simp [hasCrlf] at h
    · rwa [hasCrlf_cons _ _ _ hb] at h

open DkimVerifier in
theorem splitLines_spec (b : Bytes) :
    b = joinLines (splitLines b).1 ++ (splitLines b).2 ∧
    (∀ l ∈ (splitLines b).1, hasCrlf l = false) ∧ hasCrlf (splitLines b).2 = false := by
  fun_induction splitLines b with
  | case1 r ls rest hs ih =>
    simp only [hs] at ih
    obtain ⟨h1, h2, h3⟩ := ih
    refine ⟨?_, ?_, h3⟩
    · simp only [joinLines, List.map_cons, List.flatten_cons, CRLF] at h1 ⊢
      simp only [List.nil_append, List.cons_append, List.cons.injEq, true_and]
      exact h1
    · intro l hl
      simp at hl
      rcases hl with rfl | hl
      · rfl
      · exact h2 l hl
  | case2 b r hne l ls rest hs ih =>
    simp only [hs] at ih
    obtain ⟨h1, h2, h3⟩ := ih
    refine ⟨?_, ?_, h3⟩
    · simp only [joinLines, List.map_cons, List.flatten_cons] at h1 ⊢
      simp only [List.cons_append, List.cons.injEq, true_and]
      simpa [List.append_assoc] using h1
    · intro l' hl'
      simp at hl'
      rcases hl' with rfl | hl'
      · have hl := h2 l (by simp)
        cases l with
        | nil => simp [hasCrlf]
        | cons c t =>
          by_cases hb : b = 13 ∧ c = 10
          · obtain ⟨rfl, rfl⟩ := hb
            exfalso
            exact hne (t ++ CRLF ++ (joinLines ls ++ rest)) rfl (by rw [h1]; simp [joinLines, CRLF])
          · rw [hasCrlf_cons _ _ _ hb]; exact hl
      · exact h2 l' (by simp [hl'])
  | case3 b r hne rest hs ih =>
    simp only [hs] at ih
    obtain ⟨h1, _, h3⟩ := ih
    refine ⟨?_, by simp, ?_⟩
    · simp [joinLines] at h1 ⊢; exact h1
    · simp only
      cases rest with
      | nil => simp [hasCrlf]
      | cons c t =>
        by_cases hb : b = 13 ∧ c = 10
        · obtain ⟨rfl, rfl⟩ := hb
          exfalso
          exact hne t rfl (by simpa [joinLines] using h1)
        · rw [hasCrlf_cons _ _ _ hb]; exact h3
  | case4 => simp [joinLines, hasCrlf]

open DkimVerifier

theorem dropWhile_snoc (p : Byte → Bool) (xs : Bytes) (c : Byte) :
    (xs ++ [c]).dropWhile p =
      if (xs.dropWhile p).isEmpty then (if p c then [] else [c]) else xs.dropWhile p ++ [c] := by
  induction xs with
  | nil => by_cases hc : p c <;> simp [List.dropWhile, hc]
  | cons x xs ih =>
    simp only [List.cons_append, List.dropWhile_cons]
    by_cases hx : p x
    · simp [hx, ih]
    · simp [hx]

theorem strip_cons (c : Byte) (l : Bytes) :
    stripTrailingWsp (c :: l) =
      if DkimVerifier.isWsp c && (stripTrailingWsp l).isEmpty then [] else c :: stripTrailingWsp l := by
  simp only [stripTrailingWsp, List.reverse_cons, dropWhile_snoc]
  by_cases h1 : (List.dropWhile DkimVerifier.isWsp l.reverse).isEmpty
  · by_cases h2 : DkimVerifier.isWsp c
    · simp [h1, h2]
    · simp [h1, h2]; simpa using h1
  · simp [h1]

theorem compress_nonwsp (a : Byte) (x : Bytes) (h : DkimVerifier.isWsp a = false) :
    compressWsp (a :: x) = a :: compressWsp x := by
  cases x with
  | nil => simp [compressWsp, h]
  | cons b r => simp [compressWsp, h]

theorem compress_wsp_wsp (a b : Byte) (x : Bytes) (ha : DkimVerifier.isWsp a = true) (hb : DkimVerifier.isWsp b = true) :
    compressWsp (a :: b :: x) = compressWsp (b :: x) := by
  simp [compressWsp, ha, hb]

theorem compress_wsp_non (a b : Byte) (x : Bytes) (ha : DkimVerifier.isWsp a = true) (hb : DkimVerifier.isWsp b = false) :
    compressWsp (a :: b :: x) = 32 :: compressWsp (b :: x) := by
  simp [compressWsp, ha, hb]

theorem isWsp_eq (c : Byte) : Dkim.isWsp c = DkimVerifier.isWsp c := rfl

theorem strip_head_nonwsp (d : Byte) (l : Bytes) (hd : DkimVerifier.isWsp d = false) :
    stripTrailingWsp (d :: l) = d :: stripTrailingWsp l := by
  rw [strip_cons]; simp [hd]

theorem relaxedGo_line (l tail : Bytes) (hl : hasCrlf l = false) :
    relaxedGo (l ++ 13 :: 10 :: tail) = relaxedLine l ++ 13 :: 10 :: relaxedGo tail := by
  induction l with
  | nil =>
    simp [relaxedLine, stripTrailingWsp, compressWsp, relaxedGo, Dkim.isWsp]
  | cons c l ih =>
    have hl' := hasCrlf_tail hl
    have ih := ih hl'
    by_cases hc : DkimVerifier.isWsp c = true
    · cases l with
      | nil =>
        simp only [List.nil_append, List.cons_append] at ih ⊢
        rw [relaxedGo]
        simp only [isWsp_eq, hc, if_true]
        simp [relaxedLine, hc, stripTrailingWsp, compressWsp] at ih ⊢
        exact ih
      | cons d l =>
        simp only [List.cons_append] at ih ⊢
        rw [relaxedGo]
        · simp only [isWsp_eq, hc, if_true]
          by_cases hd : DkimVerifier.isWsp d = true
          · have : relaxedLine (c :: d :: l) = relaxedLine (d :: l) := by
              simp only [relaxedLine]
              rw [strip_cons c]
              by_cases he : (stripTrailingWsp (d :: l)).isEmpty
              · simp [hc, he]; simp at he; rw [he]
              · simp [he]
                rw [strip_cons d] at he ⊢
                by_cases he2 : (stripTrailingWsp l).isEmpty
                · simp [hd, he2] at he
                · simp [hd, he2]
                  exact compress_wsp_wsp _ _ _ hc hd
            rw [this, ← ih]; simp [hd]
          · have hd' : DkimVerifier.isWsp d = false := by simpa using hd
            have : relaxedLine (c :: d :: l) = 32 :: relaxedLine (d :: l) := by
              simp only [relaxedLine]
              rw [strip_cons c, strip_head_nonwsp d l hd']
              simp
              exact compress_wsp_non _ _ _ hc hd'
            rw [this, List.cons_append, ← ih]; simp [hd']
        · intro t hd13 h2
          subst hd13
          cases l with
          | nil => simp at h2
          | cons e l => simp at h2; obtain ⟨rfl, _⟩ := h2; simp [hasCrlf] at hl'
    · have hc' : DkimVerifier.isWsp c = false := by simpa using hc
      simp only [List.cons_append]
      rw [relaxedGo.eq_def]
      simp only [isWsp_eq, hc', Bool.false_eq_true, if_false]
      simp only [relaxedLine] at ih ⊢
      rw [strip_head_nonwsp c l hc', compress_nonwsp _ _ hc']
      simp [ih]

theorem relaxedGo_lines (ls : List Bytes) (x : Bytes) (h : ∀ l ∈ ls, hasCrlf l = false) :
    relaxedGo (joinLines ls ++ x) = joinLines (ls.map relaxedLine) ++ relaxedGo x := by
  induction ls with
  | nil => simp [joinLines]
  | cons l ls ih =>
    have hl := h l (by simp)
    have ih := ih (fun l' hl' => h l' (by simp [hl']))
    simp only [joinLines, List.map_cons, List.flatten_cons, CRLF, List.append_assoc, List.cons_append,
      List.nil_append] at ih ⊢
    rw [relaxedGo_line l _ hl, ih]

theorem relaxedGo_body (body : Bytes) : relaxedGo (body ++ CRLF) = reduceWsp body ++ CRLF := by
  obtain ⟨h1, h2, h3⟩ := splitLines_spec body
  conv => lhs; rw [h1]
  simp only [reduceWsp, List.append_assoc]
  rw [relaxedGo_lines _ _ h2]
  simp only [CRLF]
  rw [relaxedGo_line _ [] h3]
  simp [relaxedGo]

theorem stripEmptyLines_crlf (x : Bytes) :
    stripEmptyLines (x ++ CRLF) = DkimVerifier.stripTrailingCrlfs x ++ CRLF := by
  simp only [stripEmptyLines, DkimVerifier.stripTrailingCrlfs, CRLF]
  have h : (x ++ [13, 10]).reverse = 10 :: 13 :: x.reverse := by simp
  rw [h, stripRev_crlf]
  simp

/-- the signer's `relaxed` body hash input (it always hashes `body ++ CRLF`) is the reader's,
    for every body -/
theorem relaxed_body_agrees (o : Opts) (ho : o.emptyRelaxed = true) (body : Bytes) :
    bodyCanon o .relaxed (body ++ CRLF) = DkimVerifier.relaxedBody body := by
  simp only [bodyCanon, ho, Bool.true_and, relaxedGo_body body, stripEmptyLines_crlf, DkimVerifier.relaxedBody]
  generalize DkimVerifier.stripTrailingCrlfs (reduceWsp body) = s
  cases s with
  | nil => simp
  | cons a t =>
    simp [CRLF]
    intro _ h
    have := congrArg List.length h
    simp at this


/-! ## the CRLF supplied by SMTP DATA framing does not change the reader's canonical body -/

theorem simpleBody_crlf (b : Bytes) : simpleBody (b ++ CRLF) = simpleBody b := by
  simp only [simpleBody, stripTrailingCrlfs, CRLF]
  have h : (b ++ [13, 10]).reverse = 10 :: 13 :: b.reverse := by simp
  rw [h, dropCrlfRev]

theorem splitLines_append_crlf (b : Bytes) :
    splitLines (b ++ CRLF) = ((splitLines b).1 ++ [(splitLines b).2], []) := by
  fun_induction splitLines b with
  | case1 r ls rest hs ih =>
    simp only [hs] at ih
    simp only [List.cons_append]
    rw [splitLines, ih]
  | case2 b r hne l ls rest hs ih =>
    simp only [hs] at ih
    simp only [List.cons_append]
    rw [splitLines, ih]
    · simp
    · intro r' hb hr
      cases r with
      | nil => simp [CRLF] at hr
      | cons c t => simp at hr; exact hne t hb (by rw [hr.1])
  | case3 b r hne rest hs ih =>
    simp only [hs] at ih
    simp only [List.cons_append]
    rw [splitLines, ih]
    · simp
    · intro r' hb hr
      cases r with
      | nil => simp [CRLF] at hr
      | cons c t => simp at hr; exact hne t hb (by rw [hr.1])
  | case4 => simp [CRLF, splitLines]

theorem reduceWsp_crlf (b : Bytes) : reduceWsp (b ++ CRLF) = reduceWsp b ++ CRLF := by
  simp only [reduceWsp, splitLines_append_crlf]
  simp [joinLines, relaxedLine, stripTrailingWsp, compressWsp]

theorem stripTrailingCrlfs_crlf (x : Bytes) : stripTrailingCrlfs (x ++ CRLF) = stripTrailingCrlfs x := by
  simp only [stripTrailingCrlfs, CRLF]
  have h : (x ++ [13, 10]).reverse = 10 :: 13 :: x.reverse := by simp
  rw [h, dropCrlfRev]

theorem relaxedBody_crlf (b : Bytes) : relaxedBody (b ++ CRLF) = relaxedBody b := by
  simp only [relaxedBody, reduceWsp_crlf b, stripTrailingCrlfs_crlf]

/-! ## relaxed header canonicalization: the kernel against RFC 6376 §3.4.2, field by field -/


/-- no CR and no LF at all -/
def flat (u : Bytes) : Bool := u.all fun c => c != 13 && c != 10

theorem relH_value_fold (c : Byte) (r : Bytes) (hc : DkimVerifier.isWsp c = true) :
    relH .value (13 :: 10 :: c :: r) = relH .value (c :: r) := by
  rw [relH]; simp [isWsp_eq, hc]

theorem flat_tail {c : Byte} {l : Bytes} (h : flat (c :: l) = true) : flat l = true ∧ c ≠ 13 ∧ c ≠ 10 := by
  simp [flat] at h ⊢
  exact ⟨h.2, h.1.1, h.1.2⟩

/-- what ends a field: CRLF followed by nothing or by an octet that is not SP / HTAB -/
def endsField (next : Bytes) : Prop := ∀ d t, next = d :: t → DkimVerifier.isWsp d = false

theorem relH_value_end (next : Bytes) (hn : endsField next) :
    relH .value (13 :: 10 :: next) = 13 :: 10 :: relH .name next := by
  cases next with
  | nil => rw [relH]; simp [relH]
  | cons d t =>
    have := hn d t rfl
    have h2 : Dkim.isWsp d = false := this
    conv => lhs; rw [relH]
    rw [if_neg (by simp [h2])]

theorem relH_value_flat (u next : Bytes) (hu : flat u = true) (hn : endsField next) :
    relH .value (u ++ 13 :: 10 :: next) = relaxedLine u ++ 13 :: 10 :: relH .name next := by
  induction u with
  | nil =>
    simp [relaxedLine, stripTrailingWsp, compressWsp, relH_value_end next hn]
  | cons c l ih =>
    obtain ⟨hl', hc13, hc10⟩ := flat_tail hu
    have ih := ih hl'
    by_cases hc : DkimVerifier.isWsp c = true
    · cases l with
      | nil =>
        simp only [List.nil_append, List.cons_append] at ih ⊢
        rw [relH]
        · simp only [isWsp_eq, hc, if_true]
          simp [relaxedLine, hc, stripTrailingWsp, compressWsp] at ih ⊢
          exact ih
        all_goals (intros; simp_all)
      | cons d l =>
        obtain ⟨_, hd13, hd10⟩ := flat_tail hl'
        simp only [List.cons_append] at ih ⊢
        rw [relH]
        · simp only [isWsp_eq, hc, if_true]
          by_cases hd : DkimVerifier.isWsp d = true
          · have : relaxedLine (c :: d :: l) = relaxedLine (d :: l) := by
              simp only [relaxedLine]
              rw [strip_cons c]
              by_cases he : (stripTrailingWsp (d :: l)).isEmpty
              · simp [hc, he]; simp at he; rw [he]
              · simp [he]
                rw [strip_cons d] at he ⊢
                by_cases he2 : (stripTrailingWsp l).isEmpty
                · simp [hd, he2] at he
                · simp [hd, he2]
                  exact compress_wsp_wsp _ _ _ hc hd
            rw [this, ← ih]; simp [hd]
          · have hd' : DkimVerifier.isWsp d = false := by simpa using hd
            have : relaxedLine (c :: d :: l) = 32 :: relaxedLine (d :: l) := by
              simp only [relaxedLine]
              rw [strip_cons c, strip_head_nonwsp d l hd']
              simp
              exact compress_wsp_non _ _ _ hc hd'
            rw [this, List.cons_append, ← ih]
            have hcc : c = 32 ∨ c = 9 := by
              simp [DkimVerifier.isWsp] at hc; exact hc
            rcases hcc with rfl | rfl <;> simp [hd', hd13]
        all_goals (intros; simp_all)
    · have hc' : DkimVerifier.isWsp c = false := by simpa using hc
      simp only [List.cons_append]
      cases l with
      | nil =>
        simp only [List.nil_append] at ih ⊢
        rw [relH]
        · simp only [isWsp_eq, hc', Bool.false_eq_true, if_false]
          simp only [relaxedLine] at ih ⊢
          rw [strip_head_nonwsp c [] hc', compress_nonwsp _ _ hc']
          simp [ih]
        all_goals (intros; simp_all)
      | cons d l =>
        simp only [List.cons_append] at ih ⊢
        rw [relH]
        · simp only [isWsp_eq, hc', Bool.false_eq_true, if_false]
          simp only [relaxedLine] at ih ⊢
          rw [strip_head_nonwsp c (d :: l) hc', compress_nonwsp _ _ hc']
          simp [ih]
        all_goals (intros; simp_all)

theorem unfold_cons_ne13 (e : Byte) (r : Bytes) (he : e ≠ 13) : HeaderReader.unfold (e :: r) = e :: HeaderReader.unfold r := by
  rw [HeaderReader.unfold]
  all_goals (intros; simp_all)

theorem wf_cons_ne13 {e : Byte} {r : Bytes} (h : wfValue (e :: r) = true) (he : e ≠ 13) : e ≠ 10 ∧ wfValue r = true := by
  by_cases h10 : e = 10
  · subst h10; simp [wfValue] at h
  · refine ⟨h10, ?_⟩
    rw [wfValue] at h
    · exact h
    all_goals (intros; simp_all)

theorem wf_13 {r : Bytes} (h : wfValue (13 :: r) = true) : ∃ c r', r = 10 :: c :: r' ∧ DkimVerifier.isWsp c = true ∧ wfValue (c :: r') = true := by
  match r, h with
  | 10 :: c :: r', h => simp [wfValue] at h; exact ⟨c, r', rfl, h.1, h.2⟩
  | [], h => simp [wfValue] at h
  | [x], h => simp [wfValue] at h
  | x :: y :: r', h =>
    by_cases hx : x = 10
    · subst hx; simp [wfValue] at h; exact ⟨y, r', rfl, h.1, h.2⟩
    · exfalso
      rw [wfValue] at h
      · cases h
      all_goals (intros; simp_all)

theorem wsp_ne13 {c : Byte} (h : DkimVerifier.isWsp c = true) : c ≠ 13 ∧ c ≠ 10 := by
  simp [DkimVerifier.isWsp] at h
  rcases h with rfl | rfl <;> decide

/-- the first octet after a blank decides whether the blank stays: folded and unfolded text agree on it -/
theorem head_unfold (r X : Bytes) (hr : wfValue r = true) (x : Bytes) (hX : X = 13 :: x) :
    ∃ d t d' t', r ++ X = d :: t ∧ HeaderReader.unfold r ++ X = d' :: t' ∧
      (DkimVerifier.isWsp d || d == 13) = (DkimVerifier.isWsp d' || d' == 13) ∧
      ((DkimVerifier.isWsp d || d == 13) = false → d = d') := by
  cases r with
  | nil => subst hX; exact ⟨13, x, 13, x, rfl, by simp [HeaderReader.unfold], rfl, fun _ => rfl⟩
  | cons e r' =>
    by_cases he : e = 13
    · subst he
      obtain ⟨c, r'', rfl, hc, hw⟩ := wf_13 hr
      have hc13 := (wsp_ne13 hc).1
      refine ⟨13, 10 :: c :: r'' ++ X, c, HeaderReader.unfold r'' ++ X, rfl, ?_, ?_, ?_⟩
      · rw [HeaderReader.unfold]
        have : (c = 32 ∨ c = 9) := by simpa [DkimVerifier.isWsp] using hc
        simp only [this, if_true]
        rw [unfold_cons_ne13 c r'' hc13]; rfl
      · simp [hc]
      · simp
    · refine ⟨e, r' ++ X, e, HeaderReader.unfold r' ++ X, rfl, ?_, rfl, fun _ => rfl⟩
      rw [unfold_cons_ne13 e r' he]; rfl

theorem relH_value_nonwsp (b d : Byte) (t : Bytes) (hb : DkimVerifier.isWsp b = false) (h13 : b ≠ 13) :
    relH .value (b :: d :: t) = b :: relH .value (d :: t) := by
  rw [relH]
  · rw [if_neg (by simp [isWsp_eq, hb])]
  all_goals (intros; simp_all)

theorem relH_value_wsp (b d : Byte) (t : Bytes) (hb : DkimVerifier.isWsp b = true) :
    relH .value (b :: d :: t) =
      if DkimVerifier.isWsp d || d == 13 then relH .value (d :: t)
      else (if b == 9 then 32 else b) :: relH .value (d :: t) := by
  have h13 := (wsp_ne13 hb).1
  rw [relH]
  · rw [if_pos (by simp [isWsp_eq, hb])]
    by_cases hd : (DkimVerifier.isWsp d || d == 13) = true
    · simp only [isWsp_eq, hd, if_true]
    · simp only [isWsp_eq, hd, Bool.false_eq_true, if_false]
      by_cases h9 : b = 9 <;> simp [h9]
  all_goals (intros; simp_all)

theorem relH_value_unfold_aux (n : Nat) : ∀ (v x : Bytes), v.length ≤ n → wfValue v = true →
    relH .value (v ++ 13 :: x) = relH .value (HeaderReader.unfold v ++ 13 :: x) := by
  induction n with
  | zero =>
    intro v x hl _
    have : v = [] := List.eq_nil_of_length_eq_zero (by omega)
    subst this; simp [HeaderReader.unfold]
  | succ n ih =>
    intro v x hlen hv
    cases v with
    | nil => simp [HeaderReader.unfold]
    | cons b r =>
      simp only [List.length_cons] at hlen
      by_cases hb13 : b = 13
      · subst hb13
        obtain ⟨c, r', rfl, hc, hw⟩ := wf_13 hv
        have hcc : (c = 32 ∨ c = 9) := by simpa [DkimVerifier.isWsp] using hc
        have e1 : HeaderReader.unfold (13 :: 10 :: c :: r') = HeaderReader.unfold (c :: r') := by
          rw [HeaderReader.unfold]; simp [hcc]
        rw [e1]
        simp only [List.cons_append]
        rw [relH_value_fold c _ hc]
        have := ih (c :: r') x (by simp at hlen ⊢; omega) hw
        simpa using this
      · obtain ⟨hb10, hr⟩ := wf_cons_ne13 hv hb13
        rw [unfold_cons_ne13 b r hb13]
        have ihr := ih r x (by omega) hr
        obtain ⟨d, t, d', t', e1, e2, e3, e4⟩ := head_unfold r (13 :: x) hr x rfl
        simp only [List.cons_append]
        rw [e1, e2]
        rw [e1, e2] at ihr
        by_cases hbw : DkimVerifier.isWsp b = true
        · rw [relH_value_wsp b d t hbw, relH_value_wsp b d' t' hbw, ← e3]
          by_cases hd : (DkimVerifier.isWsp d || d == 13) = true
          · simp only [hd, if_true]; exact ihr
          · simp only [hd, Bool.false_eq_true, if_false]; rw [ihr]
        · have hbw' : DkimVerifier.isWsp b = false := by simpa using hbw
          rw [relH_value_nonwsp b d t hbw' hb13, relH_value_nonwsp b d' t' hbw' hb13, ihr]

/-- value mode does not see folds: it gives the same on the folded and on the unfolded text -/
theorem relH_value_unfold (v x : Bytes) (hv : wfValue v = true) :
    relH .value (v ++ 13 :: x) = relH .value (HeaderReader.unfold v ++ 13 :: x) :=
  relH_value_unfold_aux v.length v x (Nat.le_refl _) hv

theorem wf_unfold_flat_aux (n : Nat) : ∀ v : Bytes, v.length ≤ n → wfValue v = true → flat (HeaderReader.unfold v) = true := by
  induction n with
  | zero =>
    intro v hl _
    have : v = [] := List.eq_nil_of_length_eq_zero (by omega)
    subst this; simp [HeaderReader.unfold, flat]
  | succ n ih =>
    intro v hlen hv
    cases v with
    | nil => simp [HeaderReader.unfold, flat]
    | cons b r =>
      simp only [List.length_cons] at hlen
      by_cases hb13 : b = 13
      · subst hb13
        obtain ⟨c, r', rfl, hc, hw⟩ := wf_13 hv
        have hcc : (c = 32 ∨ c = 9) := by simpa [DkimVerifier.isWsp] using hc
        have e1 : HeaderReader.unfold (13 :: 10 :: c :: r') = HeaderReader.unfold (c :: r') := by
          rw [HeaderReader.unfold]; simp [hcc]
        rw [e1]
        exact ih (c :: r') (by simp at hlen ⊢; omega) hw
      · obtain ⟨hb10, hr⟩ := wf_cons_ne13 hv hb13
        rw [unfold_cons_ne13 b r hb13]
        have := ih r (by omega) hr
        simp [flat] at this ⊢
        exact ⟨⟨hb13, hb10⟩, this⟩

theorem wf_unfold_flat (v : Bytes) (hv : wfValue v = true) : flat (HeaderReader.unfold v) = true :=
  wf_unfold_flat_aux v.length v (Nat.le_refl _) hv

/-- value mode on one folded value up to the CRLF that ends the field -/
theorem relH_value_field (v next : Bytes) (hv : wfValue v = true) (hn : endsField next) :
    relH .value (v ++ 13 :: 10 :: next) = relaxedLine (HeaderReader.unfold v) ++ 13 :: 10 :: relH .name next := by
  rw [relH_value_unfold v (10 :: next) hv]
  exact relH_value_flat _ next (wf_unfold_flat v hv) hn

theorem relH_skip (v x : Bytes) (hv : wfValue v = true) :
    relH .skip (v ++ 13 :: x) = relH .value (v.dropWhile DkimVerifier.isWsp ++ 13 :: x) := by
  induction v with
  | nil => simp only [List.nil_append, List.dropWhile_nil]; rw [relH]; simp [Dkim.isWsp]
  | cons c r ih =>
    simp only [List.cons_append]
    rw [relH]
    by_cases hc : DkimVerifier.isWsp c = true
    · have hr := (wf_cons_ne13 hv (wsp_ne13 hc).1).2
      simp only [isWsp_eq, hc, if_true, List.dropWhile_cons]
      exact ih hr
    · have hc' : DkimVerifier.isWsp c = false := by simpa using hc
      simp [isWsp_eq, hc', List.dropWhile_cons]

theorem relH_name (name rest : Bytes) (hn : ∀ c ∈ name, c ≠ 58) :
    relH .name (name ++ 58 :: rest) = name ++ 58 :: relH .skip rest := by
  induction name with
  | nil => simp only [List.nil_append]; rw [relH]; simp
  | cons c r ih =>
    simp only [List.cons_append]
    rw [relH]
    have : c ≠ 58 := hn c (by simp)
    simp [this, ih (fun x hx => hn x (by simp [hx]))]

/-! ### the reader's side: the same value through unfold / compress / strip -/

theorem compress_cons_wsp_head (a : Byte) (u : Bytes) (ha : DkimVerifier.isWsp a = true) :
    (compressWsp (a :: u)).dropWhile DkimVerifier.isWsp = (compressWsp u).dropWhile DkimVerifier.isWsp := by
  cases u with
  | nil =>
    have : (a = 32 ∨ a = 9) := by simpa [DkimVerifier.isWsp] using ha
    simp [compressWsp, DkimVerifier.isWsp, this]
  | cons b r =>
    by_cases hb : DkimVerifier.isWsp b = true
    · rw [compress_wsp_wsp a b r ha hb]
    · have hb' : DkimVerifier.isWsp b = false := by simpa using hb
      rw [compress_wsp_non a b r ha hb']
      simp [DkimVerifier.isWsp]

theorem compress_head_nonwsp (u : Bytes) (h : ∀ d t, u = d :: t → DkimVerifier.isWsp d = false) :
    (compressWsp u).dropWhile DkimVerifier.isWsp = compressWsp u := by
  cases u with
  | nil => simp [compressWsp]
  | cons d t =>
    have hd := h d t rfl
    rw [compress_nonwsp d t hd]
    simp [hd]

theorem dropWhile_compress (w u : Bytes) (hw : ∀ c ∈ w, DkimVerifier.isWsp c = true)
    (hu : ∀ d t, u = d :: t → DkimVerifier.isWsp d = false) :
    (compressWsp (w ++ u)).dropWhile DkimVerifier.isWsp = compressWsp u := by
  induction w with
  | nil => exact compress_head_nonwsp u hu
  | cons a w ih =>
    simp only [List.cons_append]
    rw [compress_cons_wsp_head a _ (hw a (by simp))]
    exact ih (fun c hc => hw c (by simp [hc]))

theorem unfold_wsp_prefix (w v0 : Bytes) (hw : ∀ c ∈ w, DkimVerifier.isWsp c = true) :
    HeaderReader.unfold (w ++ v0) = w ++ HeaderReader.unfold v0 := by
  induction w with
  | nil => rfl
  | cons a w ih =>
    simp only [List.cons_append]
    rw [unfold_cons_ne13 a _ (wsp_ne13 (hw a (by simp))).1, ih (fun c hc => hw c (by simp [hc]))]

theorem takeWhile_dropWhile_split (v : Bytes) :
    v = v.takeWhile DkimVerifier.isWsp ++ v.dropWhile DkimVerifier.isWsp := (List.takeWhile_append_dropWhile).symm

/-- trailing blanks can be deleted before or after the runs are reduced -/
theorem strip_compress_comm (u : Bytes) : stripTrailingWsp (compressWsp u) = compressWsp (stripTrailingWsp u) := by
  induction u with
  | nil => simp [compressWsp, stripTrailingWsp]
  | cons a u ih =>
    by_cases ha : DkimVerifier.isWsp a = true
    · cases u with
      | nil =>
        have : (a = 32 ∨ a = 9) := by simpa [DkimVerifier.isWsp] using ha
        rcases this with rfl | rfl <;> decide
      | cons b r =>
        by_cases hb : DkimVerifier.isWsp b = true
        · rw [compress_wsp_wsp a b r ha hb, ih, strip_cons a]
          by_cases he : (stripTrailingWsp (b :: r)).isEmpty
          · simp [ha, he]; simp at he; simp [he, compressWsp]
          · simp only [he, Bool.and_false, Bool.false_eq_true, if_false]
            rw [strip_cons b] at he ⊢
            by_cases he2 : (stripTrailingWsp r).isEmpty
            · simp [hb, he2] at he
            · simp only [hb, he2, Bool.and_false, Bool.false_eq_true, if_false]
              rw [compress_wsp_wsp a b _ ha hb]
        · have hb' : DkimVerifier.isWsp b = false := by simpa using hb
          rw [compress_wsp_non a b r ha hb', strip_cons a, strip_head_nonwsp b r hb']
          simp only [List.isEmpty_cons, Bool.and_false, Bool.false_eq_true, if_false]
          rw [compress_wsp_non a b _ ha hb']
          have h32 : DkimVerifier.isWsp 32 = true := by decide
          rw [strip_cons 32]
          have : (stripTrailingWsp (compressWsp (b :: r))).isEmpty = false := by
            rw [ih, strip_head_nonwsp b r hb', compress_nonwsp b _ hb']; rfl
          simp only [this, Bool.and_false, Bool.false_eq_true, if_false]
          rw [ih, strip_head_nonwsp b r hb']
    · have ha' : DkimVerifier.isWsp a = false := by simpa using ha
      rw [compress_nonwsp a u ha', strip_head_nonwsp a _ ha', ih, strip_head_nonwsp a u ha', compress_nonwsp a _ ha']

theorem wf_dropWhile (v : Bytes) (hv : wfValue v = true) : wfValue (v.dropWhile DkimVerifier.isWsp) = true := by
  induction v with
  | nil => simpa using hv
  | cons c r ih =>
    by_cases hc : DkimVerifier.isWsp c = true
    · simp only [List.dropWhile_cons, hc, if_true]
      exact ih (wf_cons_ne13 hv (wsp_ne13 hc).1).2
    · have hc' : DkimVerifier.isWsp c = false := by simpa using hc
      simp only [List.dropWhile_cons, hc', Bool.false_eq_true, if_false]
      exact hv

theorem wf_cons_wsp (c : Byte) (v : Bytes) (hc : DkimVerifier.isWsp c = true) (hv : wfValue v = true) : wfValue (c :: v) = true := by
  have h13 := (wsp_ne13 hc).1
  have h10 := (wsp_ne13 hc).2
  rw [wfValue]
  · exact hv
  all_goals (intros; simp_all)

/-- a field as `Headers` prints it and lettre's encoder produces it -/
structure WFField (h : Headers.HV) : Prop where
  nameNoColon : ∀ c ∈ h.name, c ≠ 58
  nameLower : h.name.map DkimVerifier.lower = h.name
  nameNoTrailWsp : stripTrailingWsp h.name = h.name
  nameStart : ∃ d t, h.name = d :: t ∧ DkimVerifier.isWsp d = false
  valueWf : wfValue h.encoded = true
  noLeadingFold : ∀ d t, h.encoded.dropWhile DkimVerifier.isWsp = d :: t → d ≠ 13

def fld (h : Headers.HV) : Bytes := h.name ++ [58, 32] ++ h.encoded

theorem mem_takeWhile_true {α : Type} (p : α → Bool) (l : List α) (x : α) (h : x ∈ l.takeWhile p) : p x = true := by
  induction l with
  | nil => simp at h
  | cons a l ih =>
    by_cases ha : p a = true
    · simp [List.takeWhile_cons, ha] at h
      rcases h with rfl | h
      · exact ha
      · exact ih h
    · simp [List.takeWhile_cons, ha] at h

theorem takeWhile_name (name rest : Bytes) (hn : ∀ c ∈ name, c ≠ 58) :
    (name ++ 58 :: rest).takeWhile (· != 58) = name ∧ (name ++ 58 :: rest).dropWhile (· != 58) = 58 :: rest := by
  induction name with
  | nil => simp
  | cons c r ih =>
    have hc : c ≠ 58 := hn c (by simp)
    have := ih (fun x hx => hn x (by simp [hx]))
    simp [hc, this]

theorem relaxedField_fld (h : Headers.HV) (hw : WFField h) :
    relaxedField (fld h) = h.name ++ 58 :: relaxedLine (HeaderReader.unfold (h.encoded.dropWhile DkimVerifier.isWsp)) ++ CRLF := by
  obtain ⟨t1, t2⟩ := takeWhile_name h.name (32 :: h.encoded) hw.nameNoColon
  have hf : fld h = h.name ++ 58 :: 32 :: h.encoded := by simp [fld]
  simp only [relaxedField, fieldName, fieldValue, hf, t1, t2, List.drop_one, List.tail_cons, hw.nameNoTrailWsp, hw.nameLower]
  -- the value
  have hsplit := takeWhile_dropWhile_split h.encoded
  generalize hv0 : h.encoded.dropWhile DkimVerifier.isWsp = v0 at *
  generalize hw0 : h.encoded.takeWhile DkimVerifier.isWsp = w0 at *
  have hw0all : ∀ c ∈ (32 :: w0), DkimVerifier.isWsp c = true := by
    intro c hc
    simp at hc
    rcases hc with rfl | hc
    · decide
    · rw [← hw0] at hc; exact mem_takeWhile_true _ _ _ hc
  have e1 : HeaderReader.unfold (32 :: h.encoded) = (32 :: w0) ++ HeaderReader.unfold v0 := by
    rw [hsplit]
    exact unfold_wsp_prefix (32 :: w0) v0 hw0all
  rw [e1]
  have hhead : ∀ d t, HeaderReader.unfold v0 = d :: t → DkimVerifier.isWsp d = false := by
    intro d t hdt
    cases hv : v0 with
    | nil => rw [hv] at hdt; simp [HeaderReader.unfold] at hdt
    | cons e r =>
      have he13 : e ≠ 13 := hw.noLeadingFold e r (hv0.trans hv)
      rw [hv, unfold_cons_ne13 e r he13] at hdt
      injection hdt with h1 _
      subst h1
      -- e is the first octet after the leading blanks
      have : (h.encoded.dropWhile DkimVerifier.isWsp).head? = some e := by rw [hv0, hv]; rfl
      have hne := List.head?_dropWhile_not DkimVerifier.isWsp h.encoded
      rw [this] at hne
      simpa using hne
  rw [dropWhile_compress (32 :: w0) _ hw0all hhead, strip_compress_comm]
  simp [relaxedLine, CRLF]

theorem relH_field (h : Headers.HV) (hw : WFField h) (next : Bytes) (hn : endsField next) :
    relH .name (fld h ++ 13 :: 10 :: next) = relaxedField (fld h) ++ relH .name next := by
  have e : fld h ++ 13 :: 10 :: next = h.name ++ 58 :: ((32 :: h.encoded) ++ 13 :: (10 :: next)) := by simp [fld]
  have hwf : wfValue (32 :: h.encoded) = true := wf_cons_wsp 32 _ (by decide) hw.valueWf
  have hd : (32 :: h.encoded).dropWhile DkimVerifier.isWsp = h.encoded.dropWhile DkimVerifier.isWsp := by
    simp [List.dropWhile_cons, DkimVerifier.isWsp]
  rw [e, relH_name _ _ hw.nameNoColon, relH_skip _ _ hwf, hd,
    relH_value_field _ next (wf_dropWhile _ hw.valueWf) hn, relaxedField_fld h hw]
  simp [CRLF]

theorem display_cons (h : Headers.HV) (hs : List Headers.HV) :
    Headers.display (h :: hs) = fld h ++ 13 :: 10 :: Headers.display hs := by
  simp [Headers.display, fld]

theorem endsField_display (hs : List Headers.HV) (hw : ∀ h ∈ hs, WFField h) : endsField (Headers.display hs) := by
  intro d t hdt
  cases hs with
  | nil => simp [Headers.display] at hdt
  | cons h hs =>
    obtain ⟨d0, t0, hn, hd0⟩ := (hw h (by simp)).nameStart
    rw [display_cons, fld, hn] at hdt
    simp at hdt
    rw [← hdt.1]; exact hd0

/-- **Relaxed header canonicalization, signer = reader.** On a header block as `Headers` prints it (lower-case names,
    values folded the way the encoder folds them) the signer's transcription of
    `dkim_canonicalize_headers_relaxed` gives, field by field, RFC 6376 §3.4.2. -/
theorem relH_display (hs : List Headers.HV) (hw : ∀ h ∈ hs, WFField h) :
    relH .name (Headers.display hs) = (hs.map fun h => relaxedField (fld h)).flatten := by
  induction hs with
  | nil => simp [Headers.display]; rw [relH]
  | cons h hs ih =>
    rw [display_cons, relH_field h (hw h (by simp)) _ (endsField_display hs (fun x hx => hw x (by simp [hx]))),
      ih (fun x hx => hw x (by simp [hx]))]
    simp


/-! ## which fields are hashed: `insert_raw` de-duplication against RFC 6376 §5.4.2 selection -/

section selection
open Headers

/-- the step of `dkim_canonicalize_headers` under relaxed canonicalization -/
def stepR (mail : List HV) (cov : List HV) (n : Bytes) : List HV :=
  match find mail n with
  | some h => insertRaw cov ⟨lowerName n, h.raw, h.encoded⟩
  | none => cov

theorem covered_relaxed (names : List Bytes) (mail : List HV) :
    covered ⟨true, true, true⟩ .relaxed names mail = names.foldl (stepR mail) [] := by
  simp only [covered, tag]
  rfl

theorem lowerAscii_eq (b : Byte) : LV.lowerAscii b = Headers.lowerAscii b := by
  unfold LV.lowerAscii Headers.lowerAscii
  have : (65 ≤ b ∧ b ≤ 90) ↔ (65 ≤ b.toNat ∧ b.toNat ≤ 90) := by
    constructor
    · intro ⟨h1, h2⟩; exact ⟨UInt8.le_iff_toNat_le.mp h1, UInt8.le_iff_toNat_le.mp h2⟩
    · intro ⟨h1, h2⟩; exact ⟨UInt8.le_iff_toNat_le.mpr h1, UInt8.le_iff_toNat_le.mpr h2⟩
  by_cases h : 65 ≤ b.toNat ∧ b.toNat ≤ 90
  · simp [h, this.mpr h]
  · have h' : ¬ (65 ≤ b ∧ b ≤ 90) := fun hh => h (this.mp hh)
    simp [h, h']

theorem lowerName_eq (n : Bytes) : lowerName n = n.map Headers.lowerAscii := by
  simp [lowerName, lowerAscii_eq]

theorem eqName_iff (a b : Bytes) : eqName a b = true ↔ lowerName a = lowerName b := by
  simp [eqName, lowerName_eq]

theorem hLower_idem (b : Byte) : Headers.lowerAscii (Headers.lowerAscii b) = Headers.lowerAscii b := by
  unfold Headers.lowerAscii
  by_cases h : 65 ≤ b.toNat ∧ b.toNat ≤ 90
  · simp only [h, and_self, if_true]
    have e : (b + 32).toNat = b.toNat + 32 := by
      rw [UInt8.toNat_add]; simp; omega
    have : ¬ (65 ≤ (b + 32).toNat ∧ (b + 32).toNat ≤ 90) := by omega
    rw [if_neg this]
  · simp only [h, if_false]

theorem lowerName_idem (n : Bytes) : lowerName (lowerName n) = lowerName n := by
  simp [lowerName_eq, List.map_map, Function.comp_def, hLower_idem]

theorem unique_eq (mail : List HV) (hu : Unique mail) (h g : HV) (hh : h ∈ mail) (hg : g ∈ mail)
    (he : eqName h.name g.name = true) : h = g := by
  induction mail with
  | nil => simp at hh
  | cons a l ih =>
    obtain ⟨h1, h2⟩ := hu
    simp at hh hg
    rcases hh with rfl | hh <;> rcases hg with rfl | hg
    · rfl
    · have := h1 g hg; rw [he] at this; cases this
    · have := h1 h hh; rw [eqName_symm, he] at this; cases this
    · exact ih h2 hh hg

theorem find_some {mail : List HV} {n : Bytes} {h : HV} (hf : find mail n = some h) : h ∈ mail ∧ eqName n h.name = true := by
  unfold find at hf
  exact ⟨List.mem_of_find?_eq_some hf, by simpa using List.find?_some hf⟩

theorem find_none {mail : List HV} {n : Bytes} (hf : find mail n = none) : ∀ h ∈ mail, eqName n h.name = false := by
  unfold find at hf
  intro h hh
  have := List.find?_eq_none.mp hf h hh
  simpa using this

theorem replaceFirst_same (e : HV) (cov : List HV) (h : ∀ e' ∈ cov, eqName e.name e'.name = true → e' = e) :
    replaceFirst e cov = cov := by
  induction cov with
  | nil => rfl
  | cons a l ih =>
    simp only [replaceFirst]
    by_cases ha : eqName e.name a.name = true
    · simp only [ha, if_true]; rw [h a (by simp) ha]
    · simp only [ha, Bool.false_eq_true, if_false]
      rw [ih (fun e' he' => h e' (by simp [he']))]

/-- names as the reader needs them: no colon, nothing to strip -/
structure NameOk (h : HV) : Prop where
  noColon : ∀ c ∈ h.name, c ≠ 58
  noTrail : stripTrailingWsp h.name = h.name

theorem fieldName_fld (h : HV) (hn : NameOk h) : fieldName (fld h) = h.name := by
  unfold fieldName fld
  have : ∀ (name rest : Bytes), (∀ c ∈ name, c ≠ 58) → (name ++ 58 :: rest).takeWhile (· != 58) = name := by
    intro name rest hc
    induction name with
    | nil => simp
    | cons c r ih =>
      have : c ≠ 58 := hc c (by simp)
      simp [this, ih (fun x hx => hc x (by simp [hx]))]
  simpa using this h.name (32 :: h.encoded) hn.noColon

theorem lower_eq (b : Byte) : DkimVerifier.lower b = Headers.lowerAscii b := rfl

theorem nameIs_fld (n : Bytes) (h : HV) (hn : NameOk h) : nameIs n (fld h) = eqName h.name n := by
  unfold nameIs
  rw [fieldName_fld h hn, hn.noTrail]
  have : DkimVerifier.lower = Headers.lowerAscii := funext lower_eq
  simp only [this, eqName]

def covKey (cov : List HV) (h : HV) : Bool := cov.any fun e => eqName e.name h.name

/-- the relation between the signer's `covered_headers` and the reader's bookkeeping while both go through `h=` -/
structure Sim (mail cov : List HV) (avail : List Bytes) (acc : List Bytes) (rf : Bytes → Bytes) : Prop where
  fromMail : ∀ e ∈ cov, ∃ h ∈ mail, e = ⟨lowerName h.name, h.raw, h.encoded⟩
  avail_eq : avail = ((mail.reverse.filter fun h => !covKey cov h).map fld)
  acc_eq : acc.reverse.map rf = cov.map fun e => rf (fld e)

theorem covKey_of_mem (mail cov : List HV) (hu : Unique mail) (hfm : ∀ e ∈ cov, ∃ h ∈ mail, e = ⟨lowerName h.name, h.raw, h.encoded⟩)
    (h : HV) (hh : h ∈ mail) (hk : covKey cov h = true) : (⟨lowerName h.name, h.raw, h.encoded⟩ : HV) ∈ cov := by
  unfold covKey at hk
  rw [List.any_eq_true] at hk
  obtain ⟨e, he, hee⟩ := hk
  obtain ⟨h', hh', rfl⟩ := hfm e he
  have : eqName h'.name h.name = true := by
    rw [eqName_iff] at hee ⊢
    simpa [lowerName_idem] using hee
  have := unique_eq mail hu h' h hh' hh this
  subst this
  exact he

theorem eqName_lower_left (a b : Bytes) : eqName (lowerName a) b = eqName a b := by
  have h1 := eqName_iff (lowerName a) b
  have h2 := eqName_iff a b
  rw [lowerName_idem] at h1
  cases hx : eqName (lowerName a) b <;> cases hy : eqName a b <;> simp_all

theorem unique_nodup (mail : List HV) (hu : Unique mail) : mail.Nodup := by
  induction mail with
  | nil => exact List.nodup_nil
  | cons a l ih =>
    obtain ⟨h1, h2⟩ := hu
    refine List.nodup_cons.mpr ⟨?_, ih h2⟩
    intro ha
    have := h1 a ha
    rw [eqName_refl] at this
    cases this

theorem fld_inj (mail : List HV) (hu : Unique mail) (hok : ∀ h ∈ mail, NameOk h) (g h : HV) (hg : g ∈ mail) (hh : h ∈ mail)
    (he : fld g = fld h) : g = h := by
  have := congrArg fieldName he
  rw [fieldName_fld g (hok g hg), fieldName_fld h (hok h hh)] at this
  exact unique_eq mail hu g h hg hh (by rw [this]; exact eqName_refl _)

theorem erase_map_fld (L : List HV) (h : HV) (hn : L.Nodup) (hinj : ∀ g ∈ L, fld g = fld h → g = h) :
    (L.map fld).erase (fld h) = (L.filter fun g => g != h).map fld := by
  induction L with
  | nil => rfl
  | cons a l ih =>
    obtain ⟨ha, hl⟩ := List.nodup_cons.mp hn
    by_cases hah : a = h
    · subst hah
      simp only [List.map_cons, List.erase_cons_head, List.filter_cons, bne_self_eq_false, Bool.false_eq_true, if_false]
      have : l.filter (fun g => g != a) = l := by
        apply List.filter_eq_self.mpr
        intro g hg
        simp
        intro hga; subst hga; exact ha hg
      rw [this]
    · have hne : fld a ≠ fld h := fun he => hah (hinj a (by simp) he)
      simp only [List.map_cons, List.filter_cons]
      rw [List.erase_cons_tail (by simpa using hne)]
      have : (a != h) = true := by simpa using hah
      simp only [this, if_true, List.map_cons]
      rw [ih hl (fun g hg => hinj g (by simp [hg]))]

theorem any_key (cov : List HV) (h : HV) :
    (cov.any fun g => eqName (lowerName h.name) g.name) = covKey cov h := by
  unfold covKey
  congr 1
  funext g
  rw [eqName_lower_left, eqName_symm]

theorem mem_avail {mail cov : List HV} {f : Bytes} (hf : f ∈ ((mail.reverse.filter fun h => !covKey cov h).map fld)) :
    ∃ g ∈ mail, covKey cov g = false ∧ f = fld g := by
  simp only [List.mem_map, List.mem_filter, List.mem_reverse] at hf
  obtain ⟨g, ⟨hg, hk⟩, rfl⟩ := hf
  exact ⟨g, hg, by simpa using hk, rfl⟩

theorem sim_run (mail : List HV) (hu : Unique mail) (hok : ∀ h ∈ mail, NameOk h) (rf : Bytes → Bytes)
    (hrf : ∀ h ∈ mail, rf (fld ⟨lowerName h.name, h.raw, h.encoded⟩) = rf (fld h)) :
    ∀ (names : List Bytes) (cov : List HV) (avail acc : List Bytes), Sim mail cov avail acc rf →
      (selectGo names avail acc).map rf = (names.foldl (stepR mail) cov).map fun e => rf (fld e) := by
  intro names
  induction names with
  | nil =>
    intro cov avail acc hs
    simpa [selectGo] using hs.acc_eq
  | cons n ns ih =>
    intro cov avail acc hs
    simp only [selectGo, List.foldl_cons]
    cases hf : find mail n with
    | none =>
      have hnone : avail.find? (nameIs n) = none := by
        apply List.find?_eq_none.mpr
        intro f hfm
        rw [hs.avail_eq] at hfm
        obtain ⟨g, hg, _, rfl⟩ := mem_avail hfm
        rw [nameIs_fld n g (hok g hg), eqName_symm]
        simp [find_none hf g hg]
      simp only [hnone, stepR, hf]
      exact ih cov avail acc hs
    | some h =>
      obtain ⟨hh, hen⟩ := find_some hf
      have hln : lowerName n = lowerName h.name := (eqName_iff n h.name).mp hen
      have hstep : stepR mail cov n = insertRaw cov ⟨lowerName h.name, h.raw, h.encoded⟩ := by
        simp only [stepR, hf, hln]
      rw [hstep]
      simp only [insertRaw, any_key]
      by_cases hk : covKey cov h = true
      · -- already covered: nothing changes on either side
        simp only [hk, if_true]
        have hmem := covKey_of_mem mail cov hu hs.fromMail h hh hk
        have hsame : replaceFirst ⟨lowerName h.name, h.raw, h.encoded⟩ cov = cov := by
          apply replaceFirst_same
          intro e' he' hee
          obtain ⟨h', hh', rfl⟩ := hs.fromMail e' he'
          have : eqName h.name h'.name = true := by
            simp only at hee
            rw [eqName_lower_left] at hee
            rw [eqName_symm, eqName_lower_left, eqName_symm] at hee
            exact hee
          have := unique_eq mail hu h h' hh hh' this
          subst this; rfl
        rw [hsame]
        have hnone : avail.find? (nameIs n) = none := by
          apply List.find?_eq_none.mpr
          intro f hfm
          rw [hs.avail_eq] at hfm
          obtain ⟨g, hg, hkg, rfl⟩ := mem_avail hfm
          rw [nameIs_fld n g (hok g hg)]
          intro hgn
          have hgn' : eqName g.name n = true := by simpa using hgn
          have : eqName g.name h.name = true := eqName_trans _ _ _ hgn' hen
          have := unique_eq mail hu g h hg hh this
          subst this
          rw [hk] at hkg; cases hkg
        simp only [hnone]
        exact ih cov avail acc hs
      · -- first time: the signer appends, the reader takes the one field with that name
        have hk' : covKey cov h = false := by simpa using hk
        simp only [hk', Bool.false_eq_true, if_false]
        have hin : fld h ∈ avail := by
          rw [hs.avail_eq]
          simp only [List.mem_map, List.mem_filter, List.mem_reverse]
          exact ⟨h, ⟨hh, by simp [hk']⟩, rfl⟩
        have hfind : avail.find? (nameIs n) = some (fld h) := by
          cases hx : avail.find? (nameIs n) with
          | none =>
            have := List.find?_eq_none.mp hx (fld h) hin
            rw [nameIs_fld n h (hok h hh), eqName_symm, hen] at this
            simp at this
          | some f =>
            have hfm := List.mem_of_find?_eq_some hx
            have hp := List.find?_some hx
            rw [hs.avail_eq] at hfm
            obtain ⟨g, hg, _, rfl⟩ := mem_avail hfm
            rw [nameIs_fld n g (hok g hg)] at hp
            have : eqName g.name h.name = true := eqName_trans _ _ _ hp hen
            have := unique_eq mail hu g h hg hh this
            subst this; rfl
        simp only [hfind]
        apply ih
        refine ⟨?_, ?_, ?_⟩
        · intro e he
          simp at he
          rcases he with he | rfl
          · exact hs.fromMail e he
          · exact ⟨h, hh, rfl⟩
        · rw [hs.avail_eq]
          have hnd : (mail.reverse.filter fun g => !covKey cov g).Nodup :=
            List.Nodup.sublist List.filter_sublist ((List.reverse_perm mail).symm.nodup (unique_nodup mail hu))
          rw [erase_map_fld _ h hnd (fun g hg he => fld_inj mail hu hok g h (by
            simp only [List.mem_filter, List.mem_reverse] at hg; exact hg.1) hh he)]
          congr 1
          rw [List.filter_filter]
          apply List.filter_congr
          intro g hg
          have hg' : g ∈ mail := by simpa using hg
          have : covKey (cov ++ [⟨lowerName h.name, h.raw, h.encoded⟩]) g = (covKey cov g || eqName h.name g.name) := by
            simp [covKey, eqName_lower_left]
          rw [this]
          by_cases hgh : g = h
          · subst hgh; simp [eqName_refl]
          · have : eqName h.name g.name = false := by
              cases hx : eqName h.name g.name with
              | false => rfl
              | true => exact absurd (unique_eq mail hu h g hh hg' hx).symm hgh
            simp [this, hgh]
        · simp only [List.reverse_cons, List.map_append, List.map_cons, List.map_nil]
          rw [hs.acc_eq, hrf h hh]

theorem isWsp_lower (c : Byte) : DkimVerifier.isWsp (Headers.lowerAscii c) = DkimVerifier.isWsp c := by
  unfold Headers.lowerAscii
  by_cases h : 65 ≤ c.toNat ∧ c.toNat ≤ 90
  · simp only [h, and_self, if_true]
    have e : (c + 32).toNat = c.toNat + 32 := by rw [UInt8.toNat_add]; simp; omega
    have h1 : DkimVerifier.isWsp (c + 32) = false := by
      simp only [DkimVerifier.isWsp, Bool.or_eq_false_iff, beq_eq_false_iff_ne, ne_eq]
      constructor <;> (intro hh; have := congrArg UInt8.toNat hh; simp [e] at this <;> omega)
    have h2 : DkimVerifier.isWsp c = false := by
      simp only [DkimVerifier.isWsp, Bool.or_eq_false_iff, beq_eq_false_iff_ne, ne_eq]
      constructor <;> (intro hh; have := congrArg UInt8.toNat hh; simp at this; omega)
    rw [h1, h2]
  · simp only [h, if_false]

theorem dropWhile_map_lower (l : Bytes) :
    (l.map Headers.lowerAscii).dropWhile DkimVerifier.isWsp = (l.dropWhile DkimVerifier.isWsp).map Headers.lowerAscii := by
  induction l with
  | nil => rfl
  | cons a l ih => simp only [List.map_cons, List.dropWhile_cons, isWsp_lower]; split <;> simp [ih]

theorem strip_lower (n : Bytes) : stripTrailingWsp (lowerName n) = lowerName (stripTrailingWsp n) := by
  simp only [stripTrailingWsp, lowerName_eq, ← List.map_reverse, dropWhile_map_lower]

theorem lower_noColon (n : Bytes) (h : ∀ c ∈ n, c ≠ 58) : ∀ c ∈ lowerName n, c ≠ 58 := by
  intro c hc
  rw [lowerName_eq] at hc
  simp only [List.mem_map] at hc
  obtain ⟨a, ha, rfl⟩ := hc
  have hne := h a ha
  unfold Headers.lowerAscii
  by_cases hh : 65 ≤ a.toNat ∧ a.toNat ≤ 90
  · simp only [hh, and_self, if_true]
    intro h58
    have e : (a + 32).toNat = a.toNat + 32 := by rw [UInt8.toNat_add]; simp; omega
    have := congrArg UInt8.toNat h58
    simp [e] at this; omega
  · simp only [hh, if_false]; exact hne

theorem nameOk_lower (h : HV) (hn : NameOk h) : NameOk ⟨lowerName h.name, h.raw, h.encoded⟩ :=
  ⟨lower_noColon h.name hn.noColon, by simp only; rw [strip_lower, hn.noTrail]⟩

theorem fieldValue_fld (h : HV) (hn : NameOk h) : fieldValue (fld h) = 32 :: h.encoded := by
  unfold fieldValue fld
  have : ∀ (name rest : Bytes), (∀ c ∈ name, c ≠ 58) → (name ++ 58 :: rest).dropWhile (· != 58) = 58 :: rest := by
    intro name rest hc
    induction name with
    | nil => simp
    | cons c r ih =>
      have : c ≠ 58 := hc c (by simp)
      simp [this, ih (fun x hx => hc x (by simp [hx]))]
  have e : h.name ++ [58, 32] ++ h.encoded = h.name ++ 58 :: (32 :: h.encoded) := by simp
  rw [e, this h.name _ hn.noColon]; rfl

theorem relaxedField_rename (h : HV) (hn : NameOk h) :
    relaxedField (fld ⟨lowerName h.name, h.raw, h.encoded⟩) = relaxedField (fld h) := by
  have hn' := nameOk_lower h hn
  simp only [relaxedField, fieldName_fld _ hn', fieldName_fld h hn, fieldValue_fld _ hn', fieldValue_fld h hn, hn.noTrail, hn'.noTrail]
  have : DkimVerifier.lower = Headers.lowerAscii := funext lower_eq
  simp only [this, ← lowerName_eq, lowerName_idem]

/-- **Which fields are hashed.** For a header map without repeated names, the signer's covered fields
    (`insert_raw` de-duplication, any letter case in `h=`, absent names, repeated names) are, in canonical form and in
    order, the fields an RFC 6376 §5.4.2 reader selects for the same `h=` list. -/
theorem covered_select_relaxed (names : List Bytes) (mail : List HV) (hu : Unique mail) (hok : ∀ h ∈ mail, NameOk h) :
    (covered ⟨true, true, true⟩ .relaxed names mail).map (fun e => relaxedField (fld e)) =
      (select names (mail.map fld)).map relaxedField := by
  rw [covered_relaxed]
  unfold select
  symm
  apply sim_run mail hu hok relaxedField (fun h hh => relaxedField_rename h (hok h hh))
  refine ⟨by simp, ?_, by simp⟩
  simp only [covKey, List.any_nil, Bool.not_false]
  rw [List.filter_eq_self.mpr (fun _ _ => rfl), List.map_reverse]


theorem mem_replaceFirst (v : HV) (l : List HV) (x : HV) (h : x ∈ replaceFirst v l) : x ∈ l ∨ x = v := by
  induction l with
  | nil => simp [replaceFirst] at h
  | cons a l ih =>
    simp only [replaceFirst] at h
    split at h
    · simp at h; rcases h with rfl | h
      · exact Or.inr rfl
      · exact Or.inl (by simp [h])
    · simp at h; rcases h with rfl | h
      · exact Or.inl (by simp)
      · rcases ih h with h | h
        · exact Or.inl (by simp [h])
        · exact Or.inr h

theorem mem_insertRaw (l : List HV) (v x : HV) (h : x ∈ insertRaw l v) : x ∈ l ∨ x = v := by
  unfold insertRaw at h
  split at h
  · exact mem_replaceFirst v l x h
  · simp at h; exact h

theorem covered_from_mail (mail : List HV) (names : List Bytes) (cov : List HV)
    (hc : ∀ e ∈ cov, ∃ h ∈ mail, e = ⟨lowerName h.name, h.raw, h.encoded⟩) :
    ∀ e ∈ names.foldl (stepR mail) cov, ∃ h ∈ mail, e = ⟨lowerName h.name, h.raw, h.encoded⟩ := by
  induction names generalizing cov with
  | nil => simpa using hc
  | cons n ns ih =>
    simp only [List.foldl_cons]
    apply ih
    intro e he
    unfold stepR at he
    cases hf : find mail n with
    | none => rw [hf] at he; exact hc e he
    | some h =>
      rw [hf] at he
      obtain ⟨hh, hen⟩ := find_some hf
      rcases mem_insertRaw _ _ _ he with he | rfl
      · exact hc e he
      · exact ⟨h, hh, by rw [(eqName_iff n h.name).mp hen]⟩

/-- a field of the message as the theorems need it (the name in any letter case) -/
structure WFMailField (h : HV) : Prop where
  nameNoColon : ∀ c ∈ h.name, c ≠ 58
  nameNoTrailWsp : stripTrailingWsp h.name = h.name
  nameStart : ∃ d t, h.name = d :: t ∧ DkimVerifier.isWsp d = false
  valueWf : wfValue h.encoded = true
  noLeadingFold : ∀ d t, h.encoded.dropWhile DkimVerifier.isWsp = d :: t → d ≠ 13

theorem wfField_of_mail (h : HV) (hw : WFMailField h) : WFField ⟨lowerName h.name, h.raw, h.encoded⟩ := by
  have hn : NameOk h := ⟨hw.nameNoColon, hw.nameNoTrailWsp⟩
  refine ⟨lower_noColon h.name hw.nameNoColon, ?_, (nameOk_lower h hn).noTrail, ?_, hw.valueWf, hw.noLeadingFold⟩
  · have : DkimVerifier.lower = Headers.lowerAscii := funext lower_eq
    simp only [this, ← lowerName_eq, lowerName_idem]
  · obtain ⟨d, t, hdt, hd⟩ := hw.nameStart
    refine ⟨Headers.lowerAscii d, t.map Headers.lowerAscii, ?_, ?_⟩
    · simp only [lowerName_eq, hdt, List.map_cons]
    · rw [isWsp_lower]; exact hd

/-- **The signed-fields half of the header hash input (relaxed).** For a header map without repeated names whose
    fields are in the shape lettre emits, and for every `h=` list (any letter case, absent names, repeated names):
    what the signer hashes for the covered fields is the concatenation of the RFC 6376 canonical forms of exactly the
    fields an RFC 6376 §5.4.2 reader selects from the message. -/
theorem signed_fields_input_agrees (names : List Bytes) (mail : List HV) (hu : Unique mail)
    (hw : ∀ h ∈ mail, WFMailField h) :
    canonHeaders ⟨true, true, true⟩ .relaxed names mail =
      ((select names (mail.map fld)).map relaxedField).flatten := by
  have hok : ∀ h ∈ mail, NameOk h := fun h hh => ⟨(hw h hh).nameNoColon, (hw h hh).nameNoTrailWsp⟩
  unfold canonHeaders
  simp only []
  have hcov := covered_from_mail mail names [] (by simp)
  rw [← covered_relaxed] at hcov
  rw [relH_display _ (fun e he => by
    obtain ⟨h, hh, rfl⟩ := hcov e he
    exact wfField_of_mail h (hw h hh))]
  rw [covered_select_relaxed names mail hu hok]

end selection

end LV.Dkim
