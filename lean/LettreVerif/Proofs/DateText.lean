import LettreVerif.Model.DateText
import LettreVerif.Proofs.Date
/-!
# Proofs about the text of the Date header (Model/DateText.lean): the parser reads back what `Display` writes
-/
namespace LV.DateText
open LV LV.Date LV.DateProof

/-- the year `HttpDate::from(SystemTime)` computes is never before 1970 -/
theorem civil_year_ge (t : Nat) : 1970 ≤ (civil t).year := by
  obtain ⟨j, hr, hy, hj, hn⟩ := cycleSplit_spec (t / 86400)
  obtain ⟨c, q, y, hc, hq, hy3, e1, e2, h3⟩ := inCycle_spec (cycleSplit (t / 86400)).2 hr
  have h366 : (inCycle (cycleSplit (t / 86400)).2).2 < 366 := by omega
  have hyear : ((2000 : Int) + ((inCycle (cycleSplit (t / 86400)).2).1 : Int) + 400 * (cycleSplit (t / 86400)).1).toNat =
      1600 + 400 * j + (inCycle (cycleSplit (t / 86400)).2).1 := by omega
  simp only [civil, hyear]
  generalize hr3 : (inCycle (cycleSplit (t / 86400)).2).2 = r3 at *
  generalize hyy : (inCycle (cycleSplit (t / 86400)).2).1 = yy at *
  generalize hrem : (cycleSplit (t / 86400)).2 = rem at *
  unfold fromMarch
  rcases month_table r3 h366 with h | h | h | h | h | h | h | h | h | h | h | h <;> (rw [h.1]; simp; omega)

theorem dg_digit (n : Nat) : digit? (dg n) = some (n % 10) := by
  have : ∀ k : Fin 10, digit? ((48 + k.val).toUInt8) = some k.val := by decide
  have := this ⟨n % 10, by omega⟩
  simpa [dg] using this

theorem int2_dg (n : Nat) (h : n < 100) : int2 (dg (n / 10)) (dg n) = some n := by
  simp only [int2, dg_digit]
  have : n / 10 % 10 * 10 + n % 10 = n := by omega
  simp [this]

theorem int4_dg (n : Nat) (h : n < 10000) : int4 (dg (n / 1000)) (dg (n / 100)) (dg (n / 10)) (dg n) = some n := by
  simp only [int4, dg_digit]
  have : n / 1000 % 10 * 1000 + n / 100 % 10 * 100 + n / 10 % 10 * 10 + n % 10 = n := by omega
  simp [this]

theorem wday3_tab : ∀ w : Fin 8, 1 ≤ w.val → (wday3 w.val).length = 3 ∧ wdayOf (wday3 w.val) = some w.val := by decide
theorem mon3_tab : ∀ m : Fin 13, 1 ≤ m.val → (mon3 m.val).length = 3 ∧ monOf (mon3 m.val) = some m.val := by decide

theorem len3 (l : Bytes) (h : l.length = 3) : ∃ a b c, l = [a, b, c] := by
  match l, h with
  | [a, b, c], _ => exact ⟨a, b, c, rfl⟩

theorem wday3_spec (w : Fin 8) (h : 1 ≤ w.val) : ∃ a b c, wday3 w.val = [a, b, c] ∧ wdayOf [a, b, c] = some w.val := by
  obtain ⟨h1, h2⟩ := wday3_tab w h
  obtain ⟨a, b, c, e⟩ := len3 _ h1
  exact ⟨a, b, c, e, by rw [← e]; exact h2⟩

theorem mon3_spec (m : Fin 13) (h : 1 ≤ m.val) : ∃ a b c, mon3 m.val = [a, b, c] ∧ monOf [a, b, c] = some m.val := by
  obtain ⟨h1, h2⟩ := mon3_tab m h
  obtain ⟨a, b, c, e⟩ := len3 _ h1
  exact ⟨a, b, c, e, by rw [← e]; exact h2⟩

/-- the parser reads back what `Display` writes, for every civil date with fields in range -/
theorem parseImf_stem (c : Civil) (hs : c.sec < 100) (hm : c.min < 100) (hh : c.hour < 100) (hd : c.day < 100)
    (hmon : 1 ≤ c.mon ∧ c.mon ≤ 12) (hy : c.year < 10000) (hw : 1 ≤ c.wday ∧ c.wday ≤ 7) :
    parseImf (stem c ++ [71, 77, 84]) = some c := by
  obtain ⟨a, b, d, hw3, hwo⟩ := wday3_spec ⟨c.wday, by omega⟩ hw.1
  obtain ⟨x, y, z, hm3, hmo⟩ := mon3_spec ⟨c.mon, by omega⟩ hmon.1
  simp only at hw3 hwo hm3 hmo
  simp only [stem, hw3, hm3, List.cons_append, List.nil_append, parseImf, and_self, if_true, int2_dg _ hs, int2_dg _ hm,
    int2_dg _ hh, int2_dg _ hd, int4_dg _ hy, hwo, hmo]

/-- **The Date header text is read back.** For every instant `t` (seconds since 1970) up to the end of year 9999: the
    value lettre writes (`Display for HttpDate`, `GMT` replaced by `+0000`) is accepted by `Date::parse` (`+0000` back to
    `GMT`, `parse_imf_fixdate`, `is_valid`) and gives the civil fields of `t` — so `Headers::get::<Date>()` returns
    exactly the second that was set (`date_roundtrip`). -/
theorem date_text_roundtrip (t : Nat) (h9999 : (civil t).year ≤ 9999) :
    parseHeader (renderB (civil t)) = some (civil t) ∧ toSecs (civil t) = t := by
  refine ⟨?_, toSecs_civil t⟩
  have hf := civil_fields t
  have hy := civil_year_ge t
  have hsec : (civil t).sec < 60 ∧ (civil t).min < 60 ∧ (civil t).hour < 24 := by
    simp only [civil]; omega
  have hlen : (stem (civil t)).length = 26 := by
    obtain ⟨a, b, d, hw3, _⟩ := wday3_spec ⟨(civil t).wday, by omega⟩ (by simp; omega)
    obtain ⟨x, y, z, hm3, _⟩ := mon3_spec ⟨(civil t).mon, by omega⟩ hf.1
    simp only at hw3 hm3
    simp [stem, hw3, hm3]
  have hstrip : (if (renderB (civil t)).drop ((renderB (civil t)).length - 5) = [43, 48, 48, 48, 48]
      then (renderB (civil t)).take ((renderB (civil t)).length - 5) ++ [71, 77, 84] else renderB (civil t)) =
      stem (civil t) ++ [71, 77, 84] := by
    have hl : (renderB (civil t)).length - 5 = (stem (civil t)).length := by simp [renderB]
    rw [hl]
    simp [renderB]
  unfold parseHeader
  simp only [hstrip]
  rw [parseImf_stem (civil t) (by omega) (by omega) (by omega) (by omega) ⟨hf.1, hf.2.1⟩ (by omega) (by omega)]
  have hv : isValid (civil t) = true := by
    simp only [isValid, toSecs_civil, Bool.and_eq_true, decide_eq_true_eq, beq_self_eq_true, and_true]
    omega
  simp [hv]

end LV.DateText
