"""C17 — Mailboxes and typed headers read back equal to what was stored."""
from tools import mboxgen
from tools.lv import hexs, unhex

LEVEL = "proof"
CORRESPONDENCE = ("Model/Mailbox.lean (Display of Mailbox / Mailboxes), Model/Peg.lean (the chumsky grammar under PEG semantics) + Model/Address.lean, "
                  "Model/Date.lean (httpdate's civil-date arithmetic and rendering), Model/TypedHdr.lean (MimeVersion / ContentTransferEncoding display and parse), Model/Headers.lean vs Mailbox / Mailboxes Display and FromStr "
                  "(grammar observed through a hook), serde, Headers::set/get of To, Date, Content-Disposition, MIME-Version, "
                  "Content-Transfer-Encoding, Content-Type and text headers")
RULE = ("mbox: 43 display names (empty, blanks, specials, quotes, backslashes, controls incl. NUL/CR/LF, non-ASCII, NBSP / U+2028, long) x 20 "
        "addresses (dot-atom, quoted local parts, UTF-8, IDN, IP literals) plus random names; mboxlist: lists of 0..50; mboxparse: arbitrary "
        "strings and structured mailbox texts (valid and malformed streams), single and list grammar; date: first and last second of every "
        "month 1970..9999 plus random (thorough: every day); typed: file names (ASCII, quotes, non-ASCII, long), all 65 536 MIME versions "
        "(thorough; a sample in quick), 5 encodings, media types with parameters, text values looked up under another letter case. "
        "Non-trivial = a name needing quoting/encoding, a non-dot-atom address, or a malformed text; distinct = distinct case lines.")
TRUSTED_BASE = ["Lean 4 kernel", "axioms: propext, Quot.sound, Classical.choice at most (see axioms per theorem)",
                "Spec/StructuredDec.lean (display-name and RFC 2231 readers), Spec/HeaderReader.lean",
                "the `mime` crate's parser (A4) is used as is: media types are checked for set/get equality only",
                "harness lvh + line protocol + this orchestrator"]
ASSUMPTIONS = ["A1-A3 of C16 for the address part", "A4: mime::Mime parse/to_string round-trips the values it yields"]
EXHAUSTIVE_PARTS = ["date: first and last second of every month 1970-01 .. 9999-12", "cte: all 5 encodings", "mimever: all 65 536 pairs (thorough)"]


def month_boundaries():
    import calendar, datetime
    out = []
    for y in range(1970, 10000):
        for m in range(1, 13):
            first = int((datetime.datetime(y, m, 1) - datetime.datetime(1970, 1, 1)).total_seconds())
            out.append(first)
            if first > 0:
                out.append(first - 1)
    out.append(253402300799)
    return out


def gen(tier, rng):
    nm, nl, npar = {"quick": (1500, 300, 4000), "search": (5000, 1000, 15000), "thorough": (30000, 5000, 100000)}[tier]
    cases = mboxgen.mbox_cases(rng, nm) + mboxgen.list_cases(rng, nl) + mboxgen.parse_cases(rng, npar)
    # the header map itself: set / remove / get with names that differ in letter case only
    from tools import hdrgen
    cases += hdrgen.hdrs_cases(rng, {"quick": 400, "search": 1500, "thorough": 8000}[tier])
    mb = month_boundaries()
    if tier == "quick":
        mb = mb[:: 37] + mb[-50:] + mb[:50]
    for s in mb:
        cases.append(f"date\t{s}")
    for _ in range({"quick": 500, "search": 3000, "thorough": 20000}[tier]):
        cases.append(f"date\t{rng.randrange(253402300800)}")
    if tier == "thorough":
        for d in range(0, 2932897):
            cases.append(f"date\t{d * 86400 + (d * 7919) % 86400}")
    names = ["a.txt", "report 2024.pdf", "quote\"in.txt", "back\\slash", "résumé.pdf", "日本語.txt", "😀.png", "x" * 100 + ".bin", "é" * 60, "semi;colon",
             "a b c " * 20, "", "trailing ", "perc%41ent", "it's", "tab\tname", "star*name", "=?utf-8?b?aGk=?="]
    for fnm in names:
        for k in ("attachment", "inline"):
            cases.append(f"typed\tcdisp\t{k}\t{hexs(fnm) if fnm else '-'}")
    cases.append("typed\tcdisp\tinline0\t-")
    for _ in range({"quick": 300, "search": 1000, "thorough": 5000}[tier]):
        fnm = "".join(rng.choice("ab .\"\\é😀;=*'%") for _ in range(rng.randint(0, 90)))
        cases.append(f"typed\tcdisp\t{rng.choice(['attachment', 'inline'])}\t{hexs(fnm) if fnm else '-'}")
    if tier == "thorough":
        for a in range(256):
            for b in range(256):
                cases.append(f"typed\tmimever\t{a}\t{b}")
    else:
        for a in (0, 1, 2, 9, 10, 99, 100, 255):
            for b in (0, 1, 9, 10, 255):
                cases.append(f"typed\tmimever\t{a}\t{b}")
    for e in "7qb8n":
        cases.append(f"typed\tcte\t{e}\t-")
    # texts offered to `MimeVersion::parse` and `ContentTransferEncoding::parse` (the functions behind `Headers::get`), compared with
    # Model/TypedHdr.lean: the edges of `u8::from_str` (sign, leading zeros, 255 / 256, empty pieces, blanks, further pieces,
    # non-ASCII digits) and every letter-case / padding variant of the five spellings
    mv = ["1.0", "+1.0", "1.+0", "-1.0", "01.000", "255.255", "256.0", "0.256", "1", "1.", ".1", ".", "", "1.0.7", "1.0.", "1..0", " 1.0", "1.0 ", "1 .0", "1. 0",
          "1,0", "١.0", "1.0x", "0x1.0", "1e0.0", "999999999999999999999.0", "00000000000000000000001.0", "+.0", "+", "1.+", "++1.0", "1.0\r\n", "1\t.0", "２.0"]
    for a in (0, 7, 25, 26, 99, 100, 199, 249, 250, 255, 256, 257, 260, 300, 1000):
        for b in (0, 9, 255, 256):
            mv.append(f"{a}.{b}")
    for _ in range({"quick": 300, "search": 1000, "thorough": 6000}[tier]):
        mv.append("".join(rng.choice("0123456789..+- 25") for _ in range(rng.randint(0, 9))))
    for t in mv:
        cases.append(f"tparse\tmimever\t{hexs(t) if t else '-'}")
    ct5 = ["7bit", "quoted-printable", "base64", "8bit", "binary"]
    ctv = ["", "7BIT", "Base64", "BASE64", " base64", "base64 ", "base64\r\n", "quoted_printable", "quotedprintable", "7-bit", "8bits", "binary;", "x-token", "bāse64"]
    for t in ct5:
        ctv += [t, t.upper(), t.capitalize(), t + " ", " " + t, t[:-1], t + "x", t.replace("i", "I", 1)]
    for _ in range({"quick": 100, "search": 300, "thorough": 2000}[tier]):
        t = rng.choice(ct5)
        i = rng.randrange(len(t) + 1)
        ctv.append(t[:i] + rng.choice(["", "", " ", "-", "B", "7", "é"]) + t[i + rng.choice([0, 1]):])
    for t in ctv:
        cases.append(f"tparse\tcte\t{hexs(t) if t else '-'}")
    for ct in ["text/plain", "text/plain; charset=utf-8", "multipart/mixed; boundary=\"a b\"", "application/octet-stream", "TEXT/HTML; Charset=\"UTF-8\"",
               "image/png; name=\"x.png\"", "text/plain; format=flowed; delsp=yes", "not a type", "multipart/mixed; boundary=\"a =?b?= c\"",
               "multipart/related; boundary=\"=?utf-8?q?x?= y\"; type=\"text/html\"", "application/x-t; name=\"=?utf-8?b?aGk=?=\"", "text/", "a/b; c=d; e=\"f g\""]:
        cases.append(f"typed\tctype\t{hexs(ct)}\t-")
    # Date values offered to `Date::parse`: valid ones (both zone spellings), every single-octet mutation of one, wrong
    # weekdays, out-of-range fields, the other two httpdate forms, padding, non-ASCII
    import time as _time
    base = "Tue, 15 Nov 1994 08:12:31 +0000"
    dtexts = [base, base[:-5] + "GMT", "Sun, 06 Nov 1994 08:49:37 GMT", "Mon, 15 Nov 1994 08:12:31 +0000", "Tue, 31 Feb 1994 08:12:31 +0000",
              "Thu, 01 Jan 1970 00:00:00 +0000", "Fri, 31 Dec 9999 23:59:59 +0000", "Wed, 31 Dec 1969 23:59:59 +0000", "Tue, 29 Feb 2000 00:00:00 +0000",
              "Mon, 29 Feb 1900 00:00:00 +0000", "Tue, 15 Nov 1994 24:00:00 +0000", "Tue, 15 Nov 1994 08:60:31 +0000", "Tue, 15 Nov 1994 08:12:60 +0000",
              "Tue, 00 Nov 1994 08:12:31 +0000", "Tue, 15 Nov 1994 08:12:31 -0500", "Tue, 15 Nov 1994 08:12:31 +0000 ", " " + base,
              "Sunday, 06-Nov-94 08:49:37 GMT", "Sun Nov  6 08:49:37 1994", "", "+0000", "Tue, 15 Nov 1994 08:12:31 +000", "Tüe, 15 Nov 1994 08:12:31 +0000",
              "tue, 15 nov 1994 08:12:31 +0000", "Tue, 15 Nov 1994 08:12:31  GMT", "Tue,15 Nov 1994 08:12:31 +0000"]
    for i in range(len(base)):
        for ch in "0 9:,Ax+":
            dtexts.append(base[:i] + ch + base[i + 1:])
    for _ in range({"quick": 400, "search": 1500, "thorough": 8000}[tier]):
        secs = rng.choice([rng.randrange(0, 253402300800), rng.randrange(0, 2 * 10 ** 9)])
        t = _time.strftime("%a, %d %b %Y %H:%M:%S +0000", _time.gmtime(secs))
        if rng.random() < 0.5:
            i = rng.randrange(len(t))
            t = t[:i] + rng.choice("0123456789 :,JFMASONDabcdefghijklmnopqrstuvy") + t[i + 1:]
        dtexts.append(t)
    for t in dtexts:
        cases.append(f"dparse\t{hexs(t) if t else '-'}")
    for t in ["plain", "héllo wörld", "a  b", " lead", "trail ", "x" * 200, "=?utf-8?b?aGk=?="]:
        cases.append(f"typed\ttext\t{hexs(t)}\t-")
    return cases


def nontrivial(case):
    f = case.split("\t")
    if f[0] == "mbox":
        return f[1] != "-" or any(c in unhex(f[2]) for c in b"\"[")
    return True


def shrinkable(case):
    f = case.split("\t")
    return {"mbox": [1], "mboxparse": [2], "typed": [3]}.get(f[0], [])


def distribution(cases):
    d = {}
    for c in cases:
        op = c.split("\t", 1)[0]
        d[op] = d.get(op, 0) + 1
    return d


from tools.props import c02 as _c02
FINDING_CLASSES = {"content-disposition-escaped-name-over-78": _c02._cdisp_escaped, "mailbox-name-start-not-folded": _c02._name_start_not_folded}
