import LettreVerif.Model.BodyEnc
import LettreVerif.Proofs.B64Lines
import LettreVerif.Model.Dkim
import LettreVerif.Spec.Cost
import LettreVerif.Model.XText
import LettreVerif.Proofs.C03
import LettreVerif.Proofs.EnvelopeJson
import LettreVerif.Model.TypedHdr
import LettreVerif.Proofs.FoldSize
import LettreVerif.Proofs.FoldSizePlain
/-!
# C19 — No input makes the library panic, overflow the stack, or run away

What a theorem can carry here is limited and is stated as such (level: model + correspondence,
partial).  Every function of `Model/` is a total Lean function — accepted by the termination
checker, no `partial` — and the models take no step that the code implements with `unwrap`,
`expect`, indexing or slicing without a model branch for it; the correspondence checks of all
other properties compare them with the code on every case and report a panic of the code as a
violation.  Stack depth, wall time and allocation are runtime facts: they are measured on the
real entry points (2 MiB stacks, optimised and unoptimised builds, sizes doubling to 4 MiB)
against `Spec/Cost.lean`.

The theorems below bound the *size* of what the modelled kernels produce (no blow-up: output
linear in the input), which is the part of "near-linear" a model can express.
-/
namespace LV.C19
open LV

/-- CRLF normalisation at most doubles the text. -/
theorem crlf_at_most_doubles (p : Bool) (s : Bytes) : (BodyEnc.crlfGo p s).length ≤ 2 * s.length := by
  induction s generalizing p with
  | nil => simp [BodyEnc.crlfGo]
  | cons b bs ih =>
    simp only [BodyEnc.crlfGo]
    split
    · have := ih false; simp only [List.length_cons]; omega
    · have := ih (decide (b = 13)); simp only [List.length_cons]; omega

/-- DKIM relaxed body canonicalisation never grows the body. -/
theorem relaxed_body_no_growth (s : Bytes) : (Dkim.relaxedGo s).length ≤ s.length := by
  fun_induction Dkim.relaxedGo s <;> simp_all <;> omega

/-- DKIM relaxed header canonicalisation never grows the header section (and is a total
    function whose recursion is on the remaining input: one step per octet, no nesting). -/
theorem relaxed_headers_no_growth (m : Dkim.Mode) (h : Bytes) : (Dkim.relH m h).length ≤ h.length := by
  fun_induction Dkim.relH m h <;> simp_all <;> omega

/-- Base64 output length is exactly 4 · ⌈n/3⌉. -/
theorem base64_length (b : Bytes) : (Base64.enc b).length = 4 * ((b.length + 2) / 3) := by
  fun_induction Base64.enc b <;> simp_all <;> omega

/-- The base64 body (76-character lines, CRLF between them) is at most twice the content plus four octets. -/
theorem base64_body_linear (b : Bytes) : (BodyEnc.b64Body b).length ≤ 2 * b.length + 4 := by
  unfold BodyEnc.b64Body
  split
  · simp
  · exact BodyEnc.b64Lines_size _ b

/-- An xtext parameter value is at most three times the value. -/
theorem xtext_at_most_triples (v : Bytes) : (XText.xtext v).length ≤ 3 * v.length := by
  unfold XText.xtext XText.encode
  induction v with
  | nil => simp
  | cons b bs ih =>
    have hb : (XText.encByte XText.twoDigits XText.escDel b).length ≤ 3 := by
      unfold XText.encByte; split <;> (try split) <;> simp
    simp only [List.map_cons, List.flatten_cons, List.length_append, List.length_cons]
    omega

/-- Everything written in the DATA phase (dot-stuffed content and the end-of-data marker) is at
    most twice the message plus five octets. -/
theorem data_phase_linear (m : Bytes) : (Codec.wire m).length ≤ 2 * m.length + 5 := by
  have := (C03.encode_len .sol m).2
  simp [Codec.wire, Codec.terminator]; omega

/-- The envelope file of the file transport is linear in the envelope: at most twice the octets of the addresses (every one
    could need a backslash), three octets per recipient (quotes and comma) and 42 for the keys. -/
theorem envelope_json_linear (e : Transports.Envelope) :
    (Transports.envelopeJson e).length ≤
      2 * ((e.to.map List.length).sum + (e.from?.map List.length).getD 0) + 3 * e.to.length + 42 :=
  EnvelopeJson.envelopeJson_linear e

/-- **The folding writer at most triples its input** (every token can cost one fold, CRLF, on top of its own octets): the
    octets written plus the blanks pending after `FoldingEmailWriter::write_str(s)` exceed those before by at most `3 · |s|`. -/
theorem folding_writer_linear (w : HeaderEnc.W) (s : Bytes) : (HeaderEnc.foldWrite w s).size ≤ w.size + 3 * s.length :=
  HeaderEnc.size_foldWrite w s

/-- … hence `HeaderValue::new` on a value all of whose words are printable ASCII (none of the shape `=?…?=`) writes at most
    three times the value, whatever the header name (partial: values with words that need an encoded-word are not covered). -/
theorem plain_header_value_linear (n : Nat) (value : Bytes)
    (h : ∀ x ∈ HeaderEnc.splitInclusive [] value, HeaderEnc.PlainWord x) :
    (HeaderEnc.encodeValue HeaderEnc.opts n value).length ≤ 3 * value.length :=
  HeaderEnc.encodeValue_plain_linear n value h

/-- … and what `ContentType::display` writes for a printable-ASCII media type is at most three times the text. -/
theorem content_type_linear (raw : Bytes) (h : raw.all (HeaderEnc.allowedChar true) = true) :
    (HeaderEnc.contentTypeValue raw).length ≤ 3 * raw.length :=
  HeaderEnc.contentTypeValue_linear raw h

/-- A MIME-Version value has at most seven octets. -/
theorem mime_version_short (a b : Nat) : (TypedHdr.mimeDisplay a b).length ≤ 7 := by
  unfold TypedHdr.mimeDisplay TypedHdr.u8Digits
  split <;> split <;> (try split) <;> (try split) <;> simp

/-- non-vacuity / tightness: a message of dots after CRLF doubles; a value of controls triples -/
example : (Codec.wire [46]).length = 2 * 1 + 5 ∧ (XText.xtext [0, 9, 32]).length = 3 * 3 := by decide

/-! The timing rule on concrete series: linear and n·log n series pass, a quadratic one does not. -/
example : Cost.superLinear [(65536, 25000), (131072, 50000), (262144, 101000), (524288, 203000)] = false := by decide
example : Cost.superLinear [(65536, 25000), (131072, 55000), (262144, 118000), (524288, 252000)] = false := by decide
example : Cost.superLinear [(65536, 25000), (131072, 100000), (262144, 400000)] = true := by decide

end LV.C19
