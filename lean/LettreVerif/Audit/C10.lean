import LettreVerif.Props.C10
#print axioms LV.C10.crlf_no_bare_lf
#print axioms LV.C10.crlf_idempotent
#print axioms LV.C10.auto_range
#print axioms LV.C10.sevenbit_ok
#print axioms LV.C10.sevenbit_requested_ok
#print axioms LV.C10.roundtrip_identity
#print axioms LV.C10.roundtrip_quoted_printable
#print axioms LV.C10.quoted_printable_lines
#print axioms LV.C10.roundtrip_base64
#print axioms LV.C10.base64_lines
#print axioms LV.C10.refusal_matrix
#print axioms LV.C10.crlf_only_line_endings
