import LettreVerif.Model.Bytes
/-!
# M: `ServerInfo::from_response` (src/transport/smtp/extension.rs)

Works on the reply's lines as Rust `str`s (`List Char`): `split_whitespace` splits at Unicode
`White_Space` (`char::is_whitespace`).  A line without any word is skipped (before the `fix:`
commit 1cb009b a non-empty line of white space only made `split.next().unwrap()` panic).
-/
namespace LV.ServerInfo

/-- Rust `char::is_whitespace` (Unicode `White_Space`, 25 code points) -/
def isWs (c : Char) : Bool :=
  let n := c.toNat
  (9 ≤ n && n ≤ 13) || n == 32 || n == 0x85 || n == 0xA0 || n == 0x1680 ||
  (0x2000 ≤ n && n ≤ 0x200A) || n == 0x2028 || n == 0x2029 || n == 0x202F || n == 0x205F ||
  n == 0x3000

/-- `str::split_whitespace`: maximal runs of non-white-space characters. `cur` is the current
    word, reversed. -/
def wordsGo : List Char → List Char → List (List Char)
  | cur, [] => if cur.isEmpty then [] else [cur.reverse]
  | cur, c :: cs =>
    if isWs c then (if cur.isEmpty then wordsGo [] cs else cur.reverse :: wordsGo [] cs)
    else wordsGo (c :: cur) cs

def words (l : List Char) : List (List Char) := wordsGo [] l

structure Info where
  name : List Char
  eightBit : Bool := false
  smtpUtf8 : Bool := false
  startTls : Bool := false
  plain : Bool := false
  login : Bool := false
  xoauth2 : Bool := false
deriving Repr, DecidableEq

inductive Res
  | ok (i : Info)
  | noName          -- `Err("Could not read server name")`
deriving Repr, DecidableEq

/-- keywords as explicit character lists (string literals do not reduce in the kernel) -/
def kw8BITMIME : List Char := ['8', 'B', 'I', 'T', 'M', 'I', 'M', 'E']
def kwSMTPUTF8 : List Char := ['S', 'M', 'T', 'P', 'U', 'T', 'F', '8']
def kwSTARTTLS : List Char := ['S', 'T', 'A', 'R', 'T', 'T', 'L', 'S']
def kwAUTH : List Char := ['A', 'U', 'T', 'H']
def kwPLAIN : List Char := ['P', 'L', 'A', 'I', 'N']
def kwLOGIN : List Char := ['L', 'O', 'G', 'I', 'N']
def kwXOAUTH2 : List Char := ['X', 'O', 'A', 'U', 'T', 'H', '2']

def addMechs (i : Info) : List (List Char) → Info
  | [] => i
  | m :: ms =>
    let i := if m = kwPLAIN then { i with plain := true }
      else if m = kwLOGIN then { i with login := true }
      else if m = kwXOAUTH2 then { i with xoauth2 := true }
      else i
    addMechs i ms

/-- the loop over the reply's lines -/
def scan (i : Info) : List (List Char) → Info
  | [] => i
  | l :: ls =>
    if l.isEmpty then scan i ls else
    match words l with
    | [] => scan i ls
    | w :: rest =>
      let i := if w = kw8BITMIME then { i with eightBit := true }
        else if w = kwSMTPUTF8 then { i with smtpUtf8 := true }
        else if w = kwSTARTTLS then { i with startTls := true }
        else if w = kwAUTH then addMechs i rest
        else i
      scan i ls

def fromResponse (lines : List (List Char)) : Res :=
  match lines.head?.bind (fun l => (words l).head?) with
  | none => .noName
  | some name => .ok (scan { name := name } lines)

end LV.ServerInfo
