import LettreVerif.Model.Transport
/-!
# M: which blocking operations carry a deadline

Sync client (`NetworkStream::connect` + `set_timeout`): `connect_timeout` on the TCP connect,
`SO_RCVTIMEO` / `SO_SNDTIMEO` = T on the socket, so every read and write (and the TLS
handshake, which runs over that socket) returns after at most T.  Tokio client
(`AsyncNetworkStream::connect_tokio1`): `time::timeout(T, socket.connect(addr))` only; reads,
writes and the TLS handshake have no deadline.  A read that waits on a silent peer therefore
costs T (sync) or has no bound (tokio).
-/
namespace LV.Timeouts

inductive Kind | sync | tokio deriving Repr, DecidableEq
inductive Op | tcpConnect | read | write | tlsHandshake deriving Repr, DecidableEq

/-- does the configured timeout govern this operation? -/
def deadline : Kind → Op → Bool
  | .sync, _ => true
  | .tokio, .tcpConnect => true
  | .tokio, _ => false

/-- upper bound, in units of T, on the time a run spends waiting when `waits` of its reads met
    a silent peer; `none` = no bound -/
def waitBound (k : Kind) (waits : Nat) : Option Nat :=
  if waits = 0 then some 0 else if deadline k .read then some waits else none

end LV.Timeouts
