//! A scripted SMTP peer on loopback.
//!
//! The script is a list of steps `(reply octets, close after sending)`. Step 0 is sent on accept
//! (the greeting); step k+1 is sent after the k-th *unit* received from the client, a unit being
//! one LF-terminated command line or — after a `DATA` line that was answered positively — the
//! message content up to and including `CRLF . CRLF`. When a step says "close", or the script is
//! exhausted, the peer half-closes (stops sending) and keeps recording what the client still
//! writes until the client closes. Everything received is recorded unit by unit, together with a
//! flag telling whether more octets were already waiting when the unit was complete (a client
//! that does not wait for the reply).

use std::io::{Read, Write};
use std::net::{Shutdown, TcpListener, TcpStream};
use std::os::unix::io::AsRawFd;
use std::time::Duration;

#[derive(Clone, Debug)]
pub struct Step {
    pub reply: Vec<u8>,
    pub close: bool,
}

#[derive(Debug, Default, Clone)]
pub struct Record {
    pub units: Vec<Vec<u8>>,
    pub early: Vec<bool>,
    pub steps_sent: usize,
    /// octets received after the last complete unit (an unterminated line)
    pub tail: Vec<u8>,
}

pub fn parse_script(s: &str) -> Option<Vec<Step>> {
    if s == "-" {
        return Some(vec![]);
    }
    s.split(',')
        .map(|e| {
            let (r, f) = e.split_once(':')?;
            let reply = if r == "_" { vec![] } else { crate::util::unhex(r)? };
            Some(Step {
                reply,
                close: f == "c",
            })
        })
        .collect()
}

fn quickack(s: &TcpStream) {
    let one: libc::c_int = 1;
    unsafe {
        libc::setsockopt(
            s.as_raw_fd(),
            libc::IPPROTO_TCP,
            libc::TCP_QUICKACK,
            &one as *const _ as *const libc::c_void,
            std::mem::size_of::<libc::c_int>() as libc::socklen_t,
        );
    }
}

/// A tiny independent reading of RFC 5321 4.2: is `reply` one complete well-formed reply
/// (nothing after it) whose first digit is 2 or 3?
pub fn positive_reply(reply: &[u8]) -> bool {
    let mut rest = reply;
    let mut code: Option<&[u8]> = None;
    loop {
        let Some(pos) = rest.windows(2).position(|w| w == b"\r\n") else {
            return false;
        };
        let line = &rest[..pos];
        rest = &rest[pos + 2..];
        if line.len() < 3 || !line[..3].iter().all(|b| b.is_ascii_digit()) {
            return false;
        }
        if !(b'2'..=b'5').contains(&line[0]) || line[1] > b'5' {
            return false;
        }
        if let Some(c) = code {
            if c != &line[..3] {
                return false;
            }
        }
        code = Some(&line[..3]);
        if line.len() == 3 || line[3] == b' ' {
            return rest.is_empty() && (line[0] == b'2' || line[0] == b'3');
        }
        if line[3] != b'-' {
            return false;
        }
    }
}

/// What the serving loop needs from a transport (plain TCP or TLS over TCP)
pub trait Peer: Read + Write {
    /// stop sending (half close where the transport allows it)
    fn stop_sending(&mut self);
    /// are octets already waiting? (plain TCP only)
    fn pending(&mut self) -> bool;
    fn before_read(&mut self) {}
}

impl Peer for TcpStream {
    fn stop_sending(&mut self) {
        let _ = self.shutdown(Shutdown::Write);
    }
    fn pending(&mut self) -> bool {
        self.set_nonblocking(true).ok();
        let mut probe = [0u8; 1];
        let r = matches!(self.peek(&mut probe), Ok(n) if n > 0);
        self.set_nonblocking(false).ok();
        r
    }
    fn before_read(&mut self) {
        quickack(self);
    }
}

/// Why the serving loop returned
#[derive(Debug, PartialEq, Eq, Clone, Copy)]
pub enum Stop {
    /// the client closed the connection
    Eof,
    /// a `STARTTLS` unit was answered positively: the caller must start the TLS handshake
    StartTls,
}

/// Runs `script` on `s`. `first_step` is the step to send before reading anything (0 for a
/// greeting) or `None` when the peer only reacts. Returns when the client closes, or — with
/// `switch_on_starttls` — right after a positive reply to `STARTTLS` has been written.
pub fn serve_stream<S: Peer>(s: &mut S, script: &[Step], greet: bool, switch_on_starttls: bool, rec: &mut Record) -> Stop {
    serve_stream_opt(s, script, greet, switch_on_starttls, false, rec)
}

/// as `serve_stream`; with `stall_at_end` the peer stays open and silent when the script runs out
pub fn serve_stream_opt<S: Peer>(s: &mut S, script: &[Step], greet: bool, switch_on_starttls: bool, stall_at_end: bool, rec: &mut Record) -> Stop {
    let mut sending = true;
    let mut step = 0usize;
    let send_step = |s: &mut S, i: usize, rec: &mut Record, sending: &mut bool| {
        if !*sending {
            return;
        }
        match script.get(i) {
            None => {
                if !stall_at_end {
                    s.stop_sending();
                }
                *sending = false;
            }
            Some(st) => {
                if !st.reply.is_empty() {
                    let _ = s.write_all(&st.reply);
                    let _ = s.flush();
                }
                rec.steps_sent = i + 1;
                if st.close {
                    s.stop_sending();
                    *sending = false;
                }
            }
        }
    };
    if greet {
        send_step(s, 0, rec, &mut sending);
        step = 1;
    }
    let mut data_mode = false;
    let mut buf: Vec<u8> = Vec::new();
    let mut chunk = [0u8; 65536];
    loop {
        let end = if data_mode {
            if buf.starts_with(b".\r\n") {
                Some(3)
            } else {
                buf.windows(5).position(|w| w == b"\r\n.\r\n").map(|p| p + 5)
            }
        } else {
            buf.iter().position(|b| *b == b'\n').map(|p| p + 1)
        };
        if let Some(end) = end {
            let unit: Vec<u8> = buf.drain(..end).collect();
            let early = !buf.is_empty() || s.pending();
            let was_data_cmd = !data_mode && unit.eq_ignore_ascii_case(b"DATA\r\n");
            let was_starttls = !data_mode && unit.eq_ignore_ascii_case(b"STARTTLS\r\n");
            rec.units.push(unit);
            rec.early.push(early && sending);
            let answered_positively = sending && script.get(step).map(|st| positive_reply_prefix(&st.reply)).unwrap_or(false);
            data_mode = was_data_cmd && sending && script.get(step).map(|st| positive_reply(&st.reply)).unwrap_or(false);
            send_step(s, step, rec, &mut sending);
            step += 1;
            if switch_on_starttls && was_starttls && answered_positively {
                if sending {
                    rec.tail = buf;
                    return Stop::StartTls;
                }
                // the peer said "go ahead" and closed: what follows is a TLS ClientHello, not SMTP
                return Stop::Eof;
            }
            continue;
        }
        s.before_read();
        match s.read(&mut chunk) {
            Ok(0) | Err(_) => break,
            Ok(n) => buf.extend_from_slice(&chunk[..n]),
        }
    }
    rec.tail = buf;
    Stop::Eof
}

/// the reply starts with one complete well-formed positive reply (more octets may follow it)
pub fn positive_reply_prefix(reply: &[u8]) -> bool {
    let mut end = 0;
    loop {
        let Some(pos) = reply[end..].windows(2).position(|w| w == b"\r\n") else {
            return false;
        };
        let line_end = end + pos + 2;
        let line = &reply[end..end + pos];
        if line.len() >= 4 && line[3] == b'-' {
            end = line_end;
            continue;
        }
        return positive_reply(&reply[..line_end]);
    }
}

/// Serves exactly one connection according to `script`.
pub fn serve_one(listener: TcpListener, script: Vec<Step>) -> Record {
    let mut rec = Record::default();
    let Ok((mut s, _)) = listener.accept() else {
        return rec;
    };
    s.set_nodelay(true).ok();
    s.set_read_timeout(Some(Duration::from_secs(8))).ok();
    serve_stream(&mut s, &script, true, false, &mut rec);
    rec
}

pub fn listen() -> Option<(TcpListener, u16)> {
    let l = TcpListener::bind((crate::util::lo(), 0)).ok()?;
    let p = l.local_addr().ok()?.port();
    Some((l, p))
}

/// Serves one connection per script, each in its own thread, until `stop` is set and all
/// handlers have finished. Connections beyond the scripts are accepted and closed at once.
pub fn serve_many(
    listener: TcpListener,
    scripts: Vec<Vec<Step>>,
    stall_at_end: bool,
    stop: std::sync::Arc<std::sync::atomic::AtomicBool>,
) -> Vec<Record> {
    use std::sync::atomic::Ordering;
    listener.set_nonblocking(true).ok();
    let mut handles = Vec::new();
    let mut k = 0usize;
    loop {
        match listener.accept() {
            Ok((mut s, _)) => {
                s.set_nonblocking(false).ok();
                s.set_nodelay(true).ok();
                s.set_read_timeout(Some(Duration::from_secs(20))).ok();
                if let Some(script) = scripts.get(k).cloned() {
                    handles.push(std::thread::spawn(move || {
                        let mut rec = Record::default();
                        serve_stream_opt(&mut s, &script, true, false, stall_at_end, &mut rec);
                        rec
                    }));
                } else {
                    drop(s);
                }
                k += 1;
            }
            Err(_) => {
                if stop.load(Ordering::SeqCst) {
                    break;
                }
                std::thread::sleep(Duration::from_millis(1));
            }
        }
    }
    handles.into_iter().map(|h| h.join().unwrap_or_default()).collect()
}
