import LettreVerif.Proofs.HeaderEnc
import LettreVerif.Spec.Rfc2047Dec
/-!
# C12 — Header text survives encoding: a conforming reader recovers the exact string

Full statement (not proved yet; checked by the correspondence on every generated text —
the RFC 2047 reader of `Spec/Rfc2047Dec.lean` is applied to the real encoded value):

    theorem unstructured_roundtrip (n : Nat) (raw : Bytes) (h : Utf8 raw) :
        Rfc2047Dec.decode (encodeValue opts n raw) = raw

Proved here: every encoded-word the encoder can emit is valid on its own and decodes to
exactly the word it carries (`encoded_word_roundtrip`), and the pieces an encoded value is
made of are well formed (`C02.value_wf`).
-/
namespace LV.C12
open LV LV.HeaderEnc LV.Rfc2047Dec

theorem enc_length : ∀ (x : Bytes), (Base64.enc x).length = 4 * ((x.length + 2) / 3)
  | [] => by simp [Base64.enc]
  | [_] => by simp [Base64.enc]
  | [_, _] => by simp [Base64.enc]
  | a :: b :: c :: t => by
    have := enc_length t
    simp only [Base64.enc, List.length_cons, this]
    omega

/-- An encoded-word carrying at most 45 octets (what `rfc2047::encode` puts into one) is at most
    75 characters long, has the `=?utf-8?b?…?=` shape, and decodes to exactly its word. -/
theorem encoded_word_roundtrip (word : Bytes) (hne : word ≠ []) (hl : word.length ≤ 45) :
    (encPrefix ++ Base64.enc word ++ encSuffix).length ≤ 75 ∧
    encWord? (encPrefix ++ Base64.enc word ++ encSuffix) = some word := by
  have hlen := enc_length word
  have hpos : 0 < word.length := List.length_pos_iff.mpr hne
  have hb : 4 ≤ (Base64.enc word).length ∧ (Base64.enc word).length ≤ 60 := by omega
  have htot : (encPrefix ++ Base64.enc word ++ encSuffix).length = 12 + (Base64.enc word).length := by
    simp [encPrefix, encSuffix]; omega
  refine ⟨by omega, ?_⟩
  simp only [encWord?]
  have c1 : decide ((encPrefix ++ Base64.enc word ++ encSuffix).length ≤ 75) = true := by rw [htot]; simp; omega
  have c2 : decide ((encPrefix ++ Base64.enc word ++ encSuffix).length ≥ 12) = true := by rw [htot]; simp
  have c3 : ((encPrefix ++ Base64.enc word ++ encSuffix).take 10).map lower = prefixLc := by
    have : (encPrefix ++ Base64.enc word ++ encSuffix).take 10 = encPrefix := by
      simp [encPrefix, List.append_assoc]
    rw [this]; decide
  have c4 : (encPrefix ++ Base64.enc word ++ encSuffix).drop ((encPrefix ++ Base64.enc word ++ encSuffix).length - 2) = [63, 61] := by
    have : (encPrefix ++ Base64.enc word ++ encSuffix).length - 2 = (encPrefix ++ Base64.enc word).length := by
      simp [encPrefix, encSuffix]
    rw [this, List.drop_left]; rfl
  have c5 : ((encPrefix ++ Base64.enc word ++ encSuffix).drop 10).take ((encPrefix ++ Base64.enc word ++ encSuffix).length - 12) = Base64.enc word := by
    have h10 : (encPrefix ++ Base64.enc word ++ encSuffix).drop 10 = Base64.enc word ++ encSuffix := by
      simp [encPrefix, List.append_assoc]
    rw [h10, htot]
    simp
  rw [c1, c2, c3, c4, c5]
  simp [Base64.dec_enc]

/-- The room computed for an encoded-word never exceeds 45 octets. -/
theorem word_room_le_45 (lineLen : Nat) : (maxLineLen - (10 + 2 + lineLen + 2)) / 4 * 3 ≤ 45 := by
  simp only [maxLineLen]; omega

end LV.C12
