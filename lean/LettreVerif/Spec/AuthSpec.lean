import LettreVerif.Model.Base64
import LettreVerif.Model.Utf8
/-!
# S: what the authentication phase may put on the wire

PLAIN (RFC 4616): `AUTH PLAIN base64(NUL user NUL pass)`.  XOAUTH2: `AUTH XOAUTH2
base64("user=" user ^A "auth=Bearer " pass ^A ^A)`.  LOGIN: `AUTH LOGIN`, then to a challenge
whose decoded text is a user-name prompt the base64 of the user name, to a password prompt the
base64 of the password.  Nothing else is a credential line.
-/
namespace LV.AuthSpec
open LV

inductive Mech | plain | login | xoauth2 deriving Repr, DecidableEq

def sp (s : String) : Bytes := s.toUTF8.data.toList

def stripCrlf (u : Bytes) : Option Bytes :=
  match u.reverse with
  | 10 :: 13 :: body => some body.reverse
  | _ => none

/-- the credential carried by the first AUTH line, decoded -/
def initialCredential (m : Mech) (line : Bytes) : Option Bytes :=
  match stripCrlf line with
  | none => none
  | some l =>
    let pre := match m with
      | .plain => sp "AUTH PLAIN " | .xoauth2 => sp "AUTH XOAUTH2 " | .login => sp "AUTH LOGIN"
    if pre.isPrefixOf l then
      (match m with
       | .login => if l == pre then some [] else none
       | _ => Base64.dec (l.drop pre.length))
    else none

def expectedInitial (m : Mech) (user pass : Bytes) : Bytes :=
  match m with
  | .plain => [0] ++ user ++ [0] ++ pass
  | .xoauth2 => sp "user=" ++ user ++ [1] ++ sp "auth=Bearer " ++ pass ++ [1, 1]
  | .login => []

def isUserPrompt (p : Bytes) : Bool :=
  [sp "User Name", sp "Username:", sp "Username", sp "User Name" ++ [0]].any (eqIgnoreAsciiCase p)
def isPassPrompt (p : Bytes) : Bool :=
  [sp "Password", sp "Password:", sp "Password" ++ [0]].any (eqIgnoreAsciiCase p)

end LV.AuthSpec
