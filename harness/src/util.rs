pub fn unhex(s: &str) -> Option<Vec<u8>> {
    if s == "-" {
        return Some(vec![]);
    }
    if s.len() % 2 != 0 {
        return None;
    }
    let b = s.as_bytes();
    let v = |c: u8| -> Option<u8> {
        match c {
            b'0'..=b'9' => Some(c - b'0'),
            b'a'..=b'f' => Some(c - b'a' + 10),
            b'A'..=b'F' => Some(c - b'A' + 10),
            _ => None,
        }
    };
    let mut out = Vec::with_capacity(b.len() / 2);
    for i in (0..b.len()).step_by(2) {
        out.push(v(b[i])? * 16 + v(b[i + 1])?);
    }
    Some(out)
}

pub fn hex(b: &[u8]) -> String {
    if b.is_empty() {
        return "-".to_string();
    }
    const T: &[u8; 16] = b"0123456789abcdef";
    let mut s = String::with_capacity(b.len() * 2);
    for &x in b {
        s.push(T[(x >> 4) as usize] as char);
        s.push(T[(x & 15) as usize] as char);
    }
    s
}

/// comma separated list of hex strings; `-` = no element, `_` = empty element
pub fn unhex_list(s: &str) -> Option<Vec<Vec<u8>>> {
    if s == "-" {
        return Some(vec![]);
    }
    s.split(',')
        .map(|e| if e == "_" { Some(vec![]) } else { unhex(e) })
        .collect()
}

#[allow(dead_code)]
pub fn unhex_str(s: &str) -> Option<String> {
    String::from_utf8(unhex(s)?).ok()
}

pub fn hex_list(items: &[Vec<u8>]) -> String {
    if items.is_empty() {
        return "-".to_string();
    }
    items
        .iter()
        .map(|i| if i.is_empty() { "_".to_string() } else { hex(i) })
        .collect::<Vec<_>>()
        .join(",")
}


/// the loopback address this process uses for every listener and every connection. Each harness process takes its own
/// address in 127.0.0.0/8 (from its pid and the clock): sockets left in TIME_WAIT by earlier processes then never stand in
/// the way of `bind(addr, 0)` — with one shared 127.0.0.1, two large runs in a row used up every ephemeral port
/// (EADDRINUSE) and cases were lost.
pub fn lo() -> &'static str {
    static LO: std::sync::OnceLock<String> = std::sync::OnceLock::new();
    LO.get_or_init(|| {
        if std::env::var_os("LVH_LOOPBACK_DEFAULT").is_some() {
            return "127.0.0.1".to_string();
        }
        let pid = std::process::id();
        let t = std::time::SystemTime::now().duration_since(std::time::UNIX_EPOCH).map(|d| d.subsec_nanos()).unwrap_or(0);
        let addr = format!("127.{}.{}.{}", 1 + (pid >> 8) % 250, pid % 256, 1 + (t / 1000) % 250);
        // fall back to 127.0.0.1 where the other loopback addresses cannot be bound
        match std::net::TcpListener::bind((addr.as_str(), 0)) {
            Ok(_) => addr,
            Err(_) => "127.0.0.1".to_string(),
        }
    })
}
