"""Generators of display names, addresses, mailbox texts, builder programs (C17, C01)."""
from tools.lv import hexs

NAMES = [None, "", " ", "Joe", "Joe Q. Public", "  padded  ", "a  b", "a\tb", "Mary Smith", "Joe, Q.", "\"quoted\"", "back\\slash", "Backup C:\\", "\\", "<angle>",
         "semi;colon", "at@sign", "(paren)", "Ünïcödé", "日本語", "😀 smile", "a\x00b", "a\rb", "a\nb", "a\r\nb", "\x7f", "\x01ctl", "9", "x9y",
         "Dr. O'Neil", "a.b", "name with = and ?", "=?utf-8?b?aGk=?=", "x" * 100, "é" * 40, "tab\tinside", "trailing ", " leading",
         "comma, inside", "dot.", ".", "a:b", "[bracket]", "NBSP\u00a0x", "LS\u2028x",
         # names the caller has already wrapped in double quotes (round 7: C01/m19 wrote them as they are)
         "\"x\\\"", "\"a\rb\"", "\"a\x00b\"", "\"a b\"", "\"a\\\\b\"", "\"", "\"\"", "\"a\" b", "Bob ", " Bob", "\tBob\t"]
ADDRS = ["a@b.c", "user@example.com", "first.last@example.org", "a+b@x.y", "-x@o.c", "\"q\"@example.org", "\"a b\"@example.com", "\"a\\\"b\"@e.org",
         "\"<x>\"@e.org", "用户@例え.jp", "üser@example.com", "u@[127.0.0.1]", "u@[IPv6:::1]", "a@bücher.de", "x@1.1.1.1", "a!b@c.d", "a@b-c.d", "\"a@b\"@c.d",
         "\"a  b\"@c.d", "a'b@c.d", "root@localhost", "a@b"]
GOOD_ADDRS = ["a@b.c", "user@example.com", "first.last@example.org", "a+b@x.y", "-x@o.c", "用户@例え.jp", "üser@example.com", "a@bücher.de", "x@1.1.1.1"]


def nm(n):
    return "-" if n is None else hexs(n) if n != "" else "2d2d"[:0] or "-e"


def name_field(n):
    # None -> "-", "" is encoded as a single space trimmed? we need a distinct spelling: use "_e" which unhexes to nothing
    if n is None:
        return "-"
    return hexs(n) if n else hexs(" ")  # an empty name and a blank name behave alike (trimmed); send " "


def mbox_cases(rng, n):
    cases = []
    for name in NAMES:
        for a in ADDRS:
            cases.append(f"mbox\t{name_field(name)}\t{hexs(a)}")
    alphabet = "ab ,.\"\\<>()@;:é😀\t9=?'"
    for _ in range(n):
        name = "".join(rng.choice(alphabet) for _ in range(rng.randint(0, 20)))
        cases.append(f"mbox\t{name_field(name)}\t{hexs(rng.choice(ADDRS))}")
    # the other constructors: TryFrom<(name, address)> keeps the name as given, From<Address> has no name
    for name in NAMES:
        if name is not None:
            cases.append(f"mboxctor\t{hexs(name) if name else hexs(' ')}\t{hexs(rng.choice(GOOD_ADDRS))}")
    # every mailbox header (From, Sender, Cc, Bcc, Reply-To; To is the default above): the same wire-form checks
    for hk in "fscbr":
        for name in NAMES:
            cases.append(f"mbox\t{name_field(name)}\t{hexs(rng.choice(ADDRS))}\t{hk}")
        for _ in range(max(10, n // 20)):
            name = "".join(rng.choice(alphabet) for _ in range(rng.randint(0, 60)))
            cases.append(f"mbox\t{name_field(name)}\t{hexs(rng.choice(ADDRS))}\t{hk}")
    return cases


def list_cases(rng, n):
    cases = ["mboxlist\t-"]
    for _ in range(n):
        k = rng.choice([1, 1, 2, 3, 5, 10, 50])
        items = [f"{name_field(rng.choice(NAMES))}:{hexs(rng.choice(ADDRS))}" for _ in range(k)]
        cases.append("mboxlist\t" + ",".join(items))
    return cases


PARSE_TEXTS = ["a@b", "root@localhost", "Joe <root@localhost>", "a@b, c@d", "a@b.", "a@.b", "a@b.c", " a@b.c ", "<a@b.c>", "Joe <a@b.c>", "\"Joe Q\" <a@b.c>", "Joe Q. Public <a@b.c>", "a@b.c, x@y.z", "a@b.c,x@y.z", "A <a@b.c>, \"X, Y\" <x@y.z>",
               "", ",", "a@b.c,", ",a@b.c", "a@", "@b", "a@b@c", "Joe a@b.c", "<a@b.c", "a@b.c>", "\"unterminated <a@b.c>", "a b@c.d", "\"a b\"@c.d", "a.b.@c.d", ".a@c.d",
               "a@[1.1.1.1]", "Joe <a@[1.1.1.1]>", "\u00a0a@b.c\u2028", "a @b.c", "a@ b.c", "A  B   <a@b.c>", "\"a\\\"b\" <a@b.c>", "=?utf-8?b?w6k=?= <a@b.c>", "é <a@b.c>", "é@b.c",
               "a@é.c", "a@😀.c", "Joe <\"q r\"@x.y>", "x <a@b.c> trailing", "a@b.c x@y.z", "A. B. <a@b.c>", ". <a@b.c>", "a@b.c;", "a@b..c", "a@-b.c"]


def parse_cases(rng, n):
    cases = []
    for t in PARSE_TEXTS:
        for k in "sl":
            cases.append(f"mboxparse\t{k}\t{hexs(t) if t else '-'}")
    alphabet = "ab@.<>\", \\\t()é:;[]1"
    for _ in range(n):
        r = rng.random()
        if r < 0.5:
            t = "".join(rng.choice(alphabet) for _ in range(rng.randint(1, 14)))
        else:
            parts = []
            for _ in range(rng.choice([1, 1, 2, 3])):
                name = rng.choice(NAMES[:20])
                a = rng.choice(ADDRS)
                if name is None:
                    parts.append(rng.choice([a, f"<{a}>", f" {a} "]))
                else:
                    q = rng.choice([name, f"\"{name}\""])
                    parts.append(f"{q} <{a}>")
            t = rng.choice([", ", ",", " , ", ";"]).join(parts)
            if rng.random() < 0.3:
                i = rng.randrange(len(t) + 1)
                t = t[:i] + rng.choice(alphabet) + t[i:]
        cases.append(f"mboxparse\t{rng.choice('sl')}\t{hexs(t)}")
    return cases


def build_cases(rng, n, addrs=None, names=None):
    addrs = addrs or ADDRS
    names = names or NAMES
    cases = ["build\t-"]
    for _ in range(n):
        ops = []
        for _ in range(rng.choice([1, 2, 3, 4, 6, 9, 14])):
            r = rng.random()
            if r < 0.04:
                ops.append("K")
            elif r < 0.06:
                ops.append("D")
            elif r < 0.08:
                ops.append("U:" + hexs(rng.choice(["lettre", "agent/1.0 (x)", "a\r\nX-Injected: 1", "é" * 30, "x" * 120, "tok\r\n\r\nbody"])))
            elif r < 0.12:
                f = rng.choice(GOOD_ADDRS + ["-"])
                to = [rng.choice(GOOD_ADDRS) for _ in range(rng.randint(1, 3))]
                ops.append(f"E:{hexs(f) if f != '-' else '-'}:{';'.join(hexs(t) for t in to)}")
            else:
                k = rng.choice("FFSTTTCCBBR")
                ops.append(f"{k}:{name_field(rng.choice(names))}:{hexs(rng.choice(addrs))}")
        if rng.random() < 0.15:
            ops.insert(0, "W")      # the builder obtained from `MessageBuilder::default()`
        cases.append("build\t" + ",".join(ops))
    # ... with Bcc recipients in particular (the default builder drops the Bcc header like `Message::builder()` does)
    for k in range(6):
        ops = ["W", f"F:-:{hexs('f@x.y')}", f"T:-:{hexs('t@x.y')}", f"B:-:{hexs('hidden%d@x.y' % k)}"] + (["K"] if k % 2 else [])
        cases.append("build\t" + ",".join(ops))
    return cases
