import LettreVerif.Model.Bytes
/-!
# S: RFC 3461 §4 xtext, read by a receiver

`xtext = *( xchar / hexchar )`, `xchar = %d33-42 / %d44-60 / %d62-126`,
`hexchar = "+" 2(%x30-39 / %x41-46)`.  Non-ASCII octets are accepted as themselves
(UTF-8 under SMTPUTF8, RFC 6533 style; the repository's test pins them as raw).
-/
namespace LV.XTextSpec

def hexDigitVal (b : Byte) : Option Nat :=
  let n := b.toNat
  if 48 ≤ n ∧ n ≤ 57 then some (n - 48) else if 65 ≤ n ∧ n ≤ 70 then some (n - 55) else none

def isXchar (b : Byte) : Bool :=
  let n := b.toNat
  (33 ≤ n && n ≤ 42) || (44 ≤ n && n ≤ 60) || (62 ≤ n && n ≤ 126) || 128 ≤ n

/-- decode; `none` = not valid xtext -/
def decode : Bytes → Option Bytes
  | [] => some []
  | b :: rest =>
    if b = 43 then
      match rest with
      | h :: l :: rest' =>
        (match hexDigitVal h, hexDigitVal l, decode rest' with
         | some x, some y, some r => some (UInt8.ofNat (x * 16 + y) :: r)
         | _, _, _ => none)
      | _ => none
    else if isXchar b then (decode rest).map (b :: ·) else none

end LV.XTextSpec
