import LettreVerif.Model.Headers
import LettreVerif.Model.Base64
import LettreVerif.Model.Sha256
/-!
# M: DKIM signing (src/message/dkim.rs)

`bodyCanon` / `relH` / `canonHeaders` transcribe `dkim_canonicalize_body`,
`dkim_canonicalize_headers_relaxed` (its three local functions `name`, `value`,
`skip_whitespace` become the three modes of one recursion) and `dkim_canonicalize_headers`;
`sign` is `dkim_sign_fixed_time` with the signature primitive a parameter (`sigOf`).

A message is what `Message` holds for the purpose of signing: the message-level header map,
the octets of the MIME part's own header block (empty for a raw body) and the body octets that
follow the empty line.
-/
namespace LV.Dkim
open LV LV.Headers

inductive Canon | simple | relaxed
deriving DecidableEq, Repr

/-- behaviour switches that follow repairs made in /repo (see known_findings.json) -/
structure Opts where
  /-- relaxed body canonicalization of a body without any content is empty, not CRLF -/
  emptyRelaxed : Bool
  /-- `simple` header canonicalization keeps the message's spelling of a field name -/
  msgSpelling : Bool
  /-- the fields of the MIME part's header block can be signed too -/
  partHeaders : Bool

def opts : Opts := ⟨true, true, true⟩

def isWsp (b : Byte) : Bool := b == 32 || b == 9

/-- on the reversed body: `while body.ends_with(b"\r\n\r\n") { drop the last two }` -/
def stripRev : Bytes → Bytes
  | 10 :: 13 :: 10 :: 13 :: r => stripRev (10 :: 13 :: r)
  | r => r
termination_by r => r.length

def stripEmptyLines (b : Bytes) : Bytes := (stripRev b.reverse).reverse

/-- the `loop { match body { … } }` of the relaxed arm -/
def relaxedGo : Bytes → Bytes
  | [] => []
  | c :: rest =>
    if isWsp c then
      match rest with
      | 13 :: 10 :: _ => relaxedGo rest
      | d :: _ => if isWsp d then relaxedGo rest else 32 :: relaxedGo rest
      | [] => [32]
    else c :: relaxedGo rest

def bodyCanon (o : Opts) (c : Canon) (body : Bytes) : Bytes :=
  match c with
  | .simple => stripEmptyLines body
  | .relaxed =>
    let out := stripEmptyLines (relaxedGo body)
    if o.emptyRelaxed && out == CRLF then [] else out

/-- modes of `dkim_canonicalize_headers_relaxed`: inside `name`, inside `skip_whitespace`
    (called from `name`), inside `value` -/
inductive Mode | name | skip | value
deriving DecidableEq, Repr

def Mode.rank : Mode → Nat
  | .name => 0 | .skip => 1 | .value => 0

def relH : Mode → Bytes → Bytes
  | .name, [] => []
  | .name, c :: r => if c == 58 then 58 :: relH .skip r else c :: relH .name r
  | .skip, [] => []
  | .skip, c :: r => if isWsp c then relH .skip r else relH .value (c :: r)
  | .value, [] => []
  | .value, 13 :: 10 :: d :: t =>
    if isWsp d then relH .value (d :: t) else 13 :: 10 :: relH .name (d :: t)
  | .value, [13, 10] => [13, 10]
  | .value, c :: d :: t =>
    if isWsp c then
      if isWsp d || d == 13 then relH .value (d :: t)
      else if c == 9 then 32 :: relH .value (d :: t) else c :: relH .value (d :: t)
    else c :: relH .value (d :: t)
  | .value, [c] => if c == 9 then [32] else [c]
termination_by m h => (h.length, m.rank)
decreasing_by all_goals simp_wf; all_goals (simp [Mode.rank]; try omega)

def lowerName (n : Bytes) : Bytes := n.map lowerAscii

/-- `dkim_canonicalize_header_tag` -/
def tag (c : Canon) (n : Bytes) : Bytes := match c with | .simple => n | .relaxed => lowerName n

/-- the `covered_headers` built by `dkim_canonicalize_headers` -/
def covered (o : Opts) (c : Canon) (names : List Bytes) (mail : List HV) : List HV :=
  names.foldl (fun cov n =>
    match find mail n with
    | some h => insertRaw cov ⟨if o.msgSpelling && c == .simple then h.name else tag c n, h.raw, h.encoded⟩
    | none => cov) []

def canonHeaders (o : Opts) (c : Canon) (names : List Bytes) (mail : List HV) : Bytes :=
  let s := display (covered o c names mail)
  match c with | .simple => s | .relaxed => relH .name s

structure Cfg where
  alg : Bytes            -- "rsa" | "ed25519"
  selector : Bytes
  domain : Bytes
  names : List Bytes
  hc : Canon
  bc : Canon

structure Msg where
  mh : List HV           -- message-level header map
  partHdr : List HV      -- the MIME part's header block
  body : Bytes           -- what follows the empty line
deriving DecidableEq

def Msg.format (m : Msg) : Bytes := display m.mh ++ display m.partHdr ++ CRLF ++ m.body

/-- `Message::body_raw` -/
def Msg.bodyRaw (m : Msg) : Bytes := m.body ++ CRLF

def canonName : Canon → Bytes
  | .simple => str "simple" | .relaxed => str "relaxed"

def natDec (n : Nat) : Bytes := (toString n).toUTF8.data.toList

def colonJoin : List Bytes → Bytes
  | [] => []
  | [n] => n
  | n :: ns => n ++ [58] ++ colonJoin ns

/-- the `h=` value -/
def hList (cfg : Cfg) : Bytes :=
  let l := colonJoin cfg.names
  match cfg.hc with | .simple => l | .relaxed => lowerName l

def sigName : Bytes := str "DKIM-Signature"

/-- the raw value given to `HeaderValue::new` by `dkim_header_format` -/
def headerValue (cfg : Cfg) (ts : Nat) (bh sig : Bytes) : Bytes :=
  str "v=1; a=" ++ cfg.alg ++ str "-sha256; d=" ++ cfg.domain ++ str "; s=" ++ cfg.selector ++
  str "; c=" ++ canonName cfg.hc ++ [47] ++ canonName cfg.bc ++ str "; q=dns/txt; t=" ++ natDec ts ++
  str "; h=" ++ hList cfg ++ str "; bh=" ++ bh ++ str "; b=" ++ sig

/-- `str::trim_end` on a string whose last non-blank character is ASCII -/
def trimEnd (b : Bytes) : Bytes :=
  (b.reverse.dropWhile fun c => c == 32 || (9 ≤ c.toNat && c.toNat ≤ 13)).reverse

/-- the header map `find_header` looks into: the message-level map, with the fields of the MIME
    part's header block that are to be signed inserted -/
def Msg.signable (o : Opts) (names : List Bytes) (m : Msg) : List HV :=
  if o.partHeaders then
    names.foldl (fun hs n => match find m.partHdr n with | some h => insertRaw hs h | none => hs) m.mh
  else m.mh

/-- the octets given to the body hash -/
def bodyInput (o : Opts) (cfg : Cfg) (m : Msg) : Bytes := bodyCanon o cfg.bc m.bodyRaw

def bhOf (o : Opts) (cfg : Cfg) (m : Msg) : Bytes := Base64.enc (Sha256.digest (bodyInput o cfg m))

/-- the octets given to the header hash -/
def headerInput (o : Opts) (cfg : Cfg) (ts : Nat) (m : Msg) : Bytes :=
  canonHeaders o cfg.hc cfg.names (m.signable o cfg.names) ++
  trimEnd (canonHeaders o cfg.hc [sigName] [HV.new (tag cfg.hc sigName) (headerValue cfg ts (bhOf o cfg m) [])])

/-- `dkim_sign_fixed_time`; `sigOf` is the signature primitive applied to the header input,
    base64 encoded -/
def sign (o : Opts) (sigOf : Bytes → Bytes) (cfg : Cfg) (ts : Nat) (m : Msg) : Msg :=
  { m with mh := insertRaw m.mh (HV.new sigName (headerValue cfg ts (bhOf o cfg m) (sigOf (headerInput o cfg ts m)))) }

/-! ### the shape of the header fields lettre emits (hypothesis of the header theorems, checked per case by the driver) -/

/-- a folded field value: every CR starts a CRLF that is followed by SP / HTAB (a fold); no other CR, no other LF -/
def wfValue : Bytes → Bool
  | 13 :: 10 :: c :: r => isWsp c && wfValue (c :: r)
  | 13 :: _ => false
  | 10 :: _ => false
  | _ :: r => wfValue r
  | [] => true

/-- a field as `Headers` holds it: a name without colon that neither starts nor ends with a blank, a well-folded value
    that is not folded right after the blanks following the colon -/
def mailFieldOk (h : HV) : Bool :=
  h.name.all (· != 58) && !h.name.isEmpty && !(h.name.head?.map isWsp).getD true && !(h.name.getLast?.map isWsp).getD true &&
  wfValue h.encoded && ((h.encoded.dropWhile isWsp).head? != some 13)

/-- no two fields with the same name (ignoring case) -/
def uniqueNames : List HV → Bool
  | [] => true
  | h :: hs => hs.all (fun g => !eqName h.name g.name) && uniqueNames hs

end LV.Dkim
