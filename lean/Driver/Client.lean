import Driver.Util
import Driver.C15
import LettreVerif.Model.Client
import LettreVerif.Spec.Dialogue
import LettreVerif.Spec.AuthSpec
namespace LV.Driver.ClientOp
open LV LV.Response LV.Client LV.Driver

def parseScript (s : String) : Option (List Step) :=
  if s == "-" then some [] else
  (s.splitOn ",").mapM fun e =>
    match e.splitOn ":" with
    | [r, f] => (if r == "_" then some [] else ofHexChars r.toList).map fun b => ⟨b, f == "c"⟩
    | _ => none

def hexListStr (l : List Bytes) : String :=
  if l.isEmpty then "-" else ",".intercalate (l.map fun b => if b.isEmpty then "_" else toHex b)

def showErr : Err → String
  | .transient c t => s!"T:{C15.codeStr c}:{toHexField t}"
  | .permanent c t => s!"P:{C15.codeStr c}:{toHexField t}"
  | .client => "C"
  | .bad => "B"

def showRes : Res → String
  | .ok r => s!"ok:{C15.codeStr r.code}:{hexListStr r.lines}"
  | .error e => showErr e

def parseMechs (s : String) : Option (List Mech) :=
  if s == "-" then some [] else
  s.toList.mapM fun c => if c == 'P' then some .plain else if c == 'L' then some .login
    else if c == 'X' then some .xoauth2 else none

structure Job where
  hello : Bytes
  prog : List Char
  from? : Option Bytes
  to : List Bytes
  msg : Bytes
  mechs : List Mech
  user : Bytes
  pass : Bytes
  script : List Step

def parseJob : List String → Option Job
  | [hello, prog, from_, to, msg, mechs, user, pass, script] => do
    let hello ← ofHex hello
    let f ← if from_ == "-" then some none else (ofHex from_).map some
    let to ← hexList to
    let msg ← ofHex msg
    let mechs ← parseMechs mechs
    let user ← ofHex user
    let pass ← ofHex pass
    let script ← parseScript script
    some ⟨hello, prog.toList, f, to, msg, mechs, user, pass, script⟩
  | _ => none

/-- run the program of actions on the model; returns the result strings and the connection -/
def runProg (j : Job) : List String × Option Conn :=
  match connect j.script j.hello with
  | (c, .error e) => ([s!"connect:{showErr e}"], some c)
  | (c, .ok ()) =>
    let rec go (c : Conn) (acc : List String) : List Char → List String × Conn
      | [] => (acc.reverse, c)
      | a :: as =>
        if a == 'S' then let (c, r) := c.send j.from? j.to j.msg; go c (showRes r :: acc) as
        else if a == 'N' then let (c, b) := c.testConnected; go c ((if b then "noop:1" else "noop:0") :: acc) as
        else if a == 'Q' then let (c, r) := c.quit; go c (showRes r :: acc) as
        else if a == 'A' then let (c, r) := c.auth j.mechs j.user j.pass; go c (showRes r :: acc) as
        else if a == 'X' then go c.abort ("abort" :: acc) as
        else go c acc as
    let (rs, c) := go c ["connect:ok"] j.prog
    (rs, some c)

/-- the reply of a script step when it holds exactly one well-formed reply -/
def stepReply (st : Step) : Option Resp :=
  match parse st.reply with
  | .ok r [] => some r
  | _ => none

/-- every step is empty, one well-formed reply, or something that is definitely not a reply -/
def simpleScript (sc : List Step) : Bool :=
  sc.all fun st => st.reply.isEmpty || (stepReply st).isSome ||
    (match parse st.reply with | .error => true | .failure => true | _ => false)

/-- pair every unit with the reply the peer gave (script step k+1 answers unit k; nothing
    after the peer has stopped sending) -/
def pairUnits (units : List Bytes) (sc : List Step) : List (Bytes × Option Resp) :=
  let rec go (us : List Bytes) (steps : List Step) (open_ : Bool) : List (Bytes × Option Resp) :=
    match us with
    | [] => []
    | u :: us =>
      if !open_ then (u, none) :: go us steps false else
      match steps with
      | [] => (u, none) :: go us [] false
      | st :: steps => (u, stepReply st) :: go us steps (!st.close)
  match sc with
  | [] => units.map fun u => (u, none)
  | g :: rest => go units rest (!g.close)

def expectedOf (o : Dialogue.Outcome) : String :=
  match o with
  | .delivered r => showRes (.ok r)
  | .refused (some r) =>
    (match classify r.code with
     | .positive => "B?"
     | .transient => showErr (.transient r.code r.lines.flatten)
     | .permanent => showErr (.permanent r.code r.lines.flatten))
  | .refused none => "B"

/-- the specification applied to the implementation's real transcript and results -/
def oracle (j : Job) (results : List String) (units : List Bytes) (early tail : String) : Option String :=
  if !simpleScript j.script then none else
  if tail != "-" then some "unterminated-line-sent" else
  if early.toList.any (· == '1') then some "command-sent-before-reply-complete" else
  let paired := pairUnits units j.script
  -- EHLO first
  let ehloBad := match units with
    | [] => false
    | u :: _ => u != ehloLine j.hello
  if ehloBad then some "first-unit-is-not-EHLO" else
  let ehloReply : Option Resp := (paired.head?).bind (·.2)
  let adv (kw : String) : Bool := match ehloReply with | some r => Dialogue.advertises (str kw) r | none => false
  let utf8 := !((j.from?.toList ++ j.to).all isAsciiBytes)
  let eight := !isAsciiBytes j.msg
  let env : Dialogue.Envelope := ⟨mailLine j.from? utf8 eight, j.to.map rcptLine, j.msg⟩
  match Dialogue.walk env .idle paired [] with
  | none => some "dialogue-not-valid"
  | some outcomes =>
    -- results of the send actions, in order
    let acts := j.prog.zip (results.drop 1)
    let sendRes := (acts.filter (·.1 == 'S')).map (·.2)
    let needRefuse := (utf8 && !adv "SMTPUTF8") || (eight && !adv "8BITMIME")
    if needRefuse then
      if sendRes.any (· != "C") && results.head? == some "connect:ok" && ehloReply.isSome then some "extension-needed-but-not-advertised-and-send-not-refused"
      else if !outcomes.isEmpty then some "MAIL-sent-although-extension-missing" else none
    else
      let wire := sendRes.filter (· != "C")
      if sendRes.any (· == "C") then some "send-refused-by-client-without-reason"
      else
        -- sends on a connection that was already shut produce no unit and report `B`
        let exp := outcomes.map expectedOf
        let ok := exp.length ≤ wire.length && (exp.zip wire).all (fun (a, b) => a == b) &&
          (wire.drop exp.length).all (· == "B")
        if ok then none else some s!"send-results-do-not-match-server-replies:expected={exp}"

/-- mechanisms advertised on `AUTH` lines of the EHLO reply (keyword matched as the client
    does, case-sensitively: an `auth plain` line is not recognised, which fails safe) -/
def offeredMechs (r : Resp) : List AuthSpec.Mech :=
  let ws (l : Bytes) : List Bytes :=
    ((String.ofList ((l.map fun b => Char.ofNat b.toNat))).splitOn " ").flatMap (fun w => w.splitOn "\t")
      |>.filter (· != "") |>.map (fun w => w.toList.map (fun c => UInt8.ofNat c.toNat))
  r.lines.flatMap fun l =>
    match ws l with
    | kw :: ms => if kw == str "AUTH" then
        ms.filterMap (fun m => if m == str "PLAIN" then some .plain else if m == str "LOGIN" then some .login
          else if m == str "XOAUTH2" then some .xoauth2 else none) else []
    | [] => []

def toSpecMech : Mech → AuthSpec.Mech
  | .plain => .plain | .login => .login | .xoauth2 => .xoauth2

/-- C14 on the real transcript of a program that starts with `A` -/
def authOracle (j : Job) (results : List String) (units : List Bytes) : Option String :=
  if j.prog.head? != some 'A' || !simpleScript j.script || results.head? != some "connect:ok" then none else
  let paired := pairUnits units j.script
  let ehloReply : Option Resp := (paired.head?).bind (·.2)
  let offered := match ehloReply with | some r => offeredMechs r | none => []
  let chosen := (j.mechs.map toSpecMech).find? (fun m => offered.contains m)
  -- the authentication phase: units after EHLO up to the first MAIL / QUIT / NOOP
  let phase := (paired.drop 1).takeWhile fun (u, _) =>
    !(Dialogue.isPrefix Dialogue.kwMAIL u || u == Dialogue.kwQUIT || u == noopLine)
  let authRes := (results.drop 1).head?
  match chosen with
  | none =>
    if !phase.isEmpty then some "credential-or-AUTH-sent-without-offered-mechanism"
    else if authRes != some "C" then some "no-mechanism-but-auth-did-not-fail-in-client" else none
  | some m =>
    match phase with
    | [] => some "mechanism-offered-but-no-AUTH-sent"
    | (first, rep1) :: rest =>
      if AuthSpec.initialCredential m first != some (AuthSpec.expectedInitial m j.user j.pass) then
        some "first-AUTH-line-wrong-mechanism-or-credential"
      else if phase.length > 11 then some "more-than-eleven-auth-lines"
      else
        -- every later line answers the previous 334 with exactly the user name or the password
        let rec chk (prev : Option Resp) (l : List (Bytes × Option Resp)) : Option String :=
          match l with
          | [] => none
          | (u, rep) :: l =>
            match prev with
            | none => some "line-sent-after-missing-reply"
            | some p =>
              if p.code != (3, 3, 4) then some "line-sent-after-final-auth-reply"
              else if m != .login then some "answer-sent-by-mechanism-without-challenges"
              else
                let prompt := (firstWord p).bind Base64.dec
                match prompt, (AuthSpec.stripCrlf u).bind Base64.dec with
                | some pr, some ans =>
                  if AuthSpec.isUserPrompt pr then (if ans == j.user then chk rep l else some "answer-is-not-the-user-name")
                  else if AuthSpec.isPassPrompt pr then (if ans == j.pass then chk rep l else some "answer-is-not-the-password")
                  else some "answer-sent-to-unknown-prompt"
                | _, _ => some "answer-not-base64-or-prompt-undecodable"
        match chk rep1 rest with
        | some e => some e
        | none =>
          -- success only on a positive, non-challenge final reply after fewer than ten challenges
          let lastRep := (phase.getLast?).bind (·.2)
          let nChallenges := (phase.filter fun (_, r) => match r with | some r => r.code == (3, 3, 4) | none => false).length
          let implOk := match authRes with | some r => r.startsWith "ok:" | none => false
          if implOk && !(Dialogue.positive lastRep && (lastRep.map (·.code != (3, 3, 4))).getD false && nChallenges < 10) then
            some "auth-reported-success-without-final-positive-reply"
          else if !implOk && (Dialogue.positive lastRep && (lastRep.map (·.code != (3, 3, 4))).getD false && nChallenges < 10) then
            some "auth-failed-although-server-accepted"
          else none

def clientOp : List String → String
  | mode :: rest =>
    match rest.reverse with
    | leak :: tail :: early :: units :: broken :: results :: jobRev =>
      match parseJob jobRev.reverse, hexList units with
      | some j, some us =>
        if results == "PANIC" then propfail "panic" else
        if leak != "noleak" then propfail "credential-in-debug-or-error-text" else
        let res := results.splitOn ";"
        match (oracle j res us early tail).orElse (fun _ => authOracle j res us) with
        | some e => propfail e
        | none =>
          let (mres, mc) := runProg j
          let munits := match mc with | some c => c.sent.reverse | none => []
          let mbroken := match mc with
            | some c => if mres.head? == some "connect:ok" then (if c.panic then "1" else "0") else "-"
            | none => "-"
          let _ := mode
          if mres != res then s!"MISMATCH results model={";".intercalate mres}"
          else if munits != us then s!"MISMATCH units model={hexListStr munits}"
          else if mbroken != broken then s!"MISMATCH broken model={mbroken}"
          else "ok"
      | _, _ => "BADLINE"
    | _ => if rest.getLast? == some "PANIC" then propfail "panic" else "BADLINE"
  | _ => "BADLINE"

end LV.Driver.ClientOp
