"""C07 — Concurrent sends through one pooled transport stay isolated and exactly-once."""
from tools import schedgen as sg

LEVEL = "proof"
JOBS = 16
RETRY_TIMING = True
CORRESPONDENCE = ("Model/PoolLts.lean (the pools as a transition system over their critical sections: check-out with probe / connect, the "
                  "transaction, return, maintenance scan and push, shutdown; peer behaviour part of the state) vs the real SmtpTransport and "
                  "tokio AsyncSmtpTransport pools driven through forced orders of their critical sections by the verif-hooks scheduling "
                  "points, against a logging loopback peer")
RULE = ("sched: every order of the critical sections of 2 senders x 1..2 sends and 3 senders x 1 send (sync: check-out and return per send; "
        "tokio: check-out per send and one recycle task per send), with 0..2 connections parked beforehand and max_size 1..3; random orders "
        "for 2x3, 3x2, 4x1 (all orders of 2x3 and 4x1 in the thorough tier) with spare grants and per-connection peer faults (silent drop "
        "after k messages, refused recipient). The controller grants one lock acquisition at a time and waits until every managed thread "
        "waits at a lock, sleeps or is done; the order actually taken is replayed through the model, which must enable every step and "
        "predict every send result, the peer's per-connection history (EHLO, NOOP probes, whole transactions with one sender's identity, "
        "QUIT, close) and the idle count. Independently of the model: transactions are whole and never mix two sends, every successful "
        "send is committed exactly once and no failed send is, a reused connection is probed first; every message carries a tail `CR CR LF . CR LF RSET CR LF` and must arrive unaltered; `late`: the end of data of one send is answered after the client's timeout — the send fails as a timeout, its connection sees nothing but QUIT, the next send gets the reply to its own end of data on another connection. Non-trivial = at least two senders "
        "interleave (a token of another sender between a sender's check-out and return); distinct = distinct case lines.")
TRUSTED_BASE = ["Lean 4 kernel", "axioms: propext, Quot.sound, Classical.choice at most (see axioms per theorem)",
                "atomicity of one transition: the lock-free work a thread does between two lock acquisitions touches only connections it owns "
                "(the invariant Excl of the model) — real executions interleave that work freely, the controller serialises it",
                "the schedule controller (harness/src/sched.rs) and the scheduling points added under the verif-hooks feature",
                "the loopback peer's log as the observation of what each connection carried", "harness lvh + line protocol + this orchestrator"]
ASSUMPTIONS = ["threads interact only through the pool's lock (no other shared state in SmtpClient / SmtpConnection)",
               "the peer accepts connections in the order the client opens them (one thread runs at a time)"]
EXHAUSTIVE_PARTS = ["all orders of the critical sections of 2x1, 2x2 and 3x1 fault-free sends, sync and tokio, for each of the listed pool configurations"]


def gen(tier, rng):
    cases = []
    for kind in "sa":
        for (senders, sends) in [(2, 1), (2, 2), (3, 1)]:
            perms = sg.multiset_perms(sg.sender_tokens(kind, senders, sends))
            if kind == "a":
                # a recycle task r_j cannot run before j+1 sends have finished; unenabled tokens are skipped, keep a sample
                if len(perms) > 400:
                    perms = rng.sample(perms, 400)
            confs = [(1, 0), (2, 0), (2, 1), (3, 2)] if (senders, sends) != (2, 2) or tier != "quick" else [(1, 0), (2, 1)]
            for (mx, pre) in confs:
                for p in perms:
                    cases.append(sg.line(kind, mx, pre, 60000, senders, sends, [], sg.prefill(pre) + list(p)))
    n = {"quick": 300, "search": 1500, "thorough": 6000}[tier]
    for _ in range(n):
        kind = rng.choice("sa")
        senders, sends = rng.choice([(2, 3), (3, 2), (4, 1), (3, 3), (4, 2)])
        mx = rng.choice([1, 2, 3])
        pre = rng.choice([0, 0, 1, 2, 3])
        faults = sg.random_faults(rng, 8, 0.35, kind) if rng.random() < 0.5 else []
        cases.append(sg.line(kind, mx, pre, 60000, senders, sends, faults, sg.prefill(pre) + sg.random_schedule(rng, kind, senders, sends)))
    # a reply that comes after the client's timeout: the connection is out of step with the peer and carries nothing more
    # (blocking transport; the tokio client has no deadline of its own)
    for t in {"quick": [300], "search": [200, 300], "thorough": [200, 300, 400]}[tier]:
        cases.append(f"late\t{t}")
    # a send the client itself refuses (non-ASCII address or 8-bit content without the extension) leaves its pooled connection
    # clean: nothing was written, the next send finds it in step (sequential transport model)
    from tools.props import c20 as _c20
    from tools import smtpgen as _sg
    h = _c20.happy(1)
    reuse = h + [_sg.step(b"250 ok\r\n")] + h[2:] + [_sg.step(b"250 ok\r\n")] + h[2:]
    for client in "sa":
        for to, msg in ((["\u00fcser@example.com"], b"hello\r\n"), (["x@y.z", "\u7528\u6237@example.jp"], b"hello\r\n"), (["x@y.z"], b"caf\xc3\xa9\r\n")):
            for nsends in (2, 3):
                cases.append(_c20.pool_case(client, 300, 1, False, nsends, "a@b.c", to, msg, [reuse, h]))
    if tier == "thorough":
        for kind in "s":
            for (senders, sends) in [(2, 3), (4, 1)]:
                for p in sg.multiset_perms(sg.sender_tokens(kind, senders, sends)):
                    cases.append(sg.line(kind, 2, 1, 60000, senders, sends, [], sg.prefill(1) + list(p)))
    return cases


def timing_dependent(case):
    # real threads against a real peer: a disagreement is re-run alone before it counts
    return True


def nontrivial(case):
    if case.startswith("late") or case.startswith("pool"):
        return True
    toks = case.split("\t")[8].split(",")
    s = [t for t in toks if t.startswith("s")]
    return any(s[i] != s[i + 1] for i in range(len(s) - 1))


def shrinkable(case):
    return []


def distribution(cases):
    d = {"sync": 0, "tokio": 0, "with_faults": 0, "prefilled": 0}
    for c in cases:
        f = c.split("\t")
        if f[0] == "late":
            d["late_reply"] = d.get("late_reply", 0) + 1
            continue
        if f[0] == "pool":
            d["refused_by_the_client"] = d.get("refused_by_the_client", 0) + 1
            continue
        d["sync" if f[1] == "s" else "tokio"] += 1
        d["with_faults"] += f[7] != "-"
        d["prefilled"] += f[3] != "0"
        k = f"{f[5]}x{f[6]}"
        d[k] = d.get(k, 0) + 1
    return d


FINDING_CLASSES = {}
