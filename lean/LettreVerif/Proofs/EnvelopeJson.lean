import LettreVerif.Spec.EnvelopeJson
/-!
# The envelope file reads back (`Spec/EnvelopeJson.lean` applied to `Transports.envelopeJson`)
-/
namespace LV.EnvelopeJson
open LV LV.Transports

theorem readStr_quote (r : Bytes) : readStr (34 :: r) = some ([], r) := by
  rw [readStr.eq_def]; simp

theorem readStr_esc (e : Byte) (r : Bytes) (h : e = 34 ∨ e = 92) :
    readStr (92 :: e :: r) = (readStr r).map fun p => (e :: p.1, p.2) := by
  rw [readStr.eq_def]; simp [h]

theorem readStr_plain (b : Byte) (r : Bytes) (h1 : b ≠ 34) (h2 : b ≠ 92) :
    readStr (b :: r) = (readStr r).map fun p => (b :: p.1, p.2) := by
  rw [readStr.eq_def]; simp [h1, h2]

theorem readStr_escaped (s r : Bytes) : readStr (s.flatMap jsonEscapeByte ++ 34 :: r) = some (s, r) := by
  induction s with
  | nil => exact readStr_quote r
  | cons b bs ih =>
    simp only [List.flatMap_cons, List.append_assoc]
    by_cases h1 : b = 34
    · subst h1
      simp only [jsonEscapeByte, if_true, List.cons_append, List.nil_append]
      rw [readStr_esc _ _ (Or.inl rfl), ih]; rfl
    · by_cases h2 : b = 92
      · subst h2
        have : jsonEscapeByte 92 = [92, 92] := by decide
        rw [this]
        simp only [List.cons_append, List.nil_append]
        rw [readStr_esc _ _ (Or.inr rfl), ih]; rfl
      · simp only [jsonEscapeByte, h1, h2, if_false, List.cons_append, List.nil_append]
        rw [readStr_plain _ _ h1 h2, ih]; rfl

theorem readStr_jsonString (s r : Bytes) : readStr ((jsonString s).drop 1 ++ r) = some (s, r) := by
  simp only [jsonString, List.cons_append, List.nil_append, List.drop_succ_cons, List.drop_zero, List.append_assoc]
  exact readStr_escaped s r

/-- the elements after the first one, each preceded by a comma -/
def tailOf (ts : List Bytes) : Bytes := ts.flatMap fun t => 44 :: jsonString t

theorem joinComma_cons (t : Bytes) (ts : List Bytes) :
    joinComma ((t :: ts).map jsonString) = jsonString t ++ tailOf ts := by
  induction ts generalizing t with
  | nil => simp [joinComma, tailOf]
  | cons u us ih =>
    simp only [List.map_cons, joinComma] at ih ⊢
    rw [ih u]
    simp [tailOf]

theorem readItems_tail : ∀ (ts : List Bytes) (fuel : Nat) (r : Bytes), ts.length < fuel →
    readItems fuel (tailOf ts ++ 93 :: r) = some (ts, r)
  | [], fuel, r, h => by
    obtain ⟨f, rfl⟩ : ∃ f, fuel = f + 1 := ⟨fuel - 1, by omega⟩
    simp [tailOf, readItems]
  | t :: ts, fuel, r, h => by
    obtain ⟨f, rfl⟩ : ∃ f, fuel = f + 1 := ⟨fuel - 1, by omega⟩
    have e : tailOf (t :: ts) ++ 93 :: r = 44 :: 34 :: (t.flatMap jsonEscapeByte ++ 34 :: (tailOf ts ++ 93 :: r)) := by
      simp [tailOf, jsonString]
    rw [e, readItems, readStr_escaped]
    simp only
    rw [readItems_tail ts f r (by simp at h; omega)]
    rfl

theorem tailOf_length (ts : List Bytes) : ts.length ≤ (tailOf ts).length := by
  induction ts with
  | nil => simp [tailOf]
  | cons t ts ih =>
    simp only [tailOf, List.flatMap_cons, List.length_append, List.length_cons] at ih ⊢
    omega

theorem readArr_list (to : List Bytes) (r : Bytes) :
    readArr (joinComma (to.map jsonString) ++ 93 :: r) = some (to, r) := by
  cases to with
  | nil => simp [joinComma, readArr]
  | cons t ts =>
    rw [joinComma_cons]
    have e : jsonString t ++ tailOf ts ++ 93 :: r = 34 :: (t.flatMap jsonEscapeByte ++ 34 :: (tailOf ts ++ 93 :: r)) := by
      simp [jsonString]
    rw [e, readArr, readStr_escaped]
    simp only
    rw [readItems_tail ts _ r (by have := tailOf_length ts; simp only [List.length_append, List.length_cons]; omega)]
    rfl

theorem dropPrefix_append (p s : Bytes) : dropPrefix p (p ++ s) = some s := by
  simp [dropPrefix]

/-- **The envelope file reads back equal**, whatever the addresses (quotes and backslashes of quoted local parts
    included), however many recipients, with or without a reverse path. -/
theorem read_envelopeJson (e : Envelope) : readEnvelope (envelopeJson e) = some e := by
  obtain ⟨f, to⟩ := e
  have h1 : ∀ tailv : Bytes, envelopeJson ⟨f, to⟩ = keyForward ++ (joinComma (to.map jsonString) ++ 93 :: (keyReverse ++ tailv)) →
      readEnvelope (envelopeJson ⟨f, to⟩) =
        (if tailv = str "null}" then some ⟨none, to⟩
         else match tailv with
          | 34 :: r3 =>
            match readStr r3 with
            | some (f, r4) => if r4 = [125] then some ⟨some f, to⟩ else none
            | none => none
          | _ => none) := by
    intro tailv hv
    rw [hv]
    unfold readEnvelope
    rw [dropPrefix_append]
    simp only
    rw [readArr_list]
    simp only
    rw [dropPrefix_append]
    rfl
  cases f with
  | none =>
    rw [h1 (str "null}") (by
      simp only [envelopeJson, keyForward, keyReverse]
      have : str "],\"reverse_path\":" = 93 :: str ",\"reverse_path\":" := by decide
      rw [this]; simp [List.append_assoc]
      have : str "}" = [125] := by decide
      have h2 : str "null}" = str "null" ++ [125] := by decide
      rw [this, h2])]
    simp
  | some fa =>
    rw [h1 (jsonString fa ++ [125]) (by
      simp only [envelopeJson, keyForward, keyReverse]
      have : str "],\"reverse_path\":" = 93 :: str ",\"reverse_path\":" := by decide
      rw [this]; simp [List.append_assoc]
      have : str "}" = [125] := by decide
      rw [this])]
    have hne : ¬ (jsonString fa ++ [125] = str "null}") := by
      intro h
      have := congrArg List.head? h
      simp [jsonString] at this
      revert this; decide
    rw [if_neg hne]
    have e2 : jsonString fa ++ [125] = 34 :: (fa.flatMap jsonEscapeByte ++ 34 :: [125]) := by simp [jsonString]
    rw [e2]
    simp only
    rw [readStr_escaped]
    simp

end LV.EnvelopeJson

namespace LV.EnvelopeJson
open LV LV.Transports

theorem escape_length (s : Bytes) : (s.flatMap jsonEscapeByte).length ≤ 2 * s.length := by
  induction s with
  | nil => simp
  | cons b bs ih =>
    have hb : (jsonEscapeByte b).length ≤ 2 := by
      unfold jsonEscapeByte; split
      · simp
      · split <;> simp
    simp only [List.flatMap_cons, List.length_append, List.length_cons]
    omega

theorem jsonString_length (s : Bytes) : (jsonString s).length ≤ 2 * s.length + 2 := by
  have := escape_length s
  simp only [jsonString, List.length_append, List.length_cons, List.length_nil]
  omega

theorem joinComma_length (ts : List Bytes) :
    (joinComma (ts.map jsonString)).length ≤ 2 * (ts.map List.length).sum + 3 * ts.length := by
  induction ts with
  | nil => simp [joinComma]
  | cons t ts ih =>
    have ht := jsonString_length t
    cases ts with
    | nil => simp only [List.map_cons, List.map_nil, joinComma, List.sum_cons, List.sum_nil, List.length_cons, List.length_nil]; omega
    | cons u us =>
      simp only [List.map_cons, joinComma, List.length_append, List.length_cons, List.length_nil, List.sum_cons] at ih ⊢
      omega

/-- the envelope file is linear in the envelope: at most twice the addresses, three octets per recipient and 42 more -/
theorem envelopeJson_linear (e : Envelope) :
    (envelopeJson e).length ≤ 2 * ((e.to.map List.length).sum + (e.from?.map List.length).getD 0) + 3 * e.to.length + 42 := by
  obtain ⟨f, to⟩ := e
  have hj := joinComma_length to
  have k1 : (str "{\"forward_path\":[").length = 17 := by decide
  have k2 : (str "],\"reverse_path\":").length = 17 := by decide
  have k3 : (str "}").length = 1 := by decide
  have k4 : (str "null").length = 4 := by decide
  cases f with
  | none =>
    simp only [envelopeJson, List.length_append, k1, k2, k3, k4, Option.map_none, Option.getD_none]
    omega
  | some fa =>
    have hf := jsonString_length fa
    simp only [envelopeJson, List.length_append, k1, k2, k3, Option.map_some, Option.getD_some]
    omega

end LV.EnvelopeJson
